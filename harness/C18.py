"""C18 -- a type mapping replaces the mapped type everywhere and nothing else (DESIGN 4/C18)."""
import sys

from rsx import harness as H, values as V, interp as IP, sym, pipeline as PL, mutate as M
from rsx.values import Str, HMap, Some, deref
from rsx.engine import Inconclusive, PathAbort, z_and, z_or, z_not
from rsx.readers import ts as TS
from harness import common as C
from harness import shapes as S
from harness import tsresolve as R
from harness.C05 import CTX, QUICK_CTX, skeleton, erase, C05

CMD = '#[tauri::command]\npub fn '
SITES = ('param', 'return', 'field', 'channel', 'payload')
TARGETS = {'string': ('str',), 'number': ('num',), 'boolean': ('bool',)}


class C18(C.PipelineCheck):
    id = 'C18'
    title = 'A type mapping replaces the mapped type everywhere and nothing else'
    required_covers = ('plain-name', 'generic-name', 'site:param', 'site:return', 'site:field', 'site:channel', 'site:payload', 'unmapped-unchanged', 'lookalike')

    def bounds(self, tier):
        q = tier != 'thorough'
        return {'mapping': 'one entry N -> {string, number, boolean}; N is a symbolic identifier (3 characters) either plain or with one symbolic generic argument (N<G>); '
                           'a second entry for an unrelated name; look-alike unmapped types whose names extend N at the end (Nx) and at the front (XN)',
                'positions': 'N under every constructor-context chain of depth <=%d from {%s} at each of the five sites, both modes' % (1 if q else 2, ', '.join(QUICK_CTX)),
                'relation': 'mapped run: every position denotes the target; N is neither declared nor referenced; unmapped run of the same project: every declaration that does '
                            'not mention N is textually identical'}

    def outside(self):
        return ['mapping targets other than string/number/boolean', '::-qualified spellings of N (reported under C01)', 'more than two mapping entries']

    def assumptions(self):
        return ['mapping keys are written exactly as the tool prints the Rust type (`DateTime<Utc>`)', 'Zod target schemas: string -> z.string(), number -> z.number() or z.coerce.number(), boolean -> z.boolean() or z.coerce.boolean()']

    def scenarios(self, tier):
        q = tier != 'thorough'
        chains = [()] + [(a,) for a in QUICK_CTX]
        if not q:
            chains += [(a, b) for a in ('opt', 'vec', 'hmap-v', 'tup2-1', 'result') for b in QUICK_CTX]
        for site in SITES:
            for form in ('plain', 'generic'):
                yield ('%s/%s' % (site, form), dict(site=site, form=form, chains=chains))

    def mutant_scenarios(self, tier, name):
        for j in self.scenarios('quick'):
            if j[0] in ('field/plain', 'return/generic', 'param/generic', 'payload/plain'):
                yield j

    def project(self, site, ty_text, other_text):
        src = C.HEADER + '#[derive(Serialize, Deserialize)]\npub struct Keep { pub label: String, pub near: %s }\n' % other_text
        if site == 'param':
            src += CMD + 'cmd(x: %s, k: Keep) -> i32 { 0 }\n' % ty_text
        elif site == 'return':
            src += CMD + 'cmd(k: Keep) -> %s { todo!() }\n' % ty_text
        elif site == 'field':
            src += '#[derive(Serialize, Deserialize)]\npub struct Bar { pub f: %s, pub k: Keep }\n' % ty_text + CMD + 'cmd(x: Bar) -> i32 { 0 }\n'
        elif site == 'channel':
            src += CMD + 'cmd(k: Keep, ch: tauri::ipc::Channel<%s>) -> i32 { 0 }\n' % ty_text
        else:
            src += CMD + 'cmd(app: tauri::AppHandle, k: Keep, v: %s) { app.emit("evt", v).unwrap(); }\n' % ty_text
        return src

    @staticmethod
    def emitted_shape(site, mode, outputs):
        """shape of the translated position (TS type or Zod schema)"""
        if mode == 'zod' and site in ('param', 'field'):
            mod = TS.parse_module(outputs['types.ts'], 'types.ts')
            want = 'BarSchema' if site == 'field' else 'CmdParamsSchema'
            key = 'f' if site == 'field' else 'x'
            for it in mod.items:
                if it.kind == 'Const' and it.name.py() == want:
                    root, chain = S.member_chain(it.init)
                    for p in chain[0][1][0].props:
                        if p.key.text.py() == key:
                            info = {}
                            sh = S.zod_shape(p.value, info)
                            return S.norm(_undef_to_null(sh))
            raise TS.Reject('schema position not found', 0, '', 'module')
        ast = C05.emitted(site, mode, outputs)
        return S.norm(S.ts_shape(ast))

    def run_scenario(self, ctx, name, p):
        I = IP.Interp(ctx.prog)
        eng = ctx.engine(max_paths=80000, max_seconds=1500)
        eng.order_mode = 'insertion'
        site, form = p['site'], p['form']

        def body(e):
            mode = ('none', 'zod')[e.choose(2)]
            chain = p['chains'][e.choose(len(p['chains']))]
            if site == 'channel' and chain and chain[0] == 'ref':
                raise PathAbort()
            tgt = ('string', 'number', 'boolean')[e.choose(3)]
            n = C.sym_type_ident('n', 3)
            # look-alikes: unmapped project types whose names extend N at the end (Nx) and at the front (XN)
            holes = {'n': n, 'nx': Str(n.cs + (ord('x'),)), 'xn': Str((ord('X'),) + n.cs)}
            for w in ('Vec', 'Box', 'Map', 'Set', 'Bar', 'Any'):
                e.assume(z_not(V.str_eq(n, Str(w))))
            if form == 'generic':
                g = C.sym_type_ident('g', 3)
                holes['g'] = g
                name_text = 'HOLE_n<HOLE_g>'
                key = Str(n.cs + (ord('<'),) + g.cs + (ord('>'),))
                e.cover('generic-name')
            else:
                name_text = 'HOLE_n'
                key = n
                e.cover('plain-name')
            e.cover('site:' + site)
            sk = skeleton(chain, ('prim', name_text))
            ty = S.rust_text(sk)
            # look-alike: an unmapped project type whose name extends N (Nx) -- must be left alone
            look = 'HOLE_nx'
            near = 'Option<%s>, pub far: Vec<HOLE_xn>' % look
            decls = '#[derive(Serialize, Deserialize)]\npub struct %s { pub v: i32 }\n#[derive(Serialize, Deserialize)]\npub struct HOLE_xn { pub w: bool }\n' % look
            src = self.project(site, ty, near) + decls
            e.cover('lookalike')
            mapping = HMap([[key, Str(tgt)], [Str('Unrelated'), Str('number')]])
            cfg = {'validation_library': mode, 'type_mappings': Some(mapping)}
            proj = PL.Project({'src/main.rs': src}, holes, cfg)
            run = PL.run_model(I, proj)
            if run.result.var != 'Ok':
                return (mode, proj, 'error')
            tag = '%s/%s/%s' % (site, form, erase(skeleton(chain, ('leaf', 't'))))
            base = 'C18/%s/%s' % (tag, mode)
            wit = lambda m, proj=proj, mode=mode: C.witness_of(proj, m, dict(mode=mode, site=site, target=tgt))
            # 1. the mapped position denotes the target
            # reference: the same project with the target's Rust primitive written in place of N and no mapping
            # (so the rendering of the surrounding constructors, which is C05/C10's business, cancels out)
            prim = {'string': 'String', 'number': 'f64', 'boolean': 'bool'}[tgt]
            src3 = self.project(site, S.rust_text(skeleton(chain, ('prim', prim))), near) + decls
            run3 = PL.run_model(I, PL.Project({'src/main.rs': src3}, holes, {'validation_library': mode}))
            try:
                want = self.emitted_shape(site, mode, run3.outputs) if run3.result.var == 'Ok' else S.norm(_denote_with(sk, TARGETS[tgt]))
                got = self.emitted_shape(site, mode, run.outputs)
            except TS.Reject as r:
                ctx.violation(e, base + '/unreadable', 'output can be read back', True, wit, r.what)
                return (mode, proj, 'unreadable')
            ok = S.shape_eq(got, want)
            ctx.violation(e, base + '/not-replaced', 'every occurrence of the mapped type is rendered as its target', z_not(ok) if not isinstance(ok, bool) else not ok, wit,
                          lambda m: 'emitted %s expected %s' % (S.show(got, m), S.show(want, m)))
            # 2. N is neither declared nor referenced by name anywhere
            for fname in sorted(run.outputs):
                if not fname.endswith('.ts'):
                    continue
                mod = TS.parse_module(run.outputs[fname], fname)
                names = []
                for it in mod.items:
                    if it.kind in ('Interface', 'TypeAlias', 'Const', 'Function'):
                        names.append(it.name)
                    for ref in R.type_refs(it):
                        names.extend(ref.parts)
                    if it.kind == 'Const':
                        for (root, prop, pos) in R.value_ids(it.init):
                            names.append(root)
                for nm in names:
                    hit = z_or(V.str_eq(nm, n), V.str_eq(nm, Str(n.cs + Str('Schema').cs)))
                    ctx.violation(e, base + '/name-leaks:' + fname, 'the mapped name is never declared or referenced', hit, wit,
                                  lambda m, nm=nm: 'name %s appears in %s' % (PL.concretize_str(m, nm), fname))
            # 3. unmapped types are rendered exactly as without the mapping
            proj2 = PL.Project({'src/main.rs': src}, holes, {'validation_library': mode})
            run2 = PL.run_model(I, proj2)
            if run2.result.var == 'Ok':
                from harness.C13 import blocks, same_text
                for fname in ('types.ts',):
                    b1 = blocks(run.outputs[fname])
                    b2 = blocks(run2.outputs[fname])
                    keep1 = [b for b in b1 if _mentions(b, 'Keep') or _mentions_sym(e, b, n, 'x') or _mentions_sym(e, b, holes['xn'], '')]
                    keep2 = [b for b in b2 if _mentions(b, 'Keep') or _mentions_sym(e, b, n, 'x') or _mentions_sym(e, b, holes['xn'], '')]
                    keep1 = [b for b in keep1 if not _mentions(b, 'CmdParams') and not _mentions(b, 'Bar')]
                    keep2 = [b for b in keep2 if not _mentions(b, 'CmdParams') and not _mentions(b, 'Bar')]
                    e.cover('unmapped-unchanged')
                    if len(keep1) != len(keep2):
                        ctx.violation(e, base + '/unmapped-changed', 'types not named in the mapping are rendered as without it', True, wit, '%d vs %d declarations' % (len(keep1), len(keep2)))
                    else:
                        for x, y in zip(keep1, keep2):
                            okx = same_text(x, y)
                            ctx.violation(e, base + '/unmapped-changed', 'types not named in the mapping are rendered as without it',
                                          z_not(okx) if not isinstance(okx, bool) else not okx, wit,
                                          lambda m, x=x, y=y: '%r vs %r' % (PL.concretize_str(m, x)[:120], PL.concretize_str(m, y)[:120]))
            return (mode, proj, 'ok')

        def end(e, outcome):
            if outcome[0] == 'panic':
                e.cover('panic-path')
                return
            if outcome[0] != 'ok':
                return
            mode, proj, st = outcome[1]
            m = e.get_model()
            ctx.sample(dict(scenario=name, mode=mode, holes={k: PL.concretize_str(m, v) for k, v in proj.holes.items()}, status=st), 2)

        eng.explore(body, end)
        ctx.finish_engine(eng)

    def replay(self, f):
        w = f['witness']
        rc, outs, err, _ = PL.run_native(w['files'], w['config'])
        eng = H.E.Engine()
        V.set_engine(eng)
        outputs = {k: Str(v) for k, v in outs.items()}
        kind = f['key'].rsplit('/', 1)[1]
        n = w['holes']['n']
        if kind == 'unreadable':
            try:
                self.emitted_shape(w['site'], w['mode'], outputs)
            except (TS.Reject, KeyError):
                return True
            return False
        if kind == 'not-replaced':
            try:
                got = self.emitted_shape(w['site'], w['mode'], outputs)
            except (TS.Reject, KeyError):
                return True
            # the target primitive must be what stands where N was: recompute expectation from the source text
            from harness.C05 import parse_rust_type
            import re
            line = [l for l in w['files']['src/main.rs'].split('\n') if 'fn cmd' in l or 'pub f:' in l]
            full = n + ('<%s>' % w['holes']['g'] if 'g' in w['holes'] else '')
            ty = self._site_type(w['site'], w['files']['src/main.rs'])
            sk = parse_rust_type(ty.replace(full, 'MAPPEDTYPE'), {})
            want = S.norm(_denote_with(_rename_prim(sk, 'MAPPEDTYPE'), TARGETS[w['target']]))
            return S.shape_eq(got, want) is not True
        if kind.startswith('name-leaks'):
            fname = kind.split(':', 1)[1]
            import re
            return re.search(r'(?<![A-Za-z0-9_])%s(Schema)?(?![A-Za-z0-9_])' % re.escape(n), outs.get(fname, '')) is not None
        if kind == 'unmapped-changed':
            cfg2 = dict(w['config'])
            cfg2.pop('type_mappings', None)
            rc2, outs2, _, _ = PL.run_native(w['files'], cfg2)
            a = [b for b in outs['types.ts'].split('\n\n') if ('Keep' in b or n + 'x' in b) and 'CmdParams' not in b and 'Bar' not in b and 'Generated at' not in b]
            b = [b for b in outs2['types.ts'].split('\n\n') if ('Keep' in b or n + 'x' in b) and 'CmdParams' not in b and 'Bar' not in b and 'Generated at' not in b]
            return a != b
        return False

    @staticmethod
    def _site_type(site, src):
        import re
        if site == 'param':
            return re.search(r'cmd\(x: (.*), k: Keep\)', src).group(1)
        if site == 'return':
            return re.search(r'cmd\(k: Keep\) -> (.*) \{ todo', src).group(1)
        if site == 'field':
            return re.search(r'pub struct Bar \{ pub f: (.*), pub k: Keep \}', src).group(1)
        if site == 'channel':
            return re.search(r'Channel<(.*)>\) -> i32', src).group(1)
        return re.search(r'k: Keep, v: (.*)\) \{ app', src).group(1)

    def mutants(self):
        def zod_custom_ignores_mapping(prog):
            fd = prog.methods.get(('ZodVisitor', 'visit_custom'))
            return fd is not None and M.replace_str_lit(fd, 'string', 'strin')

        def interface_ignores_mapping(prog):
            fd = prog.methods.get(('ZodVisitor', 'visit_type_for_interface'))
            return fd is not None and M.drop_method_call_stmt(fd, 'get') or (fd is not None and M.swap_binop(fd, 'Eq', 'Ne'))

        def base_ignores(prog):
            fd = M.find_fn(prog, 'TypeVisitor::visit_custom')
            if fd is None:
                return False
            # return the name unconditionally: drop the first statement (the mapping lookup)
            st = fd.body['stmts']
            if len(st) >= 2:
                del st[0]
                return True
            return False
        return [('base-visitor-ignores-mappings', base_ignores), ('zod-string-target-not-recognised', zod_custom_ignores_mapping)]

    quick_mutants = 2


def _denote_with(sk, target_shape):
    k = sk[0]
    if k == 'prim':
        return target_shape
    if k == 'unit':
        return ('unit',)
    if k == 'opt':
        return ('union', [_denote_with(sk[1], target_shape), ('null',)])
    if k in ('vec', 'hset', 'bset'):
        return ('arr', _denote_with(sk[1], target_shape))
    if k in ('hmap', 'bmap'):
        return ('rec', _prim_or(sk[1], target_shape), _prim_or(sk[2], target_shape))
    if k == 'tuple':
        return ('tup', [_prim_or(x, target_shape) for x in sk[1]])
    if k in ('result', 'result1', 'ref'):
        return _denote_with(sk[1], target_shape)
    raise ValueError(k)


def _prim_or(sk, target_shape):
    if sk[0] == 'prim' and ('HOLE_' in sk[1] or sk[1] == 'MAPPEDTYPE'):
        return target_shape
    if sk[0] == 'prim':
        return S.leaf_shape(Str(sk[1]))
    return _denote_with(sk, target_shape)


def _rename_prim(sk, name):
    return sk


def _undef_to_null(s):
    k = s[0]
    if k == 'undef':
        return ('null',)
    if k == 'union':
        return ('union', [_undef_to_null(a) for a in s[1]])
    if k in ('arr', 'set'):
        return (k, _undef_to_null(s[1]))
    if k == 'rec':
        return ('rec', _undef_to_null(s[1]), _undef_to_null(s[2]))
    if k == 'tup':
        return ('tup', [_undef_to_null(x) for x in s[1]])
    return s


def _mentions(block, word):
    t = ''.join(chr(c) if isinstance(c, int) else '\x00' for c in block.cs)
    return word in t


def _mentions_sym(e, block, n, suffix):
    """does the block mention the symbolic name n followed by suffix (concrete positions only: symbolic run detection)"""
    cs = block.cs
    k = len(n.cs)
    for i in range(len(cs) - k):
        if all((cs[i + j] is n.cs[j]) or (isinstance(cs[i + j], int) and cs[i + j] == n.cs[j]) for j in range(k)) and \
                (suffix == '' or (isinstance(cs[i + k], int) and chr(cs[i + k]) == suffix)):
            return True
    return False


if __name__ == '__main__':
    sys.exit(H.main(C18()))
