"""C03 -- exactly one wrapper per discovered command, invoking exactly its Rust name (DESIGN 4/C03)."""
import sys

from rsx import harness as H, values as V, interp as IP, sym, pipeline as PL, mutate as M
from rsx.values import Str, deref
from rsx.engine import Inconclusive, PathAbort, z_and, z_or, z_not
from rsx.readers import ts as TS
from harness import common as C
from harness import shapes as S

SCOPE = {'AstCache::parse_and_cache_all_files'}


def read_wrappers(outputs):
    """-> list of (function name Str, invoked command name Str, return type AST)"""
    if 'commands.ts' not in outputs:
        return []
    mod = TS.parse_module(outputs['commands.ts'], 'commands.ts')
    out = []
    for it in mod.items:
        if it.kind != 'Function':
            continue
        calls = []

        def walk(n):
            if isinstance(n, list):
                for x in n:
                    walk(x)
            elif isinstance(n, TS.N):
                if n.kind == 'Call' and n.callee.kind == 'Id' and n.callee.name.py() == 'invoke':
                    calls.append(n)
                for v in n.__dict__.values():
                    if isinstance(v, (list, TS.N)):
                        walk(v)
        walk(it.body)
        if len(calls) != 1 or not calls[0].args or calls[0].args[0].kind != 'Str':
            raise TS.Reject('wrapper does not call invoke(<string>, ..) exactly once', 0, '', 'statement')
        out.append((it.name, calls[0].args[0].value, it.ret))
    return out


class C03(C.PipelineCheck):
    id = 'C03'
    title = 'Exactly one wrapper per discovered command, invoking exactly its Rust name'
    required_covers = ('layout:included', 'layout:excluded', 'attr:command', 'attr:other', 'item:nested', 'unparsable', 'name:symbolic', 'name:raw', 'same-name', 'root-named-target')

    def bounds(self, tier):
        q = tier != 'thorough'
        return {'layouts': 'a command file at <root>/<dir>/<name>.<ext> with <dir> symbolic (4 or 6 chars over [a-z.]) and <ext> symbolic (2 chars), next to two '
                           'fixed files; directories and *files* named target/.git, look-alike names (targets, my.git), nesting depth 1..3; project roots whose '
                           'own path contains a component named target; every directory enumeration order',
                'attributes': 'attribute path of one or two symbolic segments (lengths 5 / 7), with or without arguments, leading ::, mixed with other attributes in either order',
                'items': 'commands at top level, inside impl blocks, inline modules and function bodies; pub / pub(crate) / private; async / sync',
                'parse errors': 'one or two of three files fail to parse',
                'names': 'command name symbolic (1..%d chars), wrapper must invoke exactly that name' % (4 if q else 6)}

    def outside(self):
        return ['the text->AST step (syn::parse_file): a file either yields its AST or fails', 'symlinks, permissions and other OS behaviour', 'more than 4 files',
                'attribute paths of more than two segments']

    def assumptions(self):
        return ['ground truth: a function is a command iff it is a top-level item of a parsable .rs file under the project path, outside target/ and .git/ directories '
                'below that path, carrying an attribute whose path is `command` or `tauri::command` (with or without arguments)',
                'WalkDir yields the directory tree depth-first with arbitrary sibling order']

    def scenarios(self, tier):
        q = tier != 'thorough'
        for dl in (4, 6):
            yield ('layout/dir%d' % dl, dict(kind='layout', dl=dl))
        yield ('layout/ext', dict(kind='ext'))
        for v in range(6):
            yield ('layout/decoys%d' % v, dict(kind='decoys', v=v))
        yield ('layout/root', dict(kind='root'))
        for form in ('HOLE_y', 'HOLE_x::HOLE_y', 'HOLE_y(rename_all = "snake_case")', 'HOLE_x::HOLE_y(rename_all = "snake_case")', '::HOLE_x::HOLE_y',
                     # every argument form Tauri's macro accepts keeps the function a command
                     'HOLE_x::HOLE_y(root = "crate")', 'HOLE_x::HOLE_y(async)', 'HOLE_x::HOLE_y(rename_all = "snake_case", root = "crate")', 'HOLE_y(async, root = "crate")'):
            yield ('attr/%s' % form.replace('HOLE_', ''), dict(kind='attr', form=form))
        yield ('attr/order', dict(kind='attr-order'))
        yield ('items', dict(kind='items'))
        for v in range(3):
            yield ('unparsable%d' % v, dict(kind='unparsable', v=v))
        for n in range(1, (4 if q else 6) + 1):
            yield ('name/%d' % n, dict(kind='name', n=n))
        # the same command name in two files / under two cfg attributes: every annotated function is a command of its own
        for v in range(3):
            yield ('same-name/%d' % v, dict(kind='same-name', v=v))
        # commands declared with a raw identifier (`fn r#type`): Tauri registers them under the identifier's text, r# included
        for n in ((2, 4) if q else (2, 3, 4, 5, 6)):
            yield ('rawname/%d' % n, dict(kind='rawname', n=n))

    def mutant_scenarios(self, tier, name):
        for j in self.scenarios('quick'):
            if j[0] in ('layout/dir6', 'layout/dir4', 'layout/decoys0', 'layout/decoys2', 'attr/y', 'attr/x::y', 'unparsable0', 'name/2', 'items'):
                yield j

    def run_scenario(self, ctx, name, p):
        I = IP.Interp(ctx.prog)
        eng = ctx.engine(max_paths=80000, max_seconds=1500)
        kind = p['kind']
        cmd = '#[tauri::command]\npub fn %s() -> i32 { 0 }\n'

        def body(e):
            mode = ('none', 'zod')[e.choose(2)]
            e.order_mode = 'scoped'
            e.order_all_in = SCOPE if kind not in ('name', 'attr', 'rawname', 'same-name') else set()
            e.order_fallback = ('insertion', 'reverse')[e.choose(2)]
            holes = {}
            files = {'src/main.rs': cmd % 'alpha', 'src/lib.rs': 'pub fn helper() {}\n' + cmd % 'beta'}
            extra_files = {}
            expected = [Str('alpha'), Str('beta')]
            unparsable = ()
            root = '/p'
            world_extra = []      # (path Str, kind, content) added to the world directly (symbolic paths)
            tag = kind
            if kind == 'layout':
                d = sym.sym_str('d', p['dl'], 'abcdefghijklmnopqrstuvwxyz.')
                e.assume(z_not(V.char_eq(d.cs[0], 46)) if p['dl'] == 6 else True)
                e.assume(z_not(V.str_eq(d, Str('....' if p['dl'] == 4 else '......'))))
                # `.` and `..` components are not directory names
                e.assume(z_or(*[z_not(V.char_eq(c, 46)) for c in d.cs[1:]]))
                holes['d'] = d
                depth = e.choose(3)
                pre = ['src', 'src/a', 'src/a/b'][depth]
                path = Str(root + '/' + pre + '/').concat(d).concat(Str('/gamma.rs'))
                dirp = Str(root + '/' + pre + '/').concat(d)
                world_extra = [(dirp, 'dir', None), (path, 'file', ('src', 'GAMMA'))]
                if depth >= 1:
                    world_extra.insert(0, (Str(root + '/src/a'), 'dir', None))
                if depth >= 2:
                    world_extra.insert(1, (Str(root + '/src/a/b'), 'dir', None))
                excluded = z_or(V.str_eq(d, Str('target')), V.str_eq(d, Str('.git')))
                if e.decide(excluded):
                    e.cover('layout:excluded')
                else:
                    expected.append(Str('gamma'))
                    e.cover('layout:included')
                tag = 'layout:dir'
            elif kind == 'ext':
                x = sym.sym_str('x', 2, 'abcdefghijklmnopqrstuvwxyz')
                holes['x'] = x
                path = Str(root + '/src/gamma.').concat(x)
                world_extra = [(path, 'file', ('src', 'GAMMA'))]
                if e.decide(V.str_eq(x, Str('rs'))):
                    expected.append(Str('gamma'))
                    e.cover('layout:included')
                else:
                    e.cover('layout:excluded')
                tag = 'layout:ext'
            elif kind == 'decoys':
                v = p['v']
                tag = 'layout:decoy%d' % v
                if v == 0:      # real target/ and .git/ directories with .rs files
                    files['target/debug/build/gen.rs'] = cmd % 'nope'
                    files['.git/hooks/x.rs'] = cmd % 'nope2'
                    files['src/target/inner.rs'] = cmd % 'nope3'
                    e.cover('layout:excluded')
                elif v == 1:    # look-alike directory names are ordinary directories
                    files['src/targets/t.rs'] = cmd % 'gamma'
                    files['src/my.git/g.rs'] = cmd % 'delta'
                    files['src/target_old/o.rs'] = cmd % 'epsilon'
                    expected += [Str('gamma'), Str('delta'), Str('epsilon')]
                    e.cover('layout:included')
                elif v == 2:    # a *file* named target / .git does not hide its siblings
                    extra_files['src/target'] = 'not a directory'
                    extra_files['.git'] = 'gitdir: ../.git/worktrees/x'
                    files['src/zeta.rs'] = cmd % 'zeta'
                    files['src/window.rs'] = cmd % 'omega'
                    expected += [Str('zeta'), Str('omega')]
                elif v == 3:    # non-.rs files and deep nesting
                    extra_files['src/notes.txt'] = '#[tauri::command] fn fake() {}'
                    extra_files['src/gen.rs.bak'] = '#[tauri::command] fn fake2() {}'
                    files['src/a/b/c/d/deep.rs'] = cmd % 'deep'
                    expected += [Str('deep')]
                elif v == 4:    # file names containing target / .git
                    files['src/target.rs'] = cmd % 'gamma'
                    files['src/x.git.rs'] = cmd % 'delta'
                    expected += [Str('gamma'), Str('delta')]
                else:           # empty directories and a directory named like a file
                    files['src/mod.rs/inner.rs'] = cmd % 'gamma'
                    expected += [Str('gamma')]
            elif kind == 'root':
                root = ['/w/target/app', '/home/u/.git/proj', '/w/targets/app'][e.choose(3)]
                e.cover('root-named-target')
                tag = 'layout:root=%s' % root
            elif kind == 'attr':
                form = p['form']
                if 'HOLE_x' in form:
                    holes['x'] = C.sym_ident('x', 5)
                holes['y'] = C.sym_ident('y', 7)
                files['src/gamma.rs'] = '#[%s]\npub fn gamma() -> i32 { 0 }\n' % form
                is_cmd = V.str_eq(holes['y'], Str('command'))
                if 'HOLE_x' in form:
                    is_cmd = z_and(is_cmd, V.str_eq(holes['x'], Str('tauri')))
                if e.decide(is_cmd):
                    expected.append(Str('gamma'))
                    e.cover('attr:command')
                else:
                    e.cover('attr:other')
                tag = 'attr:%s' % form.replace('HOLE_', '')
            elif kind == 'attr-order':
                v = e.choose(5)
                heads = ['#[allow(unused)]\n#[tauri::command]\n', '#[tauri::command]\n#[allow(unused)]\n/// doc comment\n', '/// docs\n#[command]\n#[inline]\n',
                         '#[cfg(desktop)]\n#[tauri::command(async)]\n', '#[inline]\n#[doc = "x"]\n#[tauri::command]\n#[must_use]\n']
                files['src/gamma.rs'] = heads[v] + 'pub(crate) async fn gamma() -> i32 { 0 }\n' + '#[inline]\n#[allow(command)]\nfn not_a_command() {}\n'
                expected.append(Str('gamma'))
                tag = 'attr:order%d' % v
                e.cover('attr:command')
            elif kind == 'items':
                files['src/gamma.rs'] = ('pub struct S;\nimpl S {\n    #[tauri::command]\n    pub fn in_impl(&self) {}\n}\n'
                                         'mod inner {\n    #[tauri::command]\n    pub fn in_mod() {}\n}\n'
                                         'pub fn outer() {\n    #[tauri::command]\n    fn in_fn() {}\n}\n'
                                         'trait T {\n    #[tauri::command]\n    fn in_trait(&self) {}\n}\n'
                                         '#[tauri::command]\nfn private_cmd() {}\n#[tauri::command]\npub(crate) async fn crate_cmd() -> Result<(), String> { Ok(()) }\n')
                expected += [Str('private_cmd'), Str('crate_cmd')]
                e.cover('item:nested')
            elif kind == 'unparsable':
                files['src/gamma.rs'] = cmd % 'gamma'
                files['src/broken.rs'] = 'fn broken( {'
                files['src/sub/broken2.rs'] = 'this is not rust'
                which = p['v']
                unparsable = [('src/broken.rs',), ('src/broken.rs', 'src/sub/broken2.rs'), ('src/sub/broken2.rs', 'src/lib.rs')][which]
                expected.append(Str('gamma'))
                if 'src/lib.rs' in unparsable:
                    expected = [x for x in expected if x.py() != 'beta']
                e.cover('unparsable')
                tag = 'unparsable:%d' % which
            elif kind == 'same-name':
                v = p['v']
                if v == 0:      # identical signature in two files
                    files['src/platform/linux.rs'] = '#[tauri::command]\npub fn battery() -> Result<u8, String> { Ok(1) }\n'
                    files['src/platform/windows.rs'] = '#[tauri::command]\npub fn battery() -> Result<u8, String> { Ok(2) }\n'
                elif v == 1:    # cfg variants in one file
                    files['src/gamma.rs'] = ('#[cfg(desktop)]\n#[tauri::command]\npub fn battery(tab: String) -> Result<(), String> { Ok(()) }\n'
                                             '#[cfg(mobile)]\n#[tauri::command]\npub fn battery(tab: String) -> Result<(), String> { Ok(()) }\n')
                else:           # same name, different signatures
                    files['src/gamma.rs'] = '#[tauri::command]\npub fn battery(a: i32) -> i32 { a }\n'
                    files['src/sub/delta.rs'] = '#[tauri::command]\npub fn battery(b: String) -> String { b }\n'
                expected += [Str('battery'), Str('battery')]
                e.cover('same-name')
                tag = 'same-name:%d' % v
            elif kind == 'rawname':
                nm0 = sym.sym_str('n', p['n'], 'abcdefghijklmnopqrstuvwxyz')
                for w in ('self', 'crate', 'super'):
                    if len(w) == p['n']:
                        e.assume(z_not(V.str_eq(nm0, Str(w))))
                holes['n'] = nm0
                files['src/gamma.rs'] = '#[tauri::command]\npub fn r#HOLE_n(x: i32) -> i32 { x }\n'
                expected.append(Str('r#').concat(nm0))
                e.cover('name:raw')
                tag = 'rawname'
            else:
                nm = C.sym_ident('n', p['n'])
                e.assume(z_or(*[z_not(V.char_eq(c, 95)) for c in nm.cs]))
                e.assume(z_not(V.str_eq(nm, Str('alpha'))))
                e.assume(z_not(V.str_eq(nm, Str('beta'))))
                holes['n'] = nm
                files['src/gamma.rs'] = '#[tauri::command]\npub async fn HOLE_n(x: i32) -> Result<String, String> { todo!() }\n'
                expected.append(nm)
                e.cover('name:symbolic')
            proj = PL.Project(files, holes, {'validation_library': mode}, unparsable=unparsable, extra_files=extra_files)
            w = proj.world(root)
            for (pth, k, content) in world_extra:
                if k == 'dir':
                    w.entries.append([pth, 'dir', None])
                else:
                    proj.files['__GAMMA__'] = cmd % 'gamma'
                    w.entries.append([pth, 'file', Str((V.Opaque('src', '__GAMMA__'),))])
            run = PL.run_model(I, proj, root=root, world=w)
            if '__GAMMA__' in proj.files:
                # for the native replay the symbolic path is concretised by witness_of below
                pass
            if run.result.var != 'Ok':
                return (mode, proj, 'error', None)
            base = 'C03/%s/%s' % (tag, mode)

            def wit(m, proj=proj, mode=mode):
                wv = C.witness_of(proj, m, dict(mode=mode, expected=sorted(PL.concretize_str(m, x) for x in expected), root=root))
                if '__GAMMA__' in wv['files']:
                    src = wv['files'].pop('__GAMMA__')
                    for (pth, k, content) in world_extra:
                        if k == 'file':
                            wv['files'][PL.concretize_str(m, pth)[len(root) + 1:]] = src
                return wv
            try:
                ws = read_wrappers(run.outputs)
            except TS.Reject as r:
                ctx.violation(e, base + '/unreadable', 'commands.ts can be read back', True, wit, r.what)
                return (mode, proj, 'unreadable', None)
            show = lambda m: 'wrappers invoke %s, expected %s' % (sorted(PL.concretize_str(m, x[1]) for x in ws), sorted(PL.concretize_str(m, x) for x in expected))
            for x in expected:
                hits = [wv for wv in ws if e.decide(V.str_eq(wv[1], x))]
                want = len([y for y in expected if e.decide(V.str_eq(y, x))])     # the same name may be a command in two files
                if len(hits) < want:
                    ctx.violation(e, base + '/missing-wrapper', 'every command has a wrapper invoking its Rust name', True, wit, show)
                elif len(hits) > want:
                    ctx.violation(e, base + '/duplicate-wrapper', 'exactly one wrapper per command', True, wit, show)
            for wv in ws:
                if not any(e.decide(V.str_eq(wv[1], x)) for x in expected):
                    ctx.violation(e, base + '/spurious-wrapper', 'no wrapper for anything that is not a command', True, wit, show)
                if wv[2] is None or wv[2].kind != 'Ref' or wv[2].parts[-1].py() != 'Promise':
                    ctx.violation(e, base + '/not-promise', 'wrapper returns a Promise', True, wit, show)
            for i in range(len(ws)):
                for j in range(i + 1, len(ws)):
                    ctx.violation(e, base + '/identifier-collision', 'wrapper identifiers are pairwise distinct', V.str_eq(ws[i][0], ws[j][0]), wit, show)
            return (mode, proj, 'ok', None)

        def end(e, outcome):
            if outcome[0] == 'panic':
                ctx.violation(e, 'C03/%s/panic' % kind, 'analysis does not panic', True, lambda m: dict(panic=outcome[1].msg), outcome[1].msg)
                return
            if outcome[0] != 'ok':
                return
            mode, proj, st, _ = outcome[1]
            m = e.get_model()
            ctx.sample(dict(scenario=name, mode=mode, holes={k: PL.concretize_str(m, v) for k, v in proj.holes.items()}, status=st), 2)

        eng.explore(body, end)
        ctx.finish_engine(eng)

    def replay(self, f):
        w = f['witness']
        if 'files' not in w:
            return False
        kind = f['key'].rsplit('/', 1)[1]
        files = dict(w['files'])
        extra = {}
        # non-.rs decoys travel in the witness as ordinary files
        import os as _os
        import tempfile
        import subprocess
        import shutil
        d = tempfile.mkdtemp(prefix='c03')
        try:
            root = _os.path.join(d, w.get('root', '/p').lstrip('/'))
            for rel, src in files.items():
                pth = _os.path.join(root, rel)
                _os.makedirs(_os.path.dirname(pth), exist_ok=True)
                if _os.path.isdir(pth):
                    continue
                open(pth, 'w').write(src)
            for rel, src in self._decoy_files(f).items():
                pth = _os.path.join(root, rel)
                _os.makedirs(_os.path.dirname(pth), exist_ok=True)
                open(pth, 'w').write(src)
            out = _os.path.join(d, 'out')
            for attempt in range(3):
                pr = subprocess.run([PL.CLI, 'tauri-typegen', 'generate', '-p', root, '-o', out, '-v', w['mode'], '--force'], cwd=d,
                                    stdout=subprocess.PIPE, stderr=subprocess.PIPE)
                if kind == 'panic':
                    return b'panicked' in pr.stderr
                outputs = {}
                if _os.path.isdir(out):
                    for fn in _os.listdir(out):
                        if fn.endswith('.ts'):
                            outputs[fn] = Str(open(_os.path.join(out, fn)).read())
                eng = H.E.Engine()
                V.set_engine(eng)
                try:
                    ws = read_wrappers(outputs)
                except TS.Reject:
                    return kind == 'unreadable'
                got = sorted(x[1].py() for x in ws)
                exp = w['expected']
                if kind == 'missing-wrapper' and any(got.count(x) < exp.count(x) for x in exp):
                    return True
                if kind == 'spurious-wrapper' and any(x not in exp for x in got):
                    return True
                if kind == 'duplicate-wrapper' and any(got.count(x) > exp.count(x) for x in exp):
                    return True
                if kind == 'identifier-collision' and len(set(x[0].py() for x in ws)) != len(ws):
                    return True
            return False
        finally:
            shutil.rmtree(d, ignore_errors=True)

    @staticmethod
    def _decoy_files(f):
        k = f['key']
        if 'decoy2' in k:
            return {'src/target': 'not a directory', '.git': 'gitdir: x'}
        if 'decoy3' in k:
            return {'src/notes.txt': '#[tauri::command] fn fake() {}', 'src/gen.rs.bak': '#[tauri::command] fn fake2() {}'}
        return {}

    def mutants(self):
        def git_not_skipped(prog):
            fd = M.find_fn(prog, 'AstCache::parse_and_cache_all_files')
            return fd is not None and M.replace_str_lit(fd, '/.git/', '/.gitx/')

        def command_attr(prog):
            fd = M.find_fn(prog, 'CommandParser::is_tauri_command')
            return fd is not None and M.replace_int_lit(fd, 2, 3)

        def parse_error_aborts(prog):
            fd = M.find_fn(prog, 'AstCache::parse_and_cache_all_files')
            return fd is not None and M.replace_str_lit(fd, 'rs', 'rss')
        return [('git-directory-not-skipped', git_not_skipped), ('two-segment-attribute-not-recognised', command_attr), ('extension-check-broken', parse_error_aborts)]

    quick_mutants = 2


if __name__ == '__main__':
    sys.exit(H.main(C03()))
