"""JSON-shape domain shared by C05 / C10 / C18: denotation of Rust type skeletons (what serde produces,
per the README table) and shapes read back from emitted TypeScript types and Zod schemas."""
from rsx import values as V
from rsx.values import Str
from rsx.engine import z_and, z_or, z_not, Inconclusive
from rsx.readers import ts as TS

NUMERIC = ['i8', 'i16', 'i32', 'i64', 'i128', 'isize', 'u8', 'u16', 'u32', 'u64', 'u128', 'usize', 'f32', 'f64']
STRINGS = ['String', 'str']


def decide(c):
    return V.ENG.decide(c)


# ---- shapes: tuples ('str',) ('num',) ('bool',) ('unit',) ('null',) ('unknown',) ('arr', s) ('rec', k, v)
#              ('tup', [s..]) ('union', [s..]) ('ref', Str) ('set', s) ('other', text)

def norm(s):
    """flatten unions, drop duplicates, order-insensitive"""
    if s[0] == 'union':
        alts = []
        for a in s[1]:
            a = norm(a)
            if a[0] == 'union':
                alts.extend(a[1])
            else:
                alts.append(a)
        out = []
        for a in alts:
            if not any(decide(shape_eq(a, b)) for b in out):
                out.append(a)
        if len(out) == 1:
            return out[0]
        return ('union', out)
    if s[0] in ('arr', 'set'):
        return (s[0], norm(s[1]))
    if s[0] == 'object':
        return ('object', [(k, norm(v)) for k, v in s[1]])
    if s[0] == 'rec':
        return ('rec', norm(s[1]), norm(s[2]))
    if s[0] == 'tup':
        return ('tup', [norm(x) for x in s[1]])
    return s


def shape_eq(a, b):
    """condition: two normalised shapes are equal (symbolic Ref names compared by the solver)"""
    if a[0] != b[0]:
        return False
    k = a[0]
    if k in ('str', 'num', 'bool', 'unit', 'null', 'unknown', 'undef'):
        return True
    if k == 'object':
        if len(a[1]) != len(b[1]):
            return False
        return z_and(*[z_and(V.str_eq(x[0], y[0]), shape_eq(x[1], y[1])) for x, y in zip(a[1], b[1])])
    if k == 'enum':
        if len(a[1]) != len(b[1]):
            return False
        return z_and(*[V.str_eq(x, y) for x, y in zip(a[1], b[1])])
    if k in ('arr', 'set'):
        return shape_eq(a[1], b[1])
    if k == 'rec':
        return z_and(shape_eq(a[1], b[1]), shape_eq(a[2], b[2]))
    if k == 'tup':
        if len(a[1]) != len(b[1]):
            return False
        return z_and(*[shape_eq(x, y) for x, y in zip(a[1], b[1])])
    if k == 'union':
        if len(a[1]) != len(b[1]):
            return False
        return z_and(*[z_or(*[shape_eq(x, y) for y in b[1]]) for x in a[1]])
    if k == 'ref':
        return V.str_eq(a[1], b[1])
    if k == 'other':
        return a[1] == b[1]
    return False


def show(s, model=None):
    from rsx import pipeline as PL
    k = s[0]
    if k in ('arr', 'set'):
        return '%s(%s)' % (k, show(s[1], model))
    if k == 'rec':
        return 'rec(%s,%s)' % (show(s[1], model), show(s[2], model))
    if k in ('tup', 'union'):
        return '%s[%s]' % (k, ', '.join(show(x, model) for x in s[1]))
    if k == 'ref':
        return 'ref(%s)' % (PL.concretize_str(model, s[1]) if model is not None or s[1].is_concrete() else '<sym>')
    if k == 'other':
        return 'other(%s)' % s[1]
    if k == 'object':
        return 'object'
    return k


# ---- Rust skeletons ------------------------------------------------------------------------------
# ('leaf', holename) | ('unit',) | ('opt', t) | ('vec', t) | ('hset', t) | ('bset', t) | ('hmap', k, v) | ('bmap', k, v)
# | ('tuple', [t..]) | ('result', t, e) | ('result1', t) | ('ref', t) | ('prim', name)

def rust_text(t):
    k = t[0]
    if k == 'leaf':
        return 'HOLE_' + t[1]
    if k == 'prim':
        return t[1]
    if k == 'unit':
        return '()'
    if k == 'opt':
        return 'Option<%s>' % rust_text(t[1])
    if k == 'vec':
        return 'Vec<%s>' % rust_text(t[1])
    if k == 'hset':
        return 'HashSet<%s>' % rust_text(t[1])
    if k == 'bset':
        return 'BTreeSet<%s>' % rust_text(t[1])
    if k == 'hmap':
        return 'HashMap<%s, %s>' % (rust_text(t[1]), rust_text(t[2]))
    if k == 'bmap':
        return 'BTreeMap<%s, %s>' % (rust_text(t[1]), rust_text(t[2]))
    if k == 'tuple':
        return '(%s)' % ', '.join(rust_text(x) for x in t[1])
    if k == 'result':
        return 'Result<%s, %s>' % (rust_text(t[1]), rust_text(t[2]))
    if k == 'result1':
        return 'Result<%s>' % rust_text(t[1])
    if k == 'ref':
        return '&%s' % rust_text(t[1])
    raise ValueError(k)


def leaf_shape(name, mappings=None):
    """denotation of a (possibly symbolic) leaf type name"""
    if mappings:
        for src, tgt in mappings:
            if decide(V.str_eq(name, src)):
                return {'string': ('str',), 'number': ('num',), 'boolean': ('bool',)}[tgt]
    for n in STRINGS:
        if decide(V.str_eq(name, Str(n))):
            return ('str',)
    for n in NUMERIC:
        if len(n) == len(name.cs) and decide(V.str_eq(name, Str(n))):
            return ('num',)
    if decide(V.str_eq(name, Str('bool'))):
        return ('bool',)
    return ('ref', name)


def denote(t, holes, mappings=None):
    k = t[0]
    if k == 'leaf':
        return leaf_shape(holes[t[1]], mappings)
    if k == 'prim':
        return leaf_shape(Str(t[1]), mappings)
    if k == 'unit':
        return ('unit',)
    if k == 'opt':
        return ('union', [denote(t[1], holes, mappings), ('null',)])
    if k in ('vec', 'hset', 'bset'):
        return ('arr', denote(t[1], holes, mappings))
    if k in ('hmap', 'bmap'):
        return ('rec', denote(t[1], holes, mappings), denote(t[2], holes, mappings))
    if k == 'tuple':
        return ('tup', [denote(x, holes, mappings) for x in t[1]])
    if k in ('result', 'result1'):
        return denote(t[1], holes, mappings)
    if k == 'ref':
        return denote(t[1], holes, mappings)
    raise ValueError(k)


def leaves(t, out=None):
    out = [] if out is None else out
    if t[0] == 'leaf':
        out.append(t[1])
    elif t[0] == 'tuple':
        for x in t[1]:
            leaves(x, out)
    elif t[0] in ('prim', 'unit'):
        pass
    else:
        for x in t[1:]:
            leaves(x, out)
    return out


def depth(t):
    if t[0] in ('leaf', 'unit', 'prim'):
        return 0
    if t[0] == 'tuple':
        return 1 + max(depth(x) for x in t[1])
    return 1 + max(depth(x) for x in t[1:])


# ---- TypeScript type AST -> shape ----------------------------------------------------------------

def ts_shape(n):
    k = n.kind
    if k == 'Union':
        return ('union', [ts_shape(a) for a in n.alts])
    if k == 'Array':
        return ('arr', ts_shape(n.elem))
    if k == 'Tuple':
        return ('tup', [ts_shape(e) for e in n.elems])
    if k == 'Paren':
        return ts_shape(n.inner)
    if k == 'Ref':
        parts = n.parts
        if len(parts) == 2 and parts[0].py() == 'types':
            parts = parts[1:]
        if len(parts) != 1:
            return ('other', 'qualified')
        name = parts[0]
        if n.args:
            for gen, mk in (('Record', lambda a: ('rec', ts_shape(a[0]), ts_shape(a[1]))), ('Array', lambda a: ('arr', ts_shape(a[0]))),
                            ('Promise', lambda a: ('other', 'promise')), ('Map', lambda a: ('other', 'Map')), ('Set', lambda a: ('set', ts_shape(a[0])))):
                if decide(V.str_eq(name, Str(gen))):
                    need = 2 if gen in ('Record', 'Map') else 1
                    if len(n.args) != need:
                        return ('other', gen + '-arity')
                    return mk(n.args)
            return ('other', 'generic')
        for w, sh in (('string', ('str',)), ('number', ('num',)), ('boolean', ('bool',)), ('void', ('unit',)), ('null', ('null',)),
                      ('unknown', ('unknown',)), ('undefined', ('other', 'undefined')), ('any', ('other', 'any'))):
            if decide(V.str_eq(name, Str(w))):
                return sh
        return ('ref', name)
    if k == 'LitType':
        return ('other', 'literal')
    return ('other', k)


# ---- Zod expression AST -> shape -----------------------------------------------------------------

def member_chain(e):
    """flatten a.b(c).d(e) into (root expr, [(name, args|None)...])"""
    chain = []
    while True:
        if e.kind == 'Call' and e.callee.kind == 'Member':
            chain.append((e.callee.prop, e.args, e.targs))
            e = e.callee.obj
        elif e.kind == 'Member':
            chain.append((e.prop, None, None))
            e = e.obj
        else:
            break
    chain.reverse()
    return e, chain


def zod_shape(e, info=None):
    """shape described by a Zod schema expression; info collects refinements (min/max/email/url/optional/...)"""
    info = info if info is not None else {}
    root, chain = member_chain(e)
    if root.kind == 'Id' and not chain:
        name = root.name
        if len(name.cs) > 6 and decide(V.str_eq(Str(name.cs[-6:]), Str('Schema'))):
            return ('ref', Str(name.cs[:-6]))
        return ('other', 'identifier')
    if root.kind == 'Id' and root.name.py() == 'z' and chain:
        i = 0
        name = chain[0][0].py()
        args = chain[0][1]
        if name == 'coerce' and len(chain) > 1:
            i = 1
            name = chain[1][0].py()
            args = chain[1][1]
            info['coerce'] = True
        base = None
        if name == 'string':
            base = ('str',)
        elif name == 'number':
            base = ('num',)
        elif name == 'boolean':
            base = ('bool',)
        elif name == 'void':
            base = ('unit',)
        elif name == 'null':
            base = ('null',)
        elif name == 'unknown' or name == 'any':
            base = ('unknown',)
        elif name == 'array':
            base = ('arr', zod_shape(args[0]))
        elif name == 'set':
            base = ('set', zod_shape(args[0]))
        elif name == 'record':
            base = ('rec', zod_shape(args[0]), zod_shape(args[1])) if len(args) == 2 else ('rec', ('str',), zod_shape(args[0]))
        elif name == 'tuple':
            base = ('tup', [zod_shape(x) for x in args[0].elems])
        elif name == 'union':
            base = ('union', [zod_shape(x) for x in args[0].elems])
        elif name == 'enum':
            base = ('enum', [x.value for x in args[0].elems])
        elif name == 'object':
            base = ('object', [(p.key.text, zod_shape(p.value)) for p in args[0].props])
        elif name == 'custom':
            base = ('other', 'custom')
        elif name == 'literal':
            base = ('other', 'literal')
        else:
            base = ('other', 'z.' + str(name))
        for (m, margs, _) in chain[i + 1:]:
            mn = m.py()
            if mn == 'nullable':
                base = ('union', [base, ('null',)])
            elif mn == 'optional':
                info['optional'] = info.get('optional', 0) + 1
                base = ('union', [base, ('undef',)])
            elif mn == 'or':
                base = ('union', [base, zod_shape(margs[0])])
            else:
                info.setdefault('refinements', []).append((mn, margs))
        return base
    if root.kind == 'Id' and chain:
        # XSchema.optional() etc.
        base = zod_shape(root)
        for (m, margs, _) in chain:
            mn = m.py()
            if mn == 'nullable':
                base = ('union', [base, ('null',)])
            elif mn == 'optional':
                info['optional'] = info.get('optional', 0) + 1
                base = ('union', [base, ('undef',)])
            else:
                info.setdefault('refinements', []).append((mn, margs))
        return base
    return ('other', root.kind)
