"""shared pieces of the pipeline-level harnesses: project templates, running both modes, replay."""
import json
import z3

from rsx import harness as H, values as V, interp as IP, sym, pipeline as PL
from rsx.values import Str, Struct, Enum, Vec, HMap, deref, Opaque
from rsx.engine import Inconclusive, RustPanic, PathAbort
from rsx.readers import ts as TS

IDENT_LOWER = 'abcdefghijklmnopqrstuvwxyz'
SNAKE = IDENT_LOWER + '0123456789_'
UPPER = 'ABCDEFGHIJKLMNOPQRSTUVWXYZ'
EVENT_ALPHABET = IDENT_LOWER + UPPER + '0123456789_/:-'

HEADER = 'use serde::{Serialize, Deserialize};\n'


def sym_ident(name, n, first=IDENT_LOWER + '_', rest=SNAKE):
    """symbolic Rust identifier of exactly n chars (not a keyword, not '_' alone)"""
    cs = [sym.sym_char('%s_0' % name, first)] + [sym.sym_char('%s_%d' % (name, i), rest) for i in range(1, n)]
    s = Str(tuple(cs))
    V.ENG.assume(PL.not_rust_keyword(s))
    return s


def sym_type_ident(name, n):
    cs = [sym.sym_char('%s_0' % name, UPPER)] + [sym.sym_char('%s_%d' % (name, i), IDENT_LOWER + UPPER + '0123456789') for i in range(1, n)]
    s = Str(tuple(cs))
    V.ENG.assume(PL.not_rust_keyword(s))
    return s


class PipelineCheck(H.Check):
    """a check whose scenarios are Projects run through generate_from_config in one or both modes"""
    modes = ('none', 'zod')

    def run_project(self, ctx, eng, I, project, mode, entry='lib'):
        project.config['validation_library'] = mode
        return PL.run_model(I, project, entry=entry)

    def native_outputs(self, witness):
        rc, outs, err, out = PL.run_native(witness['files'], witness['config'])
        return rc, outs, err


def witness_of(project, model, extra=None):
    files, vals = project.concrete_files(model)
    w = dict(files=files, holes=vals, config=project.concrete_config(model))
    if extra:
        w.update(extra)
    return w
