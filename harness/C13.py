"""C13 -- output is a deterministic function of sources and configuration (DESIGN 4/C13)."""
import sys

from rsx import harness as H, values as V, interp as IP, sym, pipeline as PL, mutate as M
from rsx.values import Str, deref, Opaque
from rsx.engine import Inconclusive, PathAbort, z_and, z_or, z_not
from rsx.readers import ts as TS
from harness import common as C

CMD = '#[tauri::command]\npub fn '
SCOPE = {'CommandAnalyzer::analyze_project_with_verbose', 'TypeCollector::create_struct_contexts', 'TypeCollector::collect_used_types',
         'TypeDependencyGraph::topological_sort_types', 'TypeDependencyGraph::topological_visit', 'AstCache::parse_and_cache_all_files',
         'ZodBindingsGenerator::generate_types_file_content', 'TypeScriptBindingsGenerator::generate_types_file_content',
         'TypeDependencyGraph::visualize_dependencies', 'TypeDependencyGraph::generate_dot_graph'}

A_RS = ('#[derive(Serialize, Deserialize, Clone)]\npub struct Alpha { pub id: i32, pub b: Vec<Beta> }\n'
        '#[derive(Serialize, Deserialize, Clone)]\npub struct Beta { pub name: String }\n')
CMD1 = CMD + 'first(a: Alpha) -> Option<Beta> { todo!() }\n'
CMD2 = CMD + 'second(app: tauri::AppHandle, payload: Gamma) -> i32 { app.emit("gamma-ready", payload).unwrap(); 0 }\n'
G_RS = '#[derive(Serialize, Deserialize, Clone)]\npub struct Gamma { pub k: Kind }\n#[derive(Serialize, Deserialize, Clone)]\npub enum Kind { One, Two }\n'
CMD3 = CMD + 'third(app: tauri::AppHandle) { let payload = compute(); app.emit("untyped", payload).unwrap(); }\n'
DECOYS = ['pub fn helper(payload: Alpha, flag: bool) -> i32 { 1 }\n', 'pub struct NotSerde { pub x: i32 }\n', 'const LIMIT: usize = 3;\n',
          'impl Alpha { pub fn touch(&self, payload: Beta) {} }\n', 'pub fn other(app: Thing, payload: Kind) { let a = payload; }\n',
          '#[derive(Debug)]\npub enum Plain { X }\n', 'mod inner { pub fn nothing() {} }\n', 'type Alias = i32;\n']


def blocks(text):
    """declarations of a generated file as a list of text blocks (Str), header removed"""
    cs = text.cs
    out = []
    cur = []
    i = 0
    n = len(cs)
    while i < n:
        if i + 1 < n and cs[i] == 10 and cs[i + 1] == 10:
            if cur:
                out.append(Str(tuple(cur)))
                cur = []
            while i < n and cs[i] == 10:
                i += 1
            continue
        cur.append(cs[i])
        i += 1
    if cur:
        out.append(Str(tuple(cur)))
    return [b for b in out if not any(isinstance(c, Opaque) and c.kind == 'timestamp' for c in b.cs)]


def same_text(a, b):
    """condition: two rendered texts are equal (the timestamp token compares equal to itself)"""
    if len(a.cs) != len(b.cs):
        return False
    conds = []
    for x, y in zip(a.cs, b.cs):
        if isinstance(x, Opaque) and isinstance(y, Opaque):
            if x.kind != y.kind:
                return False
            continue
        r = V.char_eq(x, y)
        if r is False:
            return False
        if r is not True:
            conds.append(r)
    return z_and(*conds)


class C13(C.PipelineCheck):
    id = 'C13'
    title = 'Output is a deterministic function of sources and configuration'
    required_covers = ('two-runs', 'verbose', 'visualize', 'decoy', 'duplicate', 'multi-payload', 'location', 'reorder', 'move')

    def bounds(self, tier):
        return {'project': 'two or three files with three commands, three structs, one enum, two events (one with an untyped payload binding); one symbolic struct name '
                           '(quick tier: the all-orders comparison uses three types)',
                'schedules': 'two runs of the same project, each under an independently chosen iteration order of every hash container inside analysis, struct-context creation, '
                             'topological sorting, file walking and visualisation (all permutations there; insertion/reverse elsewhere)',
                'flags': 'verbose and visualize_deps on/off',
                'transformations': '%d kinds of decoy item inserted at any position, item order reversed/rotated within files, items moved between files' % len(DECOYS)}

    def outside(self):
        return ['comments and whitespace (they do not survive syn::parse_file, which is outside the encoding)', 'more than three files', 'two symbolic names interacting']

    def assumptions(self):
        return ['the header timestamp is a fresh opaque token on both sides and compared as equal', 'the two dependency-graph files may appear only when visualisation is requested']

    def scenarios(self, tier):
        for mode in ('none', 'zod'):
            yield ('two-runs/%s' % mode, dict(kind='two-runs', mode=mode))
            yield ('flags/%s' % mode, dict(kind='flags', mode=mode))
            for d in range(len(DECOYS)):
                yield ('decoy/%s/%d' % (mode, d), dict(kind='decoy', mode=mode, d=d))
            yield ('duplicate/%s' % mode, dict(kind='duplicate', mode=mode))
            yield ('multi-payload/%s' % mode, dict(kind='multi-payload', mode=mode))
            yield ('location/%s' % mode, dict(kind='location', mode=mode))
            yield ('reorder/%s' % mode, dict(kind='reorder', mode=mode))
            yield ('move/%s' % mode, dict(kind='move', mode=mode))

    def mutant_scenarios(self, tier, name):
        for j in self.scenarios('quick'):
            if j[0] in ('two-runs/none', 'two-runs/zod'):
                yield j

    def project_files(self, variant, holes_name='HOLE_s'):
        """variant: dict(order, decoy, decoy_pos, move, small)"""
        items_main = [A_RS, CMD1, CMD3]
        g = G_RS if not variant.get('small') else '#[derive(Serialize, Deserialize, Clone)]\npub struct Gamma { pub k: i32 }\n'
        items_other = [g.replace('Gamma', holes_name), CMD2.replace('Gamma', holes_name)]
        if variant.get('move'):
            # move the second command (and one struct) to the other file / a third file
            if variant['move'] == 1:
                items_main.append(items_other.pop())
            elif variant['move'] == 2:
                items_other.append(items_main.pop(1))
            else:
                third = [items_other.pop(0)]
        if variant.get('decoy') is not None:
            tgt = items_main if variant.get('decoy_file', 0) == 0 else items_other
            tgt.insert(min(variant.get('decoy_pos', 0), len(tgt)), DECOYS[variant['decoy']])
        if variant.get('order') == 'reverse':
            items_main.reverse()
            items_other.reverse()
        elif variant.get('order') == 'rotate':
            items_main = items_main[1:] + items_main[:1]
            items_other = items_other[1:] + items_other[:1]
        files = {'src/main.rs': C.HEADER + ''.join(items_main), 'src/models/other.rs': C.HEADER + ''.join(items_other)}
        if variant.get('move') == 3:
            files['src/zz_third.rs'] = C.HEADER + ''.join(third)
        return files

    def run_scenario(self, ctx, name, p):
        I = IP.Interp(ctx.prog)
        eng = ctx.engine(max_paths=120000, max_seconds=2400)
        kind = p['kind']
        mode = p['mode']

        def generate(e, files, holes, verbose=False, viz=False, entry='lib', reference=False):
            # the reference run uses insertion order everywhere; the other run explores every order
            # inside SCOPE: "every schedule equals the reference" implies all schedules agree
            # directory listings and hash containers vary independently (a deterministic "reverse everything" would cancel
            # out where a listing feeds a hash map that is iterated again)
            e.order_dirs = 'insertion' if reference else ('insertion', 'reverse')[e.choose(2)]
            if reference:
                e.order_mode = 'insertion'
            elif kind not in ('two-runs', 'duplicate', 'multi-payload'):
                # transformations are compared under two global schedules; all orders are covered by two-runs
                e.order_mode = ('insertion', 'reverse')[e.choose(2)]
            else:
                e.order_mode = 'scoped'
                e.order_all_in = SCOPE
                e.order_fallback = ('insertion', 'reverse')[e.choose(2)]
            cfg = {'validation_library': mode, 'verbose': verbose, 'visualize_deps': viz}
            proj = PL.Project(files, holes, cfg)
            if viz:
                run = PL.run_model(I, proj, entry='cli', cli_args=dict(validation_library=V.Some(Str(mode)), verbose=verbose, visualize_deps=True, force=True))
            else:
                run = PL.run_model(I, proj)
            return proj, run

        def body(e):
            s = C.sym_type_ident('s', 3)
            for w in ('Vec', 'Box', 'Map', 'Set', 'Foo', 'Any'):
                e.assume(z_not(V.str_eq(s, Str(w))))
            holes = {'s': s}
            base_files = self.project_files({})
            if kind == 'two-runs':
                if ctx.tier != 'thorough':
                    base_files = self.project_files({'small': True})       # three types: 3! orders per container
                pa, ra = generate(e, base_files, holes, reference=True)
                pb, rb = generate(e, base_files, holes)
                e.cover('two-runs')
                relation = 'identical'
            elif kind == 'duplicate':
                # the same type name defined in two files (different fields): whichever definition wins, it wins under every schedule
                dup = {'src/commands/orders.rs': C.HEADER + '#[derive(Serialize, Deserialize)]\npub struct HOLE_s { pub status: String, pub min_total: u32 }\n' +
                       '#[tauri::command]\npub fn list_orders(filter: HOLE_s) -> u32 { 0 }\n',
                       'src/commands/users.rs': C.HEADER + '#[derive(Serialize, Deserialize)]\npub struct HOLE_s { pub name_contains: String, pub active_only: bool }\n' +
                       '#[tauri::command]\npub fn list_users(filter: HOLE_s) -> u32 { 0 }\n'}
                pa, ra = generate(e, dup, holes, reference=True)
                pb, rb = generate(e, dup, holes)
                e.cover('duplicate')
                relation = 'identical'
            elif kind == 'location':
                # the same sources under two locations and two spellings of the project path (absolute; relative from a directory whose
                # own path contains a component named target / .git): the output does not depend on where the project lives
                loc = [('/w/plain/app', '/w/plain', 'app'), ('/w/target/app', '/w/target', 'app'), ('/w/x/.git/app', '/w/x/.git', './app'), ('/w/target/app', '/', '/w/target/app')][e.choose(4)]
                pa, ra = generate(e, base_files, holes, reference=True)
                pb = PL.Project(base_files, holes, {'validation_library': mode})
                wld = pb.world(loc[0])
                wld.cwd = Str(loc[1])
                e.order_mode = 'insertion'
                rb = PL.run_model(I, pb, root=loc[2], out='/out', world=wld)
                e.cover('location')
                relation = 'identical'
                self._loc = loc
            elif kind == 'multi-payload':
                # one event name emitted with several payload types from two files: whatever the listener is typed with, it is the same under every schedule
                mp = {'src/jobs.rs': C.HEADER + '#[derive(Serialize, Deserialize, Clone)]\npub struct Progress { pub done: u32 }\n#[derive(Serialize, Deserialize, Clone)]\npub struct HOLE_s { pub total: u32 }\n' +
                      '#[tauri::command]\npub fn run(app: tauri::AppHandle) { app.emit("job-state", Progress { done: 1 }).unwrap(); app.emit("job-state", HOLE_s { total: 2 }).unwrap(); }\n',
                      'src/cancel.rs': C.HEADER + '#[derive(Serialize, Deserialize, Clone)]\npub struct Failure { pub why: String }\n' +
                      '#[tauri::command]\npub fn cancel(app: tauri::AppHandle) { app.emit("job-state", Failure { why: String::new() }).unwrap(); app.emit("other", 1).unwrap(); }\n'}
                pa, ra = generate(e, mp, holes, reference=True)
                pb, rb = generate(e, mp, holes)
                e.cover('multi-payload')
                relation = 'identical'
            elif kind == 'flags':
                which = e.choose(3)
                pa, ra = generate(e, base_files, holes, reference=True)
                pb, rb = generate(e, base_files, holes, verbose=(which in (0, 2)), viz=(which in (1, 2)))
                e.cover('verbose' if which != 1 else 'visualize')
                if which == 2:
                    e.cover('visualize')
                relation = 'identical-ts'
            elif kind == 'decoy':
                pos = e.choose(4)
                fl = e.choose(2)
                pa, ra = generate(e, base_files, holes, reference=True)
                pb, rb = generate(e, self.project_files(dict(decoy=p['d'], decoy_pos=pos, decoy_file=fl)), holes)
                e.cover('decoy')
                relation = 'identical'
            elif kind == 'reorder':
                how = ('reverse', 'rotate')[e.choose(2)]
                pa, ra = generate(e, base_files, holes, reference=True)
                pb, rb = generate(e, self.project_files(dict(order=how)), holes)
                e.cover('reorder')
                relation = 'same-set'
            else:
                mv = 1 + e.choose(3)
                pa, ra = generate(e, base_files, holes, reference=True)
                pb, rb = generate(e, self.project_files(dict(move=mv)), holes)
                e.cover('move')
                relation = 'same-set'
            if ra.result.var != 'Ok' or rb.result.var != 'Ok':
                return (pa, pb, 'error')
            base = 'C13/%s/%s' % (kind if kind != 'decoy' else 'decoy:%d' % p['d'], mode)

            def wit(m):
                wa = C.witness_of(pa, m, dict(mode=mode, relation=relation))
                wb = C.witness_of(pb, m)
                wa['files_b'] = wb['files']
                wa['config_b'] = wb['config']
                if kind == 'location':
                    wa['location'] = list(self._loc)
                return wa
            fa = {k: v for k, v in ra.outputs.items() if k.endswith('.ts')}
            fb = {k: v for k, v in rb.outputs.items() if k.endswith('.ts')}
            extra_b = sorted(k for k in rb.outputs if not k.endswith('.ts') and k not in ('.typecache',))
            if sorted(fa) != sorted(fb):
                ctx.violation(e, base + '/file-set', 'same set of generated modules', True, wit, '%s vs %s' % (sorted(fa), sorted(fb)))
                return (pa, pb, 'files')
            if kind == 'flags' and any(x not in ('dependency-graph.txt', 'dependency-graph.dot') for x in extra_b):
                ctx.violation(e, base + '/extra-files', 'visualisation only adds its own two files', True, wit, str(extra_b))
            for fname in sorted(fa):
                ta, tb = fa[fname], fb[fname]
                if relation in ('identical', 'identical-ts'):
                    ok = same_text(ta, tb)
                    ctx.violation(e, base + '/differs:' + fname, 'identical output for identical sources and configuration', z_not(ok) if not isinstance(ok, bool) else not ok, wit,
                                  lambda m, ta=ta, tb=tb: first_diff(m, ta, tb))
                else:
                    ba, bb = blocks(ta), blocks(tb)
                    if len(ba) != len(bb):
                        ctx.violation(e, base + '/set-differs:' + fname, 'reordering/moving items changes at most the order of declarations', True, wit,
                                      '%d vs %d declarations' % (len(ba), len(bb)))
                        continue
                    for x in ba:
                        found = z_or(*[same_text(x, y) for y in bb])
                        ctx.violation(e, base + '/set-differs:' + fname, 'reordering/moving items changes at most the order of declarations',
                                      z_not(found) if not isinstance(found, bool) else not found, wit,
                                      lambda m, x=x: 'declaration without counterpart: %r' % PL.concretize_str(m, Str(tuple(c for c in x.cs if not isinstance(c, Opaque))))[:160])
            return (pa, pb, 'ok')

        def end(e, outcome):
            if outcome[0] == 'panic':
                e.cover('panic-path')
                return
            if outcome[0] != 'ok':
                return
            pa, pb, st = outcome[1]
            m = e.get_model()
            ctx.sample(dict(scenario=name, holes={k: PL.concretize_str(m, v) for k, v in pa.holes.items()}, status=st, decisions=len(e.trace)), 2)

        eng.explore(body, end)
        ctx.finish_engine(eng)

    def replay(self, f):
        w = f['witness']
        kind = f['key'].rsplit('/', 1)[1]
        rel = w.get('relation', 'identical')
        import re
        for attempt in range(12):
            rc, oa, err, _ = PL.run_native(w['files'], w['config'])
            if 'location' in w:
                ob = self.native_at(w['files_b'], w['config_b'], w['location'])
            else:
                rc2, ob, err2, _ = PL.run_native(w['files_b'], w['config_b'])
            ta = {k: v for k, v in oa.items() if k.endswith('.ts')}
            tb = {k: v for k, v in ob.items() if k.endswith('.ts')}
            if kind == 'file-set':
                if sorted(ta) != sorted(tb):
                    return True
                continue
            if kind == 'extra-files':
                if any(k not in ('dependency-graph.txt', 'dependency-graph.dot', '.typecache') for k in ob if not k.endswith('.ts')):
                    return True
                continue
            what, _, fname = kind.partition(':')
            a, b = ta.get(fname), tb.get(fname)
            if a is None or b is None:
                continue
            if what == 'differs' and a != b:
                return True
            if what == 'set-differs' and sorted(x for x in a.split('\n\n') if x.strip()) != sorted(x for x in b.split('\n\n') if x.strip()):
                return True
        return False

    @staticmethod
    def native_at(files, config, loc):
        """generate natively with the project at <tmp><loc[0]>, the current directory <tmp><loc[1]> and the project path spelled loc[2]"""
        import os, shutil, subprocess, tempfile
        d = tempfile.mkdtemp(prefix='c13loc', dir=os.path.join(H.CACHE, 'tmp') if os.path.isdir(os.path.join(H.CACHE, 'tmp')) else None)
        try:
            for rel, src in files.items():
                pth = os.path.join(d, loc[0].lstrip('/'), rel)
                os.makedirs(os.path.dirname(pth), exist_ok=True)
                open(pth, 'w', encoding='utf-8').write(src)
            cwd = os.path.join(d, loc[1].lstrip('/')) if loc[1] != '/' else d
            os.makedirs(cwd, exist_ok=True)
            proj = loc[2] if not loc[2].startswith('/') else os.path.join(d, loc[2].lstrip('/'))
            out = os.path.join(d, 'out')
            subprocess.run([PL.CLI, 'tauri-typegen', 'generate', '-p', proj, '-o', out, '--validation', config.get('validation_library', 'none'), '--force'],
                           cwd=cwd, stdout=subprocess.PIPE, stderr=subprocess.PIPE)
            res = {}
            if os.path.isdir(out):
                for fn in os.listdir(out):
                    if fn.endswith('.ts'):
                        res[fn] = PL.TS_LINE.sub('Generated at: <ts>', open(os.path.join(out, fn), encoding='utf-8').read())
            return res
        finally:
            shutil.rmtree(d, ignore_errors=True)

    def mutants(self):
        def unsorted_files(prog):
            fd = M.find_fn(prog, 'CommandAnalyzer::analyze_project_with_verbose')
            return fd is not None and M.drop_method_call_stmt(fd, 'sort')

        def unsorted_structs(prog):
            fd = M.find_fn(prog, 'TypeCollector::create_struct_contexts')
            return fd is not None and M.drop_method_call_stmt(fd, 'sort')

        def unsorted_topo(prog):
            fd = M.find_fn(prog, 'TypeDependencyGraph::topological_sort_types')
            return fd is not None and M.drop_method_call_stmt(fd, 'sort')
        return [('files-not-sorted', unsorted_files), ('struct-contexts-not-sorted', unsorted_structs), ('topological-roots-not-sorted', unsorted_topo)]

    quick_mutants = 2


def first_diff(m, a, b):
    ta = PL.concretize_str(m, Str(tuple(c for c in a.cs if not isinstance(c, Opaque))))
    tb = PL.concretize_str(m, Str(tuple(c for c in b.cs if not isinstance(c, Opaque))))
    for i, (x, y) in enumerate(zip(ta, tb)):
        if x != y:
            return 'first difference at %d: %r vs %r' % (i, ta[max(0, i - 30):i + 30], tb[max(0, i - 30):i + 30])
    return 'lengths %d vs %d' % (len(ta), len(tb))


if __name__ == '__main__':
    sys.exit(H.main(C13()))
