"""C15 -- no input makes analysis or generation panic; bad files are isolated (DESIGN 4/C15)."""
import sys

from rsx import harness as H, values as V, interp as IP, sym, pipeline as PL, mutate as M
from rsx.values import Str, Struct, HSet, deref
from rsx.engine import Inconclusive, PathAbort, RustPanic, z_and, z_or, z_not
from rsx.readers import ts as TS
from harness import common as C

CMD = '#[tauri::command]\npub fn '

# string kernels called directly with symbolic text: (label, path, builder of (self value, args))
KERNELS = [
    ('parse_type_structure', 'TypeResolver::parse_type_structure', 'resolver'),
    ('extract_type_names', 'CommandAnalyzer::extract_type_names', 'analyzer'),
    ('add_types_prefix', 'add_types_prefix', None),
    ('to_ts_identifier', 'to_ts_identifier', None),
    ('ts_property_key', 'ts_property_key', None),
    ('split_top_level_commas', 'split_top_level_commas', None),
    ('serde parse_meta_items', 'parse_meta_items', None),
    ('validator split_top_level', 'split_top_level', None),
    ('validator named_arguments', 'named_arguments', None),
    ('parse_message_from_content', 'ValidatorParser::parse_message_from_content', 'validator'),
    ('parse_length_from_tokens', 'ValidatorParser::parse_length_from_tokens', 'validator'),
    ('parse_range_from_tokens', 'ValidatorParser::parse_range_from_tokens', 'validator'),
    ('escape_js_string', 'escape_js_string', None),
    ('event_name_to_function', 'NamingContext::event_name_to_function', 'context'),
    ('compute_parameter_name', None, 'naming'),
]
BROKEN = ['fn broken( {', 'this is not rust at all', 'fn ok() {}\nfn f() {\n    let s = "日本語" + ;\n}\n', 'struct X { a: }\n// ünïcödé\n', '#[derive(]\nstruct Y;\n', '"unterminated',
          'fn é() { let 日 = ; }\n']


class C15(C.PipelineCheck):
    id = 'C15'
    title = 'No input makes analysis or generation panic; bad files are isolated'
    required_covers = ('kernel:ascii', 'kernel:utf8', 'attribute', 'identifier', 'unparsable', 'isolated', 'calls', 'attr-ident', 'type-in')

    def bounds(self, tier):
        q = tier != 'thorough'
        return {'kernels': '%d string kernels (type-string parser, name harvesting, namespace prefixing, identifier/key helpers, serde and validator attribute scanners, '
                           'escaping, naming) on fully symbolic printable-ASCII strings of length 0..%s and on UTF-8-mode strings of length 0..%d' % (len(KERNELS), '5 (type-string kernels) / 3 (others)' if q else '7', 2 if q else 4),
                'attributes': 'serde / validate attributes through the whole pipeline with a symbolic literal of <=3 UTF-8-mode characters (quotes, backslashes, parentheses, '
                              'multi-byte characters at every offset) in rename, alias, message positions, both modes',
                'identifiers': 'command, parameter, field, variant, struct and event names of 1..2 characters in UTF-8 mode (underscore-only, non-ASCII letters)',
                'unparsable files': '%d kinds of unparsable text (ASCII and multi-byte) next to good files, the reported error position being any line/column of the text; '
                                    'the output must equal that of the project without the bad files' % len(BROKEN)}

    def outside(self):
        return ['panics inside syn, tera, walkdir, serde_json themselves', 'stack exhaustion on deeply nested input', 'corpus-scale inputs (every .rs file of the dependency sources)',
                'strings longer than the bounds']

    def assumptions(self):
        return ['a panic is: slice/index out of range or off a char boundary, unwrap/expect on None/Err, integer underflow in index arithmetic (debug profile), explicit panic!/unreachable!',
                'the error returned by syn::parse_file carries an arbitrary position of the rejected text']

    def scenarios(self, tier):
        q = tier != 'thorough'
        for i, k in enumerate(KERNELS):
            amax = (5 if k[0] in ('parse_type_structure', 'extract_type_names', 'add_types_prefix') else 3) if q else 7
            for n in range(0, amax + 1):
                yield ('kernel/%s/ascii%d' % (k[0], n), dict(kind='kernel', k=i, n=n, utf8=False))
            for n in range(1, (2 if q else 4) + 1):
                yield ('kernel/%s/utf8-%d' % (k[0], n), dict(kind='kernel', k=i, n=n, utf8=True))
        # type strings: a known constructor around a short symbolic inner text (brackets, commas, spaces): `Result<(,)>`, `HashMap< ,>` ...
        for wrap in ('Result<%s>', 'HashMap<%s>', 'BTreeMap<%s>', 'Vec<%s>', 'Option<%s>', 'HashSet<%s>', '(%s)', 'Result<%s, String>', 'HashMap<String, %s>', 'Channel<%s>', '&%s', 'Box<%s>'):
            for n in ((0, 1, 2, 3) if q else (0, 1, 2, 3, 4, 5)):
                yield ('type-in/%s/%d' % (wrap.replace('%s', '_'), n), dict(kind='type-in', wrap=wrap, n=n))
        for pos in ('rename', 'alias', 'rename_all', 'message', 'length-arg', 'event', 'derive-arg'):
            for n in range(0, 3 if q else 4):
                yield ('attr/%s/%d' % (pos, n), dict(kind='attr', pos=pos, n=n))
        # attribute values that are identifiers / raw identifiers / paths instead of literals (a const holding the message)
        for form in ('message = HOLE_i', 'message = r#HOLE_i', 'min = HOLE_i', 'message = r#HOLE_i, min = 1', 'code = r#HOLE_i'):
            for n in (1, 2, 3):
                yield ('attr-ident/%s/%d' % (form.replace('HOLE_', '').replace(' ', ''), n), dict(kind='attr-ident', form=form, n=n))
        for what in ('command', 'param', 'field', 'variant', 'struct'):
            for n in (1, 2):
                yield ('ident/%s/%d' % (what, n), dict(kind='ident', what=what, n=n))
        for b in range(len(BROKEN)):
            yield ('unparsable/%d' % b, dict(kind='unparsable', b=b))
        # calls that merely look like Tauri's emit API, with any number of arguments (a home-grown bus, a different trait)
        for meth in ('emit', 'emit_to', 'emit_filter', 'emit_str'):
            yield ('calls/%s' % meth, dict(kind='calls', meth=meth))

    def mutant_scenarios(self, tier, name):
        for j in self.scenarios('quick'):
            if j[0] in ('kernel/parse_type_structure/ascii5', 'kernel/compute_parameter_name/ascii1', 'kernel/compute_parameter_name/utf8-1', 'ident/param/1'):
                yield j

    def run_scenario(self, ctx, name, p):
        I = IP.Interp(ctx.prog)
        eng = ctx.engine(max_paths=120000, max_seconds=1500)
        eng.order_mode = 'insertion'
        kind = p['kind']

        def body(e):
            if kind == 'type-in':
                inner = sym.sym_str('s', p['n'], '<>(),[]&; :ABab1_')
                w = p['wrap'].split('%s')
                s = Str(w[0]).concat(inner).concat(Str(w[1]))
                e.cover('type-in')
                e.last = ('kernel', 'type:' + p['wrap'], s)
                r = I.call_path('TypeResolver::new', [])
                ts = I.call_path('TypeResolver::parse_type_structure', [s], r)
                a = I.call_path('CommandAnalyzer::new', [])
                I.call_path('CommandAnalyzer::extract_type_names', [s, HSet([])], a)
                return ts
            if kind == 'kernel':
                label, path, recv = KERNELS[p['k']]
                s = sym.sym_str_utf8('s', p['n']) if p['utf8'] else sym.sym_str('s', p['n'], 'printable')
                e.cover('kernel:utf8' if p['utf8'] else 'kernel:ascii')
                e.last = ('kernel', label, s)
                if recv == 'resolver':
                    r = I.call_path('TypeResolver::new', [])
                    return I.call_path(path, [s], r)
                if recv == 'analyzer':
                    a = I.call_path('CommandAnalyzer::new', [])
                    return I.call_path(path, [s, HSet([])], a)
                if recv == 'validator':
                    v = I.call_path('ValidatorParser::new', [])
                    return I.call_path(path, [s], v)
                if recv == 'context':
                    cfg = I.call_path('GenerateConfig::default', [])
                    c = I.call_path('EventContext::new', [cfg])
                    return I.call_path(path, [s], c)
                if recv == 'naming':
                    cfg = I.call_path('GenerateConfig::default', [])
                    c = I.call_path('CommandContext::new', [cfg])
                    I.call_path('NamingContext::compute_parameter_name', [s, V.mk_none(), V.mk_none()], c)
                    I.call_path('NamingContext::compute_function_name', [s, V.mk_none()], c)
                    I.call_path('NamingContext::compute_type_name', [s, V.mk_none()], c)
                    return I.call_path('NamingContext::compute_field_name', [s, V.mk_none(), V.mk_none()], c)
                return I.call_path(path, [s])
            mode = ('none', 'zod')[e.choose(2)]
            holes = {}
            files = {}
            unparsable = ()
            if kind == 'attr':
                lit = sym.sym_str_utf8('l', p['n'])
                holes['l'] = lit
                pos = p['pos']
                head = C.HEADER
                if pos == 'rename':
                    src = '#[derive(Serialize, Deserialize)]\npub struct Foo { #[serde(rename = "HOLE_l")] pub a: String }\n'
                elif pos == 'alias':
                    src = '#[derive(Serialize, Deserialize)]\npub struct Foo { #[serde(alias = "HOLE_l", default)] pub a: String }\n'
                elif pos == 'rename_all':
                    src = '#[derive(Serialize, Deserialize)]\n#[serde(rename_all = "HOLE_l")]\npub struct Foo { pub a_b: String }\n'
                elif pos == 'message':
                    src = '#[derive(Serialize, Deserialize)]\npub struct Foo { #[validate(length(min = 1, message = "HOLE_l"), email)] pub a: String }\n'
                elif pos == 'length-arg':
                    src = '#[derive(Serialize, Deserialize)]\npub struct Foo { #[validate(length(equal = "HOLE_l", max = 3))] pub a: String }\n'
                elif pos == 'derive-arg':
                    src = '#[derive(Serialize, Deserialize)]\n#[doc = "HOLE_l"]\npub struct Foo { #[doc = "HOLE_l"] pub a: String }\n'
                else:
                    src = 'pub fn fire(app: tauri::AppHandle) { app.emit("HOLE_l", "HOLE_l").unwrap(); }\n#[derive(Serialize, Deserialize)]\npub struct Foo { pub a: String }\n'
                files['src/main.rs'] = head + src + CMD + 'cmd(x: Foo) -> i32 { 0 }\n'
                e.cover('attribute')
            elif kind == 'attr-ident':
                nm = sym.sym_str('i', p['n'], 'abcdefghijklmnopqrstuvwxyz')
                for w in ('self', 'crate', 'super'):
                    if len(w) == p['n']:
                        e.assume(z_not(V.str_eq(nm, Str(w))))
                if 'r#' not in p['form']:
                    e.assume(PL.not_rust_keyword(nm))
                holes['i'] = nm
                vk = ('range', 'length')[e.choose(2)]
                files['src/main.rs'] = (C.HEADER + '#[derive(Serialize, Deserialize)]\npub struct Foo { #[validate(%s(%s))] pub a: u32, #[serde(rename = "x")] pub b: String }\n' % (vk, p['form']) +
                                        CMD + 'cmd(x: Foo) -> i32 { 0 }\n')
                e.cover('attr-ident')
            elif kind == 'calls':
                nargs = e.choose(5)
                recv = ('app', 'window', 'self.app', 'bus.sender()', 'app.clone()')[e.choose(5)]
                lit = sym.sym_str_utf8('l', 1)
                holes['l'] = lit
                args = ['"HOLE_l"', 'payload', '"x"', '42'][:nargs]
                src = ('pub fn fire(app: tauri::AppHandle, window: tauri::Window, bus: Bus, payload: Foo) {\n    %s.%s(%s);\n}\n'
                       '#[derive(Serialize, Deserialize)]\npub struct Foo { pub a: String }\n' % (recv, p['meth'], ', '.join(args)))
                files['src/main.rs'] = C.HEADER + src + CMD + 'cmd(x: Foo) -> i32 { 0 }\n'
                e.cover('calls')
            elif kind == 'ident':
                # identifiers in UTF-8 mode: letters of the representative set or ASCII letters/underscore
                cs = []
                for i in range(p['n']):
                    c = sym.sym_char_utf8('i_%d' % i)
                    ok = z_or(V.char_class(c, 'alpha'), V.char_eq(c, 95), (z_and(c >= 48, c <= 57) if (V.cwidth(c) == 1 and i > 0) else False))
                    e.assume(ok)
                    cs.append(c)
                nm = Str(tuple(cs))
                e.assume(PL.not_rust_keyword(nm))
                holes['i'] = nm
                w = p['what']
                if w == 'command':
                    src = CMD + 'HOLE_i(x: i32) -> i32 { 0 }\n'
                elif w == 'param':
                    src = CMD + 'cmd(HOLE_i: i32) -> i32 { 0 }\n'
                elif w == 'field':
                    src = '#[derive(Serialize, Deserialize)]\n#[serde(rename_all = "camelCase")]\npub struct Foo { pub HOLE_i: i32 }\n' + CMD + 'cmd(x: Foo) -> i32 { 0 }\n'
                elif w == 'variant':
                    src = '#[derive(Serialize, Deserialize)]\n#[serde(rename_all = "camelCase")]\npub enum Foo { HOLE_i, B }\n' + CMD + 'cmd(x: Foo) -> i32 { 0 }\n'
                else:
                    src = '#[derive(Serialize, Deserialize)]\npub struct HOLE_i { pub a: i32 }\n' + CMD + 'cmd(x: HOLE_i) -> i32 { 0 }\n'
                files['src/main.rs'] = C.HEADER + src
                e.cover('identifier')
            else:
                files['src/main.rs'] = C.HEADER + '#[derive(Serialize, Deserialize)]\npub struct Foo { pub a: i32 }\n' + CMD + 'cmd(x: Foo) -> i32 { 0 }\n'
                files['src/good.rs'] = CMD + 'other() -> String { todo!() }\n'
                files['src/bad.rs'] = BROKEN[p['b']]
                unparsable = ('src/bad.rs',)
                e.cover('unparsable')
            proj = PL.Project(files, holes, {'validation_library': mode}, unparsable=unparsable)
            e.last = ('project', proj, mode)
            run = PL.run_model(I, proj)
            if kind == 'unparsable' and run.result.var == 'Ok':
                # isolation: same output as the project without the bad file
                good = {k: v for k, v in files.items() if k != 'src/bad.rs'}
                e.order_mode = 'insertion'
                run2 = PL.run_model(I, PL.Project(good, {}, {'validation_library': mode}))
                from harness.C13 import same_text
                e.cover('isolated')
                for fname in sorted(set(run.outputs) | set(run2.outputs)):
                    a, b = run.outputs.get(fname), run2.outputs.get(fname)
                    if a is None or b is None or same_text(a, b) is not True:
                        ctx.violation(e, 'C15/unparsable:%d/%s/not-isolated' % (p['b'], mode), 'files that do not parse are skipped without changing the rest', True,
                                      lambda m: C.witness_of(proj, m, dict(mode=mode, kind='not-isolated')), 'file %s differs' % fname)
            return run.result.var

        def end(e, outcome):
            last = getattr(e, 'last', None)
            if outcome[0] == 'panic':
                pn = outcome[1]
                if last is None:
                    return
                if last[0] == 'kernel':
                    label, s = last[1], last[2]
                    ctx.violation(e, 'C15/kernel:%s/panic' % label, 'no panic on any input', True,
                                  lambda m: dict(kernel=label, input=PL.concretize_str(m, s), panic=pn.msg), lambda m: '%s(%r): %s' % (label, PL.concretize_str(m, s), pn.msg))
                else:
                    proj, mode = last[1], last[2]
                    tag = kind if kind != 'attr' else 'attr:' + p['pos']
                    if kind == 'ident':
                        tag = 'ident:' + p['what']
                    if kind == 'unparsable':
                        tag = 'unparsable:%d' % p['b']
                    if kind == 'calls':
                        tag = 'calls:' + p['meth']
                    if kind == 'attr-ident':
                        tag = 'attr-ident'
                    ctx.violation(e, 'C15/%s/%s/panic' % (tag, mode), 'no panic on any input', True,
                                  lambda m: C.witness_of(proj, m, dict(mode=mode, kind='panic', panic=pn.msg)), pn.msg)
                return
            if outcome[0] == 'ok' and last is not None:
                m = e.get_model()
                if last[0] == 'kernel':
                    ctx.sample(dict(kernel=last[1], input=PL.concretize_str(m, last[2])), 3)
                else:
                    ctx.sample(dict(scenario=name, holes={k: PL.concretize_str(m, v) for k, v in last[1].holes.items()}), 2)

        eng.explore(body, end)
        ctx.finish_engine(eng)

    def replay(self, f):
        w = f['witness']
        if 'kernel' in w:
            nat = H.Native.get()
            if w['kernel'].startswith('type:'):
                return any('panic' in nat.call('kernel', name=k, arg=w['input']) for k in ('parse_type_structure', 'extract_type_names'))
            r = nat.call('kernel', name=w['kernel'], arg=w['input'])
            return 'panic' in r
        rc, outs, err, _ = PL.run_native(w['files'], w['config'])
        if w.get('kind') == 'panic':
            return 'panicked' in err or rc == 101
        if w.get('kind') == 'not-isolated':
            good = {k: v for k, v in w['files'].items() if k != 'src/bad.rs'}
            rc2, outs2, err2, _ = PL.run_native(good, w['config'])
            return {k: v for k, v in outs.items() if k.endswith('.ts')} != {k: v for k, v in outs2.items() if k.endswith('.ts')} or rc != rc2
        return False

    def mutants(self):
        def fixed_offset(prog):
            fd = M.find_fn(prog, 'TypeResolver::extract_vec_inner_type')
            return fd is not None and M.replace_int_lit(fd, 4, 5)

        def char_index(prog):
            fd = M.find_fn(prog, 'to_ts_identifier')
            return fd is not None and M.drop_method_call_stmt(fd, 'insert') and False

        def unwrap_first(prog):
            fd = M.find_fn(prog, 'NamingContext::apply_naming_convention')
            if fd is None:
                return False
            st = fd.body['stmts']
            if len(st) >= 2:
                del st[0]
                return True
            return False
        return [('vec-prefix-offset-off-by-one', fixed_offset), ('camelCase-guard-removed', unwrap_first)]

    quick_mutants = 2


if __name__ == '__main__':
    sys.exit(H.main(C15()))
