"""C10 -- Zod schemas describe the same structure as the plain TypeScript declarations (DESIGN 4/C10)."""
import sys

from rsx import harness as H, values as V, interp as IP, sym, pipeline as PL, mutate as M
from rsx.values import Str, deref
from rsx.engine import Inconclusive, PathAbort, z_and, z_or, z_not
from rsx.readers import ts as TS
from harness import common as C
from harness import shapes as S
from harness.C05 import CTX, QUICK_CTX, skeleton, erase

CMD = '#[tauri::command]\npub fn '


def strip_omittable(s):
    """(shape without null/undefined alternatives, omittable?)"""
    if s[0] == 'union':
        alts = [a for a in s[1] if a[0] not in ('null', 'undef')]
        om = len(alts) != len(s[1])
        inner = [strip_omittable(a) for a in alts]
        om = om or any(i[1] for i in inner)
        alts = [i[0] for i in inner]
        if len(alts) == 1:
            return alts[0], om
        return ('union', alts), om
    return s, False


def deep_norm(s):
    """normalise nested omittable markers: inside containers null/undefined alternatives are kept as 'null'"""
    k = s[0]
    if k == 'union':
        alts = []
        for a in s[1]:
            a = deep_norm(a)
            if a[0] == 'undef':
                a = ('null',)
            alts.append(a)
        return S.norm(('union', alts))
    if k in ('arr', 'set'):
        return (k, deep_norm(s[1]))
    if k == 'rec':
        return ('rec', deep_norm(s[1]), deep_norm(s[2]))
    if k == 'tup':
        return ('tup', [deep_norm(x) for x in s[1]])
    return s


def shape_eq(a, b):
    if a[0] == 'enum' and b[0] == 'enum':
        if len(a[1]) != len(b[1]):
            return False
        return z_and(*[V.str_eq(x, y) for x, y in zip(a[1], b[1])])
    return S.shape_eq(a, b)


class C10(C.PipelineCheck):
    id = 'C10'
    title = 'Zod schemas describe the same structure as the plain TypeScript declarations'
    required_covers = ('field', 'param', 'enum', 'names', 'serializable', 'mapped', 'empty-struct')

    def bounds(self, tier):
        q = tier != 'thorough'
        return {'types': 'a field and a parameter of every constructor-context chain of depth <=%d from {%s} around a symbolic leaf type name (3, 4 or 6 characters)' % (
            1 if q else 2, ', '.join(QUICK_CTX)),
                'items': 'one struct (the field, an Option field, a plain field), one unit enum with a symbolic variant name, one command with the parameter, an optional parameter and a channel',
                'comparison': 'each project is generated in both modes on the same path; type and Params names, keys, per-key shape (Option = omittable), enum literals'}

    def outside(self):
        return ['validator refinements (C11)', 'z.coerce accepting more than the declaration', 'nesting depth > 2', 'several structs referring to each other (C07/C09)']

    def assumptions(self):
        return ['structural equivalence: arrays for sequences and sets, records for maps, tuples, literal unions for enums, XSchema <-> X, `.optional()`/`.nullable()` <-> `?`/`| null`; '
                'a schema whose parsed value is not JSON-serialisable (z.set, z.map) or that accepts an alternative the declaration lacks is a violation']

    def scenarios(self, tier):
        q = tier != 'thorough'
        chains = [()] + [(a,) for a in QUICK_CTX]
        if not q:
            chains += [(a, b) for a in QUICK_CTX for b in QUICK_CTX]
        for i in range(0, len(chains), 2 if q else 6):
            yield ('types/%d' % (i // (2 if q else 6)), dict(kind='types', chains=chains[i:i + (2 if q else 6)]))
        for n in (1, 2, 4):
            yield ('enum/%d' % n, dict(kind='enum', n=n))
        yield ('empty', dict(kind='empty'))
        # a foreign type covered by a type mapping: both modes must describe the mapping's target at fields and parameters alike
        # (Result<..> and set chains are left to the `types` scenarios: they fail for the two recorded reasons regardless of the mapping)
        mchains = [(), ('vec',), ('opt',), ('hmap-v',)] + ([] if q else [('tup2-1',), ('vec', 'opt'), ('opt', 'vec')])
        for i in range(0, len(mchains), 2):
            yield ('mapped/%d' % (i // 2), dict(kind='types', chains=mchains[i:i + 2], mapped=True))

    def mutant_scenarios(self, tier, name):
        for j in list(self.scenarios('quick'))[:3] + [('enum/2', dict(kind='enum', n=2))]:
            yield j

    # -- reading both outputs -----------------------------------------------------------------------
    @staticmethod
    def read_none(outputs):
        mod = TS.parse_module(outputs['types.ts'], 'types.ts')
        items = {}
        for it in mod.items:
            if it.kind == 'Interface':
                items[it.name.py()] = ('object', [(m.key.text, m.optional, m.type) for m in it.members if m.kind == 'Prop'])
            elif it.kind == 'TypeAlias':
                t = it.type
                alts = t.alts if t.kind == 'Union' else [t]
                if all(a.kind == 'LitType' for a in alts):
                    items[it.name.py()] = ('enum', [a.value for a in alts])
                else:
                    items[it.name.py()] = ('alias', t)
        return items

    @staticmethod
    def read_zod(outputs):
        mod = TS.parse_module(outputs['types.ts'], 'types.ts')
        items = {}
        consts = {}
        for it in mod.items:
            if it.kind == 'Const':
                consts[it.name.py()] = it.init
        for it in mod.items:
            if it.kind == 'TypeAlias' and it.type.kind == 'Ref' and [p.py() for p in it.type.parts] == ['z', 'infer'] and it.type.args and it.type.args[0].kind == 'TypeOf':
                sch = it.type.args[0].parts[0].py()
                init = consts.get(sch)
                if init is None:
                    raise TS.Reject('alias %s infers from undeclared %s' % (it.name.py(), sch), 0, '', 'type')
                root, chain = S.member_chain(init)
                if root.kind == 'Id' and root.name.py() == 'z' and chain and chain[0][0].py() == 'object':
                    members = []
                    for p in chain[0][1][0].props:
                        info = {}
                        sh = S.zod_shape(p.value, info)
                        members.append((p.key.text, sh, info))
                    items[it.name.py()] = ('object', members)
                elif root.kind == 'Id' and root.name.py() == 'z' and chain and chain[0][0].py() == 'enum':
                    items[it.name.py()] = ('enum', [x.value for x in chain[0][1][0].elems])
                else:
                    items[it.name.py()] = ('alias', init)
            elif it.kind == 'Interface':
                ext = None
                if it.extends:
                    x = it.extends[0]
                    if x.kind == 'Ref' and [p.py() for p in x.parts] == ['z', 'infer'] and x.args and x.args[0].kind == 'TypeOf':
                        ext = x.args[0].parts[0].py()
                members = []
                if ext is not None:
                    root, chain = S.member_chain(consts[ext])
                    for p in chain[0][1][0].props:
                        info = {}
                        sh = S.zod_shape(p.value, info)
                        members.append((p.key.text, sh, info))
                for m in it.members:
                    if m.kind == 'Prop':
                        members.append((m.key.text, ('ts', m.type), {'optional': 1 if m.optional else 0}))
                items[it.name.py()] = ('object', members)
        return items

    def run_scenario(self, ctx, name, p):
        I = IP.Interp(ctx.prog)
        eng = ctx.engine(max_paths=80000, max_seconds=1500)
        eng.order_mode = 'insertion'
        kind = p['kind']

        def body(e):
            holes = {}
            tag = kind
            if kind == 'types':
                chain = p['chains'][e.choose(len(p['chains']))]
                n = (3, 4, 6)[e.choose(3)]
                cs = [sym.sym_char('t_0', C.UPPER + C.IDENT_LOWER)] + [sym.sym_char('t_%d' % i, C.UPPER + C.IDENT_LOWER + '0123456789') for i in range(1, n)]
                t = Str(tuple(cs))
                holes['t'] = t
                e.assume(PL.not_rust_keyword(t))
                prims = [w for w in S.NUMERIC + S.STRINGS + ['bool'] if len(w) == n]
                e.assume(z_or(z_and(cs[0] >= 65, cs[0] <= 90), *[V.str_eq(t, Str(w)) for w in prims]))
                for w in ('Vec', 'Option', 'Result', 'HashMap', 'HashSet', 'Box', 'Self', 'Array', 'Record', 'Map', 'Set', 'Date', 'Object', 'Bar', 'Kind', 'Channel',
                          'Window', 'State'):
                    if len(w) == n:
                        e.assume(z_not(V.str_eq(t, Str(w))))
                ty = S.rust_text(skeleton(chain, ('leaf', 't')))
                if p.get('mapped'):
                    # the leaf is not a project type: the configuration maps it to a primitive
                    e.assume(z_and(cs[0] >= 65, cs[0] <= 90))
                    mapped_to = ('string', 'number')[e.choose(2)]
                    e.cover('mapped')
                if chain and chain[0] == 'ref':
                    ty_param = ty
                else:
                    ty_param = ty
                src = (C.HEADER + '#[derive(Serialize, Deserialize)]\npub struct Bar {\n    pub f: %s,\n    pub o: Option<%s>,\n    pub p: i32,\n}\n' % (ty, ty) +
                       '#[derive(Serialize, Deserialize)]\npub enum Kind { One, Two }\n' +
                       CMD + 'cmd(a: %s, b: Option<String>, k: Kind, bar: Bar, ch: tauri::ipc::Channel<i32>) -> i32 { 0 }\n' % ty_param + CMD + 'solo(ch: tauri::ipc::Channel<Bar>) {}\n' +
                       CMD + 'plain() {}\n')
                # role of the chain: a set or a Result constructor anywhere in it decides the outcome (the two recorded
                # defect classes); deeper chains share the key of the depth-1 chain that fails for the same reason
                role = next(((c,) for c in chain if c in ('hset', 'bset', 'result', 'result1')), chain)
                tag = '%s:%s' % ('mapped' if p.get('mapped') else 'types', erase(skeleton(role, ('leaf', 't'))))
            elif kind == 'empty':
                # structs without any serialised field: unit struct, empty braces, every field skipped
                form = e.choose(3)
                decl = ['pub struct Ping;', 'pub struct Ping {}', 'pub struct Ping { #[serde(skip)] pub a: i32, #[serde(skip)] pub b: String }'][form]
                src = (C.HEADER + '#[derive(Serialize, Deserialize)]\n' + decl + '\n#[derive(Serialize, Deserialize)]\npub struct Probe { pub id: u32, pub ping: Ping, pub maybe: Option<Ping> }\n' +
                       CMD + 'cmd(probe: Probe, ping: Ping) -> i32 { 0 }\n')
                tag = 'empty:%d' % form
                e.cover('empty-struct')
            else:
                v = C.sym_type_ident('v', p['n'])
                holes['v'] = v
                e.assume(z_not(V.str_eq(v, Str('Two'))))
                src = (C.HEADER + '#[derive(Serialize, Deserialize)]\n#[serde(rename_all = "%s")]\npub enum Kind { HOLE_v, Two }\n' % ('kebab-case', 'snake_case', 'UPPERCASE')[e.choose(3)] +
                       CMD + 'cmd(k: Kind) -> Kind { todo!() }\n')
                e.cover('enum')
            outs = {}
            for mode in ('none', 'zod'):
                cfg = {'validation_library': mode}
                if p.get('mapped'):
                    cfg['type_mappings'] = {holes['t']: mapped_to}
                proj = PL.Project({'src/main.rs': src}, holes, cfg)
                run = PL.run_model(I, proj)
                if run.result.var != 'Ok':
                    return (proj, 'error')
                outs[mode] = run.outputs
            base = 'C10/%s' % tag
            wit = lambda m, proj=proj: C.witness_of(proj, m, dict(mode='both'))
            try:
                tn = self.read_none(outs['none'])
                tz = self.read_zod(outs['zod'])
            except TS.Reject as r:
                ctx.violation(e, base + '/unreadable', 'both outputs can be read back', True, wit, r.what)
                return (proj, 'unreadable')
            e.cover('names')
            if sorted(tn) != sorted(tz):
                ctx.violation(e, base + '/names', 'same set of type and parameter-object names in both modes', True, wit, 'none %s zod %s' % (sorted(tn), sorted(tz)))
            for nm in sorted(set(tn) & set(tz)):
                a, b = tn[nm], tz[nm]
                if a[0] != b[0]:
                    ctx.violation(e, base + '/kind:%s' % nm, 'same kind of declaration in both modes', True, wit, '%s vs %s' % (a[0], b[0]))
                    continue
                if a[0] == 'enum':
                    ok = shape_eq(('enum', a[1]), ('enum', b[1]))
                    ctx.violation(e, base + '/enum-literals', 'same literals in both modes', z_not(ok) if not isinstance(ok, bool) else not ok, wit,
                                  lambda m: 'none %s zod %s' % ([PL.concretize_str(m, x) for x in a[1]], [PL.concretize_str(m, x) for x in b[1]]))
                    continue
                if a[0] != 'object':
                    continue
                if len(a[1]) != len(b[1]) or not e.decide(z_and(*[V.str_eq(x[0], y[0]) for x, y in zip(a[1], b[1])])):
                    ctx.violation(e, base + '/keys:%s' % nm, 'same keys in both modes', True, wit,
                                  lambda m: 'none %s zod %s' % ([PL.concretize_str(m, x[0]) for x in a[1]], [PL.concretize_str(m, y[0]) for y in b[1]]))
                    continue
                site = 'param' if nm.endswith('Params') else 'field'
                e.cover(site)
                for (k1, opt1, t1), (k2, sh2, info2) in zip(a[1], b[1]):
                    s1 = S.norm(S.ts_shape(t1))
                    s1b, om1 = strip_omittable(s1)
                    om1 = om1 or opt1
                    if sh2[0] == 'ts':
                        s2 = S.norm(S.ts_shape(sh2[1]))
                        s2b, om2 = strip_omittable(s2)
                        om2 = om2 or bool(info2.get('optional'))
                    else:
                        s2 = S.norm(sh2)
                        s2b, om2 = strip_omittable(s2)
                    key = PL.concretize_str(None, k1) if k1.is_concrete() else 'sym'
                    okb = S.shape_eq(deep_norm(s1b), deep_norm(s2b))
                    ctx.violation(e, base + '/shape:%s.%s' % (nm, key), 'same shape per key in both modes', z_not(okb) if not isinstance(okb, bool) else not okb, wit,
                                  lambda m, s1b=s1b, s2b=s2b: 'none %s zod %s' % (S.show(s1b, m), S.show(s2b, m)))
                    if om1 != om2:
                        ctx.violation(e, base + '/omittable:%s.%s' % (nm, key), 'Option is omittable in both modes and nothing else is', True, wit,
                                      'none omittable=%s zod omittable=%s' % (om1, om2))
                    e.cover('serializable')
            return (proj, 'ok')

        def end(e, outcome):
            if outcome[0] == 'panic':
                e.cover('panic-path')
                return
            if outcome[0] != 'ok':
                return
            proj, st = outcome[1]
            m = e.get_model()
            ctx.sample(dict(scenario=name, holes={k: PL.concretize_str(m, v) for k, v in proj.holes.items()}, status=st), 2)

        eng.explore(body, end)
        ctx.finish_engine(eng)

    def replay(self, f):
        w = f['witness']
        outs = {}
        for mode in ('none', 'zod'):
            cfg = dict(w['config'])
            cfg['validation_library'] = mode
            rc, o, err, _ = PL.run_native(w['files'], cfg)
            outs[mode] = {k: Str(v) for k, v in o.items()}
        eng = H.E.Engine()
        V.set_engine(eng)
        kind = f['key'].rsplit('/', 1)[1]
        try:
            tn = self.read_none(outs['none'])
            tz = self.read_zod(outs['zod'])
        except (TS.Reject, KeyError):
            return kind == 'unreadable'
        if kind == 'unreadable':
            return False
        if kind == 'names':
            return sorted(tn) != sorted(tz)
        what, _, rest = kind.partition(':')
        for nm in sorted(set(tn) & set(tz)):
            a, b = tn[nm], tz[nm]
            if what == 'kind' and rest == nm:
                return a[0] != b[0]
            if a[0] == 'enum' and what == 'enum-literals':
                return [x.py() for x in a[1]] != [x.py() for x in b[1]]
            if a[0] != 'object' or b[0] != 'object':
                continue
            if what == 'keys' and rest == nm:
                return [x[0].py() for x in a[1]] != [y[0].py() for y in b[1]]
            if what in ('shape', 'omittable') and rest.startswith(nm + '.'):
                key = rest[len(nm) + 1:]
                for (k1, opt1, t1), (k2, sh2, info2) in zip(a[1], b[1]):
                    if k1.py() != key:
                        continue
                    s1b, om1 = strip_omittable(S.norm(S.ts_shape(t1)))
                    om1 = om1 or opt1
                    if sh2[0] == 'ts':
                        s2b, om2 = strip_omittable(S.norm(S.ts_shape(sh2[1])))
                        om2 = om2 or bool(info2.get('optional'))
                    else:
                        s2b, om2 = strip_omittable(S.norm(sh2))
                    if what == 'shape':
                        return S.shape_eq(deep_norm(s1b), deep_norm(s2b)) is not True
                    return om1 != om2
        return False

    def mutants(self):
        def array_as_tuple(prog):
            fd = M.find_fn(prog, 'ZodSchemaBuilder::render_type')
            return fd is not None and M.replace_str_lit(fd, 'z.array({})', 'z.tuple([{}])')

        def enum_missing_variant(prog):
            fd = M.find_fn(prog, 'ZodBindingsGenerator::generate_enum_schema')
            return fd is not None and M.replace_str_lit(fd, ', ', '')
        return [('zod-array-rendered-as-tuple', array_as_tuple), ('zod-enum-separator-lost', enum_missing_variant)]

    quick_mutants = 2


if __name__ == '__main__':
    sys.exit(H.main(C10()))
