"""harness.fsx -- a small machine for the file-system / history properties (C08 C14 C16 C17 C19).

Layout (the one the README recommends for build scripts; the CLI is run from the same directory):

    /w/app/src-tauri/                 <- cwd of every run
        tauri.conf.json               plugins.typegen = {projectPath: ".", outputPath: "../src/generated", ...}
        src/*.rs                      project sources (rsx.pipeline.Project templates, holes allowed)
    /w/app/src/generated/             output directory (pre-populated by the scenario)

`Box.cli()` executes the repository's `run_generate`, `Box.build()` executes
`BuildSystem::generate_at_build_time`, both in the interpreter over the modelled world; every mutating
file-system call lands in `world.log`.  `native_history` replays a concrete history against the real
binaries in a scratch directory and returns exit codes and whole-tree snapshots."""
import json
import os
import re
import shutil
import subprocess
import tempfile

from rsx import values as V
from rsx import harness as H
from rsx import pipeline as PL
from rsx.values import Str, Struct, Enum, Vec, HMap, Opaque, Some, mk_none, deref
from rsx.models import fs as FS
from rsx.models import json as J

APP = '/w/app'
ST = '/w/app/src-tauri'
OUT = '/w/app/src/generated'
OUT_REL = '../src/generated'
CONF = ST + '/tauri.conf.json'

NATIVE_BIN = H.NATIVE_BIN
CLI = PL.CLI


def typegen_conf(**kw):
    c = {'projectPath': '.', 'outputPath': OUT_REL}
    c.update(kw)
    return c


def conf_doc(typegen, rest=None):
    """python document for tauri.conf.json"""
    d = dict(rest or {})
    if typegen is not None:
        d.setdefault('plugins', {})
        d['plugins'] = dict(d['plugins'])
        d['plugins']['typegen'] = typegen
    return d


class Box:
    def __init__(self, interp, proj, typegen=None, pre_out=(), out_exists=True, rest=None, conf_value=None, out_abs=OUT):
        """pre_out: [(name Str|str, content Str|str|None)] -- content None makes a sub-directory"""
        self.I = interp
        self.proj = proj
        self.out = out_abs
        w = FS.World()
        self.w = w
        w.cwd = Str(ST)
        for d in ('/w', APP, APP + '/src', ST):
            w.add_dir(d)
        dirs = set()
        for rel in list(proj.files) + list(proj.extra_files):
            parts = rel.split('/')
            for k in range(1, len(parts)):
                d = ST + '/' + '/'.join(parts[:k])
                if d not in dirs:
                    dirs.add(d)
                    w.add_dir(d)
        for rel in proj.files:
            w.add_file(ST + '/' + rel, Str((Opaque('src', rel),)))
        for rel, txt in proj.extra_files.items():
            w.add_file(ST + '/' + rel, txt)
        if conf_value is not None:
            w.add_file(CONF, J.json_doc_text(conf_value))
        else:
            self.typegen = typegen if typegen is not None else typegen_conf()
            w.add_file(CONF, J.json_doc_text(J.py_to_value(conf_doc(self.typegen, rest))))
        if out_exists or pre_out:
            parts = out_abs.strip('/').split('/')
            for k in range(1, len(parts) + 1):
                d = '/' + '/'.join(parts[:k])
                if w.find(Str(d)) is None:
                    w.add_dir(d)
        for name, content in pre_out:
            n = Str(name) if isinstance(name, str) else name
            p = Str(tuple(Str(out_abs + '/').cs) + tuple(n.cs))
            if content is None:
                w.add_dir(p)
            else:
                w.add_file(p, content)
        self.marks = []

    # ---- state edits between runs ------------------------------------------------------------
    def set_project(self, proj):
        """replace the sources (same relative paths keep their world entries; new ones are added, vanished removed)"""
        w = self.w
        old = set(self.proj.files)
        new = set(proj.files)
        for rel in old - new:
            e = w.find(Str(ST + '/' + rel))
            if e is not None:
                w.entries.remove(e)
        for rel in new - old:
            parts = rel.split('/')
            for k in range(1, len(parts)):
                d = ST + '/' + '/'.join(parts[:k])
                if w.find(Str(d)) is None:
                    w.add_dir(d)
            w.add_file(ST + '/' + rel, Str((Opaque('src', rel),)))
        self.proj = proj

    def set_typegen(self, typegen, rest=None):
        e = self.w.find(Str(CONF))
        e[2] = J.json_doc_text(J.py_to_value(conf_doc(typegen, rest)))
        self.typegen = typegen

    def out_entry(self, name):
        return self.w.find(Str(self.out + '/' + name))

    def delete_out(self, name):
        e = self.out_entry(name)
        if e is not None:
            self.w.entries.remove(e)
        return e is not None

    # ---- runs --------------------------------------------------------------------------------
    def _enter(self):
        V.CALL_STACK.clear()
        self.I.fs = self.w
        self.I.hooks['syn::parse_file'] = self.proj.parse_hook()
        self.marks.append(len(self.w.log))

    def cli(self, **args):
        """run_generate with the given command-line arguments (all absent by default)"""
        self._enter()
        a = dict(project_path=mk_none(), output_path=mk_none(), validation_library=mk_none(), verbose=False,
                 visualize_deps=False, config_file=mk_none(), force=False)
        for k, v in args.items():
            if k in ('project_path', 'output_path', 'config_file') and v is not None and not isinstance(v, Enum):
                v = Some(FS.mkpath(Str(v) if isinstance(v, str) else v))
            elif k == 'validation_library' and v is not None and not isinstance(v, Enum):
                v = Some(Str(v) if isinstance(v, str) else v)
            elif v is None:
                v = mk_none()
            a[k] = v
        return deref(self.I.call_path('run_generate', [a['project_path'], a['output_path'], a['validation_library'],
                                                       a['verbose'], a['visualize_deps'], a['config_file'], a['force']]))

    def init(self, **args):
        self._enter()
        a = dict(project_path=mk_none(), generated_path=mk_none(), output_path=mk_none(), validation_library=mk_none(),
                 verbose=False, visualize_deps=False, force=False)
        for k, v in args.items():
            if k in ('project_path', 'generated_path', 'output_path') and v is not None and not isinstance(v, Enum):
                v = Some(FS.mkpath(Str(v) if isinstance(v, str) else v))
            elif k == 'validation_library' and v is not None and not isinstance(v, Enum):
                v = Some(Str(v) if isinstance(v, str) else v)
            elif v is None:
                v = mk_none()
            a[k] = v
        return deref(self.I.call_path('run_init', [a['project_path'], a['generated_path'], a['output_path'],
                                                   a['validation_library'], a['verbose'], a['visualize_deps'], a['force']]))

    def build(self):
        self._enter()
        return deref(self.I.call_path('BuildSystem::generate_at_build_time', []))

    def run(self, path, **args):
        return self.cli(**args) if path == 'cli' else self.build()

    def effects_since(self, mark=-1):
        return self.w.log[self.marks[mark]:]

    def out_files(self):
        """{name(py str or None if symbolic): (name Str, content)} of regular files directly in OUT"""
        res = []
        for e in self.w.children(Str(self.out)):
            if e[1] == 'file':
                res.append((FS.file_name(e[0]), e[2]))
        return res


def is_ok(r):
    return isinstance(r, Enum) and r.var == 'Ok'


def err_text(r):
    try:
        return repr(r.vals[0])[:200]
    except Exception:
        return '?'


def strip_ts(s):
    """content with the timestamp opaque removed (contents are compared ignoring the timestamp comment)"""
    if not isinstance(s, Str):
        return s
    return Str(tuple('<ts>' if isinstance(c, Opaque) and c.kind == 'timestamp' else c for c in s.cs))


def content_eq(a, b):
    """condition: two file contents are equal ignoring the timestamp"""
    a, b = strip_ts(a), strip_ts(b)
    if len(a.cs) != len(b.cs):
        return False
    conds = []
    for x, y in zip(a.cs, b.cs):
        if isinstance(x, (int, str)) and isinstance(y, (int, str)):
            if x != y:
                return False
            continue
        if isinstance(x, Opaque) or isinstance(y, Opaque):
            if not (isinstance(x, Opaque) and isinstance(y, Opaque) and x.kind == y.kind and x.payload == y.payload):
                return False
            continue
        if isinstance(x, str) or isinstance(y, str):
            return False
        conds.append(x == y)
    return V.z_and(*conds) if conds else True


# ------------------------------------------------------------------------------------------------
# native histories
# ------------------------------------------------------------------------------------------------

def snapshot_dir(root):
    snap = {}
    for dp, dns, fns in os.walk(root):
        rel = os.path.relpath(dp, root)
        for d in dns:
            snap[os.path.normpath(os.path.join(rel, d)) + '/'] = None
        for f in fns:
            p = os.path.join(dp, f)
            try:
                t = open(p, encoding='utf-8').read()
            except UnicodeDecodeError:
                t = '<binary>'
            snap[os.path.normpath(os.path.join(rel, f))] = PL.TS_LINE.sub('Generated at: <ts>', t)
    return snap


def native_history(steps, keep=False):
    """steps (paths relative to the sandbox root, which plays the role of /w):
         ('write', rel, text) ('mkdir', rel) ('rm', rel) ('rmtree', rel)
         ('cli', [args...]) ('init', [args...]) ('build',)            -> result {'rc','stderr','stdout','snap','mtimes'}
       cwd of every run is <root>/app/src-tauri.  Returns the list of run results, in order."""
    base = os.path.join(H.CACHE, 'tmp')
    os.makedirs(base, exist_ok=True)
    d = tempfile.mkdtemp(prefix='hist', dir=base)
    res = []
    try:
        cwd = os.path.join(d, 'app', 'src-tauri')
        os.makedirs(cwd, exist_ok=True)
        for st in steps:
            k = st[0]
            if k == 'write':
                p = os.path.join(d, st[1])
                os.makedirs(os.path.dirname(p), exist_ok=True)
                with open(p, 'w', encoding='utf-8') as f:
                    f.write(st[2].replace('"/w/', '"' + d + '/'))
            elif k == 'mkdir':
                os.makedirs(os.path.join(d, st[1]), exist_ok=True)
            elif k == 'rm':
                p = os.path.join(d, st[1])
                if os.path.isdir(p):
                    shutil.rmtree(p)
                elif os.path.exists(p):
                    os.remove(p)
            elif k in ('cli', 'init', 'build'):
                if k == 'build':
                    cmd = [NATIVE_BIN, 'build-run']
                else:
                    cmd = [CLI, 'tauri-typegen', 'generate' if k == 'cli' else 'init'] + \
                          [d + a[2:] if a.startswith('/w/') else a for a in st[1]]
                before = tree_stat(d)
                pre = snapshot_dir(d)
                tlog = os.path.join(base, os.path.basename(d) + '.strace')
                pr = subprocess.run(['strace', '-f', '-y', '-e', 'trace=' + TRACED, '-o', tlog] + cmd, cwd=cwd,
                                    stdout=subprocess.PIPE, stderr=subprocess.PIPE, timeout=120)
                after = tree_stat(d)
                eff = parse_strace(tlog, cwd, d)
                os.remove(tlog)
                res.append({'rc': pr.returncode, 'stderr': pr.stderr.decode('utf-8', 'replace'),
                            'stdout': pr.stdout.decode('utf-8', 'replace'), 'snap': snapshot_dir(d), 'pre': pre, 'effects': eff,
                            'touched': sorted(p for p in set(before) | set(after) if before.get(p) != after.get(p))})
            else:
                raise ValueError(k)
        return res
    finally:
        if not keep:
            shutil.rmtree(d, ignore_errors=True)


TRACED = 'openat,open,creat,unlink,unlinkat,mkdir,mkdirat,rename,renameat,renameat2,rmdir,truncate,link,linkat,symlink,symlinkat'
_CALL = re.compile(r'^\d+\s+(\w+)\((.*)\)\s+= (-?\d+)')
_DIRFD = re.compile(r'^\d+<([^>]+)>')
_STR = re.compile(r'"((?:[^"\\]|\\.)*)"')


def parse_strace(path, cwd, root):
    """the mutating file-system calls that succeeded, as (op, path relative to the sandbox root or absolute if outside)"""
    out = []
    for line in open(path, encoding='utf-8', errors='replace'):
        m = _CALL.match(line)
        if not m or int(m.group(3)) < 0:
            continue
        call, args = m.group(1), m.group(2)
        strs = [bytes(x, 'latin-1').decode('unicode_escape').encode('latin-1').decode('utf-8', 'replace') for x in _STR.findall(args)]
        if call in ('openat', 'open', 'creat'):
            if not strs or not ('O_WRONLY' in args or 'O_RDWR' in args or 'O_CREAT' in args or call == 'creat'):
                continue
            op = 'write'
        elif call in ('unlink', 'unlinkat'):
            op = 'rmdir' if 'AT_REMOVEDIR' in args else 'remove'
        elif call in ('mkdir', 'mkdirat'):
            op = 'mkdir'
        elif call == 'rmdir':
            op = 'rmdir'
        elif call in ('rename', 'renameat', 'renameat2', 'link', 'linkat', 'symlink', 'symlinkat'):
            op = 'rename'
        elif call == 'truncate':
            op = 'write'
        else:
            continue
        # *at calls relative to a directory descriptor (std::fs::remove_dir_all walks that way): strace -y prints its path
        dm = _DIRFD.match(args)
        basedir = dm.group(1) if dm else cwd
        for sp in (strs if op == 'rename' else strs[:1]):
            ap = os.path.normpath(os.path.join(basedir, sp))
            if ap.startswith('/dev/') or ap.startswith('/proc/'):
                continue
            rel = os.path.relpath(ap, root) if (ap + '/').startswith(root + '/') else ap
            out.append((op, rel))
    return out


def tree_stat(root):
    st = {}
    for dp, dns, fns in os.walk(root):
        # a directory's mtime moves when an entry is created, removed or renamed in it (this is what
        # cargo's rerun-if-changed and file watchers look at)
        st[os.path.relpath(dp, root) + '/'] = (os.stat(dp).st_mtime_ns,)
        for f in fns:
            p = os.path.join(dp, f)
            s = os.stat(p)
            st[os.path.relpath(p, root)] = (s.st_mtime_ns, s.st_size, s.st_ino)
    return st


def project_steps(files, typegen, rest=None, pre_out=(), out_rel='app/src/generated'):
    """the 'write' steps that lay out a concrete project in the sandbox (a leading /w in configured paths
    stands for the sandbox root and is substituted at run time)"""
    steps = [('mkdir', 'app/src')]
    for rel, src in files.items():
        steps.append(('write', 'app/src-tauri/' + rel, src))
    steps.append(('write', 'app/src-tauri/tauri.conf.json', json.dumps(conf_doc(typegen, rest), indent=2)))
    for name, content in pre_out:
        if content is None:
            steps.append(('mkdir', out_rel + '/' + name))
        else:
            steps.append(('write', out_rel + '/' + name, content))
    return steps
