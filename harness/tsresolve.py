"""name resolution over the TypeScript-subset AST (oracle for C02/C07/C09/C18)"""
from rsx import values as V
from rsx.values import Str
from rsx.readers import ts as TS
from rsx.engine import z_or, z_and, z_not

BUILTIN_TYPES = ['string', 'number', 'boolean', 'void', 'null', 'undefined', 'unknown', 'any', 'never', 'object', 'Record', 'Array', 'Promise',
                 'Map', 'Set', 'Date', 'Partial', 'Readonly', 'bigint', 'symbol', 'this']
BUILTIN_VALUES = ['undefined', 'null', 'true', 'false', 'this', 'console', 'JSON', 'Object', 'Array', 'Promise', 'Error', 'Math']


def is_N(x):
    return isinstance(x, TS.N)


def walk(n, f, in_type=False):
    """generic traversal; f(node) called on every N"""
    if isinstance(n, list):
        for x in n:
            walk(x, f)
    elif is_N(n):
        f(n)
        for k, v in n.__dict__.items():
            if k in ('kind', 'pos'):
                continue
            if isinstance(v, (list, TS.N)):
                walk(v, f)
            elif isinstance(v, tuple):
                for x in v:
                    walk(x, f)


def exports(mod):
    """-> (type exports [Str], value exports [Str], all export names in order)"""
    types, values, all_ = [], [], []
    for it in mod.items:
        if it.kind in ('Interface', 'TypeAlias'):
            types.append(it.name)
            all_.append(('type', it.name))
        elif it.kind in ('Const', 'Function'):
            values.append(it.name)
            all_.append(('value', it.name))
    return types, values, all_


def imports(mod):
    names, stars = [], []
    for it in mod.items:
        if it.kind == 'Import':
            names.extend(it.names)
            if it.star is not None:
                stars.append(it.star)
    return names, stars


def type_refs(node):
    """all type references below node: list of Ref nodes (and TypeOf nodes)"""
    out = []

    def f(n):
        if n.kind in ('Ref', 'TypeOf'):
            out.append(n)
    walk(node, f)
    return out


def value_ids(node):
    """identifier expressions (roots of member chains) below node, with the first member accessed"""
    out = []

    def f(n):
        if n.kind == 'Member' and n.obj.kind == 'Id':
            out.append((n.obj.name, n.prop, n.obj.pos))
        elif n.kind == 'Id':
            out.append((n.name, None, n.pos))
    walk(node, f)
    return out


def any_eq(name, cands):
    return z_or(*[V.str_eq(name, c if isinstance(c, Str) else Str(c)) for c in cands])
