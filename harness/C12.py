"""C12 -- one correctly named, correctly subscribed listener per emitted event (DESIGN 4/C12)."""
import sys

from rsx import harness as H, values as V, interp as IP, sym, pipeline as PL, mutate as M
from rsx.values import Str, deref
from rsx.engine import Inconclusive, PathAbort, z_and, z_or, z_not
from rsx.readers import ts as TS
from harness import common as C
from harness import shapes as S

CMD = '#[tauri::command]\npub fn '

# statement templates placing one emit call; {R} receiver, {E} event-name literal, {P} payload
PLACEMENTS = {
    'stmt': '{R}.emit({E}, {P});',
    'stmt-unwrap': '{R}.emit({E}, {P}).unwrap();',
    'stmt-ok': '{R}.emit({E}, {P}).ok();',
    'try': '{R}.emit({E}, {P})?;',
    'await-try': '{R}.emit({E}, {P}).await?;',
    'let': 'let _r = {R}.emit({E}, {P});',
    'let-try': 'let _r = {R}.emit({E}, {P})?;',
    'if-then': 'if flag {{ {R}.emit({E}, {P}).ok(); }}',
    'if-else': 'if flag {{ let _x = 1; }} else {{ {R}.emit({E}, {P}).ok(); }}',
    'else-if': 'if flag {{ let _x = 1; }} else if other {{ {R}.emit({E}, {P}).ok(); }} else {{ let _y = 2; }}',
    'match-arm-block': 'match code {{ 1 => {{ {R}.emit({E}, {P}).ok(); }} _ => {{}} }}',
    'match-arm-expr': 'match code {{ 1 => {R}.emit({E}, {P}).unwrap(), _ => () }}',
    'loop': 'loop {{ {R}.emit({E}, {P}).ok(); break; }}',
    'while': 'while flag {{ {R}.emit({E}, {P}).ok(); }}',
    'for': 'for _i in 0..3 {{ {R}.emit({E}, {P}).ok(); }}',
    'nested-block': '{{ {{ {R}.emit({E}, {P}).ok(); }} }}',
    'emit_to': '{R}.emit_to("main", {E}, {P}).unwrap();',
    'emit_to-try': '{R}.emit_to("main", {E}, {P})?;',
    'tail-expr': '{R}.emit({E}, {P})',
}
RECEIVERS = {   # receiver expression -> (function parameter list, documented handle?)
    'app': ('app: tauri::AppHandle', True),
    'window': ('window: tauri::Window', True),
    'webview': ('webview: tauri::WebviewWindow', True),
    'self.app': ('holder: Holder', True),
    'state.window': ('state: Holder', True),
    'get_app()': ('x: i32', False),        # a free function call is not a documented receiver form
    'app.clone()': ('app: tauri::AppHandle', True),
    'holder.handle()': ('holder: Holder', True),
    'tauri::AppHandle': ('x: i32', True),
    'emitter': ('emitter: Thing', False),
    'self.bus': ('holder: Holder', False),
}
RECV_TYPES = ['tauri::AppHandle', '&tauri::AppHandle', 'AppHandle', '&mut tauri::App', '&tauri::App', 'tauri::Window', 'tauri::WebviewWindow',
              '&E', 'impl tauri::Emitter', '&impl Emitter', 'tauri::Webview', 'HOLE_t', '&HOLE_t', 'tauri::HOLE_t']


def fn_with(body, params='app: tauri::AppHandle', name='work', ret='-> Result<(), String>', tail='Ok(())'):
    return 'pub async fn %s(%s, flag: bool, other: bool, code: i32) %s {\n    %s\n    %s\n}\n' % (name, params, ret, body, tail)


class C12(C.PipelineCheck):
    id = 'C12'
    title = 'One correctly named, correctly subscribed listener per emitted event'
    required_covers = ('placement', 'receiver:handle', 'receiver:other', 'name:symbolic', 'two-names:equal', 'two-names:distinct', 'three-names', 'fn-attrs', 'payload:typed',
                       'payload:unknown', 'no-events')

    def bounds(self, tier):
        q = tier != 'thorough'
        return {'placements': '%d statement placements of emit/emit_to x %d receiver forms, one and two functions' % (len(PLACEMENTS), len(RECEIVERS)),
                'receiver types': '%d declared types of a receiver named app/window incl. a symbolic type name (length 3,5,6,9)' % len(RECV_TYPES),
                'names': 'event name symbolic, %s characters over [A-Za-z0-9_/:-]; pairs of symbolic names of <=%d characters each (equal and different)' % (
                    '1..4' if q else '1..6', 2 if q else 3),
                'payloads': 'literal kinds, struct expression, typed parameter / annotated let binding of a type skeleton with a symbolic leaf (C05 contexts, depth <=1), &x, x.clone(), call',
                'modes': 'none and zod'}

    def outside(self):
        return ['emit calls inside closures, async blocks and macro bodies (not documented placements)', 'event names that are not string literals',
                'more than two emit sites interacting', 'payload type skeletons deeper than 1 (C05 covers the translation itself)']

    def assumptions(self):
        return ['documented receivers: a variable or field named app, window or webview, or the result of a method call; other receivers produce no listener',
                'payload type is evident for literals, struct expressions, typed parameters / annotated bindings (also behind & and .clone()); otherwise `unknown`']

    def scenarios(self, tier):
        q = tier != 'thorough'
        for pl in PLACEMENTS:
            yield ('placement/%s' % pl, dict(kind='placement', pl=pl))
        for i, rt in enumerate(RECV_TYPES):
            yield ('recvtype/%d' % i, dict(kind='recvtype', rt=rt))
        for n in range(1, (4 if q else 6) + 1):
            yield ('name/%d' % n, dict(kind='name', n=n))
        for a in range(1, (2 if q else 3) + 1):
            for b in range(1, (2 if q else 3) + 1):
                yield ('two-names/%d-%d' % (a, b), dict(kind='two', a=a, b=b))
        for n in (1, 2):
            yield ('three-names/%d' % n, dict(kind='three', n=n))
        yield ('fn-attrs', dict(kind='fn-attrs'))
        for form in ('param', 'ref-param', 'clone-param', 'let-annotated', 'let-annotated-init', 'struct-expr', 'literals', 'untyped', 'untyped-binding'):
            yield ('payload/%s' % form, dict(kind='payload', form=form))
        yield ('no-events', dict(kind='none'))
        yield ('two-files', dict(kind='two-files'))

    def mutant_scenarios(self, tier, name):
        for j in self.scenarios('quick'):
            if j[0] in ('placement/if-else', 'placement/emit_to', 'name/2', 'payload/param', 'payload/literals', 'two-names/1-1', 'placement/while'):
                yield j

    # -- reading ---------------------------------------------------------------------------------
    @staticmethod
    def read_listeners(outputs):
        """-> list of dicts(fn=Str, event=Str, payload=type AST, generic=type AST) ; None when there is no events.ts"""
        idx = TS.parse_module(outputs['index.ts'], 'index.ts')
        exported = [it.source.py() for it in idx.items if it.kind == 'ExportStar']
        if 'events.ts' not in outputs:
            return None, exported
        mod = TS.parse_module(outputs['events.ts'], 'events.ts')
        out = []
        for it in mod.items:
            if it.kind != 'Function':
                continue
            if not it.params or it.params[0].type is None or it.params[0].type.kind != 'FnType' or not it.params[0].type.params:
                raise TS.Reject('listener without handler parameter', 0, '', 'params')
            payload = it.params[0].type.params[0].type
            calls = []

            def walk(n):
                if isinstance(n, list):
                    for x in n:
                        walk(x)
                elif isinstance(n, TS.N):
                    if n.kind == 'Call' and n.callee.kind == 'Id' and n.callee.name.py() == 'listen':
                        calls.append(n)
                    for v in n.__dict__.values():
                        if isinstance(v, (list, TS.N)):
                            walk(v)
            walk(it.body)
            if len(calls) != 1 or not calls[0].args or calls[0].args[0].kind != 'Str':
                raise TS.Reject('listener body does not call listen(<string>, ..) once', 0, '', 'statement')
            out.append(dict(fn=it.name, event=calls[0].args[0].value, payload=payload, generic=calls[0].targs[0] if calls[0].targs else None))
        return out, exported

    def run_scenario(self, ctx, name, p):
        I = IP.Interp(ctx.prog)
        eng = ctx.engine(max_paths=60000, max_seconds=1500)
        eng.order_mode = 'insertion'
        kind = p['kind']
        holder = ('pub struct Holder { pub app: tauri::AppHandle, pub window: tauri::Window, pub bus: Bus }\n'
                  'impl Holder { pub fn handle(&self) -> tauri::AppHandle { self.app.clone() } }\n'
                  '#[derive(Serialize, Deserialize, Clone)]\npub struct User { pub id: i32 }\n' + CMD + 'cmd(x: i32) -> i32 { 0 }\n')

        def body(e):
            mode = ('none', 'zod')[e.choose(2)]
            holes = {}
            files = {}
            expected = []      # list of (event name Str, payload shape or None=unchecked)
            tag = kind
            if kind == 'placement':
                rnames = list(RECEIVERS)
                rv = rnames[e.choose(len(rnames))]
                params, is_handle = RECEIVERS[rv]
                recv = rv.replace('self.', 'holder.') if rv.startswith('self.') else rv
                stmt = PLACEMENTS[p['pl']].format(R=recv, E='"evt-one"', P='1')
                tail = 'Ok(())'
                if p['pl'] == 'tail-expr':
                    src = 'pub fn work(%s, flag: bool) -> Result<(), tauri::Error> {\n    %s\n}\n' % (params, stmt)
                else:
                    src = fn_with(stmt, params)
                # a second, plain emit in another function must not be disturbed
                src += 'pub fn second(app: tauri::AppHandle) { app.emit("evt-two", true).unwrap(); }\n'
                files['src/main.rs'] = C.HEADER + holder + src
                if is_handle:
                    expected.append((Str('evt-one'), ('num',)))
                    e.cover('receiver:handle')
                else:
                    e.cover('receiver:other')
                expected.append((Str('evt-two'), ('bool',)))
                e.cover('placement')
                tag = 'placement:%s/%s' % (p['pl'], rv)
            elif kind == 'recvtype':
                rt = p['rt']
                if 'HOLE_t' in rt:
                    n = (3, 5, 6, 9)[e.choose(4)]
                    holes['t'] = C.sym_type_ident('t', n)
                gen = '<E: tauri::Emitter>' if rt == '&E' else ''
                var = ('app', 'window')[e.choose(2)]
                src = 'pub fn setup%s(%s: %s, flag: bool) -> Result<(), String> {\n    %s.emit("ready", 7).ok();\n    %s.emit_to("main", "closing", "bye").ok();\n    Ok(())\n}\n' % (
                    gen, var, rt, var, var)
                files['src/main.rs'] = C.HEADER + holder + src
                expected = [(Str('ready'), ('num',)), (Str('closing'), ('str',))]
                tag = 'recvtype:%s' % rt
            elif kind == 'name':
                nm = sym.sym_str('e', p['n'], C.EVENT_ALPHABET)
                holes['e'] = nm
                files['src/main.rs'] = C.HEADER + holder + 'pub fn work(app: tauri::AppHandle) { app.emit("HOLE_e", 1).unwrap(); }\n'
                expected = [(nm, ('num',))]
                e.cover('name:symbolic')
            elif kind == 'fn-attrs':
                # attributes on the emitting function that do not remove it from the (non-test) build
                attrs = ['#[cfg(not(test))]', '#[cfg(desktop)]', '#[cfg(feature = "testing")]', '#[cfg(any(test, debug_assertions))]', '#[inline]', '#[allow(dead_code)]',
                         '#[cfg_attr(test, allow(unused))]', '#[doc = "test helper"]', '/// emits in tests and in production']
                a = attrs[e.choose(len(attrs))]
                where = e.choose(3)
                body = 'app.emit("app-ready", true).unwrap();'
                if where == 0:
                    src = '%s\npub fn notify(app: &tauri::AppHandle) { %s }\n' % (a, body)
                elif where == 1:
                    src = '%s\n#[tauri::command]\npub fn notify(app: tauri::AppHandle) { %s }\n' % (a, body)
                else:
                    src = '#[tauri::command]\n%s\npub async fn notify(app: tauri::AppHandle) -> Result<(), String> { %s Ok(()) }\n' % (a, body)
                src += 'pub fn second(app: tauri::AppHandle) { app.emit("evt-two", 2).unwrap(); }\n'
                files['src/main.rs'] = C.HEADER + holder + src
                expected = [(Str('app-ready'), ('bool',)), (Str('evt-two'), ('num',))]
                e.cover('fn-attrs')
                tag = 'fn-attrs'
            elif kind == 'three':
                # two names that collide on one identifier plus a third whose own identifier is the suffixed form:
                # x-y / x_y / x-y2 style triples with a symbolic stem; every listener needs its own identifier
                stem = (['x', 'q'], ['ab', 'dl'])[p['n'] - 1][e.choose(2)]
                seps = [('-', '_'), ('_', ':'), (':', '-')][e.choose(3)]
                third = ['HOLE_s%sb2' % seps[0], 'HOLE_s%sb-2' % seps[0], 'HOLE_sB2'][e.choose(3)]
                order = e.choose(3)
                names = ['HOLE_s%sb' % seps[0], 'HOLE_s%sb' % seps[1], third]
                names = names[order:] + names[:order]
                files['src/main.rs'] = C.HEADER + holder + 'pub fn work(app: tauri::AppHandle) { %s }\n' % ' '.join('app.emit("%s", %d).unwrap();' % (nm, i) for i, nm in enumerate(names))
                names = [nm.replace('HOLE_s', stem) for nm in names]
                files['src/main.rs'] = files['src/main.rs'].replace('HOLE_s', stem)
                expected = [(Str(nm), ('num',)) for nm in names]
                e.cover('three-names')
            elif kind == 'two':
                a = sym.sym_str('a', p['a'], C.EVENT_ALPHABET)
                b = sym.sym_str('b', p['b'], C.EVENT_ALPHABET)
                holes['a'] = a
                holes['b'] = b
                files['src/main.rs'] = C.HEADER + holder + ('pub fn work(app: tauri::AppHandle) { app.emit("HOLE_a", 1).unwrap(); }\n'
                                                             'pub fn more(window: tauri::Window) { window.emit("HOLE_b", 2).unwrap(); }\n')
                if e.decide(V.str_eq(a, b)):
                    expected = [(a, ('num',))]
                    e.cover('two-names:equal')
                else:
                    expected = [(a, ('num',)), (b, ('num',))]
                    e.cover('two-names:distinct')
            elif kind == 'payload':
                form = p['form']
                if form in ('param', 'ref-param', 'clone-param', 'let-annotated', 'let-annotated-init'):
                    ctxs = ['-', 'opt', 'vec', 'hmap-v', 'tup2-1', 'hset', 'result1']
                    cx = ctxs[e.choose(len(ctxs))]
                    n = (3, 4, 6)[e.choose(3)]
                    cs = [sym.sym_char('t_0', C.UPPER + C.IDENT_LOWER)] + [sym.sym_char('t_%d' % i, C.UPPER + C.IDENT_LOWER + '0123456789') for i in range(1, n)]
                    t = Str(tuple(cs))
                    holes['t'] = t
                    e.assume(PL.not_rust_keyword(t))
                    prims = [w for w in S.NUMERIC + S.STRINGS + ['bool'] if len(w) == n]
                    e.assume(z_or(z_and(cs[0] >= 65, cs[0] <= 90), *[V.str_eq(t, Str(w)) for w in prims]))
                    for w in ('Vec', 'Option', 'Result', 'HashMap', 'HashSet', 'Box', 'Self', 'Array', 'Record', 'Map', 'Set', 'Date', 'Object'):
                        if len(w) == n:
                            e.assume(z_not(V.str_eq(t, Str(w))))
                    from harness.C05 import CTX
                    sk = ('leaf', 't') if cx == '-' else CTX[cx](('leaf', 't'))
                    ty = S.rust_text(sk)
                    if form == 'param':
                        src = 'pub fn work(app: tauri::AppHandle, v: %s) { app.emit("evt", v).unwrap(); }\n' % ty
                    elif form == 'ref-param':
                        src = 'pub fn work(app: tauri::AppHandle, v: &%s) { app.emit("evt", &v).unwrap(); }\n' % ty
                    elif form == 'clone-param':
                        src = 'pub fn work(app: tauri::AppHandle, v: %s) { app.emit("evt", v.clone()).unwrap(); }\n' % ty
                    elif form == 'let-annotated-init':
                        # the annotation is the type; an initialiser that names a constructor (Vec::new(), T::default()) must not override it
                        head = {'-': 'HOLE_t', 'opt': 'Option', 'vec': 'Vec', 'hmap-v': 'HashMap', 'tup2-1': 'Default', 'hset': 'HashSet', 'result1': 'Result'}[cx]
                        init = ['%s::new()' % head, 'Default::default()', '%s::default()' % head, '%s::with_capacity(4)' % head][e.choose(4)]
                        src = 'pub fn work(app: tauri::AppHandle) { let mut v: %s = %s; app.emit("evt", &v).unwrap(); }\n' % (ty, init)
                    else:
                        src = 'pub fn work(app: tauri::AppHandle) { let v: %s = make(); app.emit("evt", v).unwrap(); }\n' % ty
                    expected = [(Str('evt'), S.norm(S.denote(sk, holes)))]
                    e.cover('payload:typed')
                    tag = 'payload:%s/%s' % (form, cx)
                elif form == 'struct-expr':
                    src = 'pub fn work(app: tauri::AppHandle) { app.emit("evt", User { id: 1 }).unwrap(); app.emit("evt2", &User { id: 2 }).unwrap(); }\n'
                    expected = [(Str('evt'), ('ref', Str('User'))), (Str('evt2'), ('ref', Str('User')))]
                    e.cover('payload:typed')
                elif form == 'literals':
                    src = ('pub fn work(app: tauri::AppHandle) { app.emit("a", "text").unwrap(); app.emit("b", 42).unwrap(); app.emit("c", 1.5).unwrap(); '
                           'app.emit("d", true).unwrap(); app.emit("e", ()).unwrap(); }\n')
                    expected = [(Str('a'), ('str',)), (Str('b'), ('num',)), (Str('c'), ('num',)), (Str('d'), ('bool',)), (Str('e'), ('unit',))]
                    e.cover('payload:typed')
                elif form == 'untyped-binding':
                    src = 'pub fn work(app: tauri::AppHandle, n: i32) { let w = other(); app.emit("e", w).unwrap(); }\n'
                    expected = [(Str('e'), ('unknown',))]
                    e.cover('payload:unknown')
                else:
                    src = ('pub fn work(app: tauri::AppHandle, n: i32) { app.emit("a", make()).unwrap(); app.emit("b", (1, 2)).unwrap(); '
                           'app.emit("c", n + 1).unwrap(); app.emit("d", compute(n).await).unwrap(); '
                           'app.emit("f", vec![1]).unwrap(); }\n')
                    expected = [(Str(x), ('unknown',)) for x in 'abcdf']
                    e.cover('payload:unknown')
                files['src/main.rs'] = C.HEADER + holder + src
                if tag == 'payload':
                    tag = 'payload:' + form
            elif kind == 'two-files':
                files['src/main.rs'] = C.HEADER + holder + 'pub fn a(app: tauri::AppHandle) { app.emit("shared", 1).unwrap(); app.emit("only-a", 1).unwrap(); }\n'
                files['src/sub/other.rs'] = 'pub fn b(app: tauri::AppHandle) { app.emit("shared", 2).unwrap(); app.emit("only-b", "x").unwrap(); }\n'
                expected = [(Str('shared'), ('num',)), (Str('only-a'), ('num',)), (Str('only-b'), ('str',))]
            else:
                files['src/main.rs'] = C.HEADER + holder + 'pub fn work(emitter: Thing) { emitter.emit("nope", 1); }\n'
                expected = []
                e.cover('no-events')
            proj = PL.Project(files, holes, {'validation_library': mode})
            run = PL.run_model(I, proj)
            if run.result.var != 'Ok':
                return (mode, proj, 'error')
            base = 'C12/%s/%s' % (tag, mode)
            wit = lambda m, proj=proj, mode=mode: C.witness_of(proj, m, dict(mode=mode, expected=[[PL.concretize_str(m, n), (S.show(s, m) if s else None)] for n, s in expected]))
            try:
                ls, exported = self.read_listeners(run.outputs)
            except TS.Reject as r:
                ctx.violation(e, base + '/unreadable', 'events.ts / index.ts can be read back', True, wit, r.what)
                return (mode, proj, 'unreadable')
            if not expected:
                if ls is not None or './events' in exported:
                    ctx.violation(e, base + '/spurious-module', 'no events => no events module and no re-export', True, wit, 'events.ts written without events')
                return (mode, proj, 'ok')
            if ls is None:
                ctx.violation(e, base + '/missing-module', 'events module written and re-exported', True, wit, 'no events.ts')
                return (mode, proj, 'missing')
            if './events' not in exported:
                ctx.violation(e, base + '/not-reexported', 'index.ts re-exports ./events', True, wit, str(exported))
            show = lambda m: 'listeners %s expected %s' % ([(PL.concretize_str(m, l['fn']), PL.concretize_str(m, l['event'])) for l in ls],
                                                          [PL.concretize_str(m, n) for n, _ in expected])
            # exactly one listener per distinct expected name, none for anything else
            for (nm, shp) in expected:
                hits = [l for l in ls if e.decide(V.str_eq(l['event'], nm))]
                if len(hits) == 0:
                    ctx.violation(e, base + '/missing-listener', 'every emitted event has a listener subscribed to exactly its name', True, wit, show)
                elif len(hits) > 1:
                    ctx.violation(e, base + '/duplicate-listener', 'exactly one listener per distinct event name', True, wit, show)
                else:
                    l = hits[0]
                    try:
                        got = S.norm(S.ts_shape(l['payload']))
                        gen = S.norm(S.ts_shape(l['generic'])) if l['generic'] is not None else None
                    except Exception:
                        got = ('other', 'unreadable')
                        gen = None
                    if shp is not None:
                        okp = S.shape_eq(got, shp)
                        ctx.violation(e, base + '/payload-type', 'payload type is the translation of the evident Rust type, else unknown',
                                      z_not(okp) if not isinstance(okp, bool) else not okp, wit,
                                      lambda m, got=got, shp=shp: 'payload %s expected %s' % (S.show(got, m), S.show(shp, m)))
                    if gen is not None:
                        okg = S.shape_eq(got, gen)
                        ctx.violation(e, base + '/payload-generic', 'listen<T> agrees with the handler payload type',
                                      z_not(okg) if not isinstance(okg, bool) else not okg, wit, 'listen<T> differs from handler type')
            extra = [l for l in ls if not any(e.decide(V.str_eq(l['event'], nm)) for nm, _ in expected)]
            if extra:
                ctx.violation(e, base + '/spurious-listener', 'no listener for anything that is not an emitted event', True, wit, show)
            # identifiers pairwise distinct
            for i in range(len(ls)):
                for j in range(i + 1, len(ls)):
                    same = V.str_eq(ls[i]['fn'], ls[j]['fn'])
                    ctx.violation(e, base + '/identifier-collision', 'listener function identifiers are pairwise distinct', same, wit, show)
            return (mode, proj, 'ok')

        def end(e, outcome):
            if outcome[0] == 'panic':
                ctx.violation(e, 'C12/%s/panic' % kind, 'analysis does not panic', True, lambda m: dict(panic=outcome[1].msg), outcome[1].msg)
                return
            if outcome[0] != 'ok':
                return
            mode, proj, st = outcome[1]
            m = e.get_model()
            ctx.sample(dict(scenario=name, mode=mode, holes={k: PL.concretize_str(m, v) for k, v in proj.holes.items()}, status=st), 2)
            if ctx.rng.random() < 0.02:
                ctx.validated += 1
                w = C.witness_of(proj, m)
                rc, outs, err, _ = PL.run_native(w['files'], w['config'])
                if rc != 0:
                    ctx.mismatches.append(dict(op='generate', holes=w['holes'], rc=rc, err=err[-200:]))

        eng.explore(body, end)
        ctx.finish_engine(eng)

    def replay(self, f):
        w = f['witness']
        if 'files' not in w:
            return False
        rc, outs, err, _ = PL.run_native(w['files'], w['config'])
        kind = f['key'].rsplit('/', 1)[1]
        if kind == 'panic':
            return 'panicked' in err
        eng = H.E.Engine()
        V.set_engine(eng)
        outputs = {k: Str(v) for k, v in outs.items()}
        try:
            ls, exported = self.read_listeners(outputs)
        except (TS.Reject, KeyError):
            return kind == 'unreadable'
        exp = w['expected']
        if kind == 'unreadable':
            return False
        if kind == 'spurious-module':
            return ls is not None or './events' in exported
        if kind == 'missing-module':
            return ls is None
        if ls is None:
            return False
        if kind == 'not-reexported':
            return './events' not in exported
        names = [l['event'].py() for l in ls]
        fns = [l['fn'].py() for l in ls]
        want = [n for n, _ in exp]
        if kind == 'missing-listener':
            return any(n not in names for n in want)
        if kind == 'duplicate-listener':
            return any(names.count(n) > 1 for n in want)
        if kind == 'spurious-listener':
            return any(n not in want for n in names)
        if kind == 'identifier-collision':
            return len(set(fns)) != len(fns)
        if kind in ('payload-type', 'payload-generic'):
            for l in ls:
                got = S.show(S.norm(S.ts_shape(l['payload'])))
                for n, s in exp:
                    if n == l['event'].py() and s is not None and kind == 'payload-type' and got != s:
                        return True
                if kind == 'payload-generic' and l['generic'] is not None and S.show(S.norm(S.ts_shape(l['generic']))) != got:
                    return True
            return False
        return False

    def mutants(self):
        def no_else(prog):
            fd = M.find_fn(prog, 'EventParser::extract_events_from_expr')
            if fd is None:
                return False
            done = [False]

            def f(node):
                if node.get('_') == 'Expr::If' and node.get('else_branch', {}).get('_') == 'Some' and not done[0]:
                    # the `if let Some((_, else_branch))` inside the Expr::If arm: drop it
                    return False
            # simpler: rename the emit_to method string so emit_to is no longer recognised
            fd2 = M.find_fn(prog, 'EventParser::handle_method_call')
            return fd2 is not None and M.replace_str_lit(fd2, 'emit_to', 'emit_too')

        def while_skipped(prog):
            fd = M.find_fn(prog, 'EventParser::extract_events_from_expr')
            if fd is None:
                return False
            arms = None

            def f(node):
                nonlocal arms
                if node.get('_') == 'Expr::Match' and arms is None:
                    arms = node['arms']
            M.walk(fd.body, f)
            if not arms:
                return False
            for i, a in enumerate(arms):
                pat = a['pat']
                if pat['_'] == 'Pat::TupleStruct' and pat['path']['segments'][-1]['ident']['sym'] == 'While':
                    del arms[i]
                    return True
            return False

        def payload_i64(prog):
            fd = M.find_fn(prog, 'EventParser::infer_payload_type')
            return fd is not None and M.replace_str_lit(fd, 'String', 'Strin')
        return [('emit_to-not-recognised', no_else), ('while-body-not-searched', while_skipped), ('string-literal-payload-mistyped', payload_i64)]

    quick_mutants = 2


if __name__ == '__main__':
    sys.exit(H.main(C12()))
