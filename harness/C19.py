"""C19 -- configuration is preserved, round-trips, and obeys flag > file > default.

  preserve   : save_to_tauri_config over a symbolic JSON document (symbolic keys -- long enough to be
               "plugins"/"typegen" --, symbolic strings and integers, nested objects/arrays) with symbolic
               settings; every key path outside plugins.typegen keeps its value, plugins.typegen holds the
               settings, and from_tauri_config reads the same settings back.
  precedence : run_generate / the build script over every subset of --project-path/--output-path/
               --validation/--verbose with file values present or absent; the output lands in the
               directory, comes from the project and carries the mode that flag > file > default dictates;
               unsupported validation libraries (symbolic strings) and missing project paths are rejected
               with an empty effect log.
  init       : run_init writes exactly the requested settings next to the preserved rest of the document,
               and rejects bad settings before writing anything."""
import sys
import z3

from rsx import harness as H, values as V, interp as IP, sym, pipeline as PL, mutate as M
from rsx.values import Str, Struct, Enum, Vec, HMap, Some, mk_none, deref, Opaque
from rsx.engine import Inconclusive, PathAbort, z_and, z_or, z_not, is_sym
from rsx.models import fs as FS
from rsx.models import json as J
from harness import common as C
from harness import fsx as X

KEY_ALPHABET = 'abcdefghijklmnopqrstuvwxyzABCDEFGHIJKLMNOPQRSTUVWXYZ_-$. "\\é中'
VAL_ALPHABET = KEY_ALPHABET + '/:'
CMD = '#[tauri::command]\npub fn %s(x: i32) -> i32 { x }\n'


def sym_int(name):
    v = z3.Int(name)
    V.ENG.assume(z3.And(v >= -(2 ** 63), v <= 2 ** 64 - 1))
    return v


def jget(j, key):
    """member of a JSON object value by (possibly symbolic) key; None if absent on this path"""
    j = deref(j)
    if j.var != 'Object':
        return None
    for k, v in j.vals[0].items:
        if V.ENG.decide(V.str_eq(deref(k), key if isinstance(key, Str) else Str(key))):
            return deref(v)
    return None


def jeq(a, b):
    """condition: two JSON values are equal"""
    a, b = deref(a), deref(b)
    if a.var != b.var:
        return False
    if a.var in ('Null',):
        return True
    if a.var in ('Bool', 'Number', 'String'):
        return V.sym_eq(a.vals[0], b.vals[0])
    if a.var == 'Array':
        xs, ys = a.vals[0].v, b.vals[0].v
        if len(xs) != len(ys):
            return False
        return z_and(*[jeq(x, y) for x, y in zip(xs, ys)])
    xs, ys = a.vals[0].items, b.vals[0].items
    if len(xs) != len(ys):
        return False
    conds = []
    for k, v in xs:
        w = jget(b, deref(k))
        if w is None:
            return False
        conds.append(jeq(v, w))
    return z_and(*conds)


def jshow(m, j):
    j = deref(j)
    if j.var == 'Null':
        return None
    if j.var == 'Bool':
        x = j.vals[0]
        return bool(m.eval(x, model_completion=True)) if is_sym(x) else bool(x)
    if j.var == 'Number':
        x = j.vals[0]
        if isinstance(x, V.Float):
            return x.v
        return m.eval(x, model_completion=True).as_long() if is_sym(x) else int(x)
    if j.var == 'String':
        return PL.concretize_str(m, j.vals[0])
    if j.var == 'Array':
        return [jshow(m, x) for x in j.vals[0].v]
    return {PL.concretize_str(m, deref(k)): jshow(m, v) for k, v in j.vals[0].items}


class C19(H.Check):
    id = 'C19'
    title = 'Configuration is preserved, round-trips, and obeys flag > file > default'
    required_covers = ('doc:plugins-absent', 'doc:plugins-object', 'doc:plugins-with-typegen', 'doc:plugins-not-object', 'doc:symbolic-key-is-plugins',
                       'prec:flag', 'prec:file', 'prec:default', 'reject:validation', 'reject:project-path', 'file:wrongly-typed-optional-key', 'init:ok', 'init:rejected', 'build:file', 'build:default')

    def bounds(self, tier):
        q = tier != 'thorough'
        return {'documents': 'root object with up to %d members besides an optional "plugins" member; member keys symbolic with lengths in {1, 7} (7 reaches "plugins" and, one level down, '
                             '"typegen") over letters, punctuation, quote, backslash and non-ASCII; values: symbolic string (2 chars incl. quote/backslash/non-ASCII), symbolic integer in '
                             '[-2^63, 2^64-1], booleans, null, a decimal, arrays and objects nested 2 deep; "plugins": absent / object without typegen / object with an old typegen entry / object '
                             'with a symbolic 7-char key / null / array / string' % (2 if q else 3),
                'settings': 'project path and output path symbolic (3 chars), validation library in {none, zod}, verbose / visualize_deps / include_private / force each None, Some(false), Some(true); '
                            'type mappings absent or one symbolic pair; exclude/include patterns absent or one symbolic entry',
                'precedence': 'flags: every subset of {--project-path, --output-path, --validation, --verbose}; file: each of the four settings present or absent; validation values none, zod and a '
                              'symbolic 3..4 character string; project paths existing and missing; CLI and build script',
                'init': 'tauri.conf.json (existing with other plugins, missing), custom file; validation none/zod/symbolic; project path existing/missing'}

    def outside(self):
        return ["serde_json's own text<->value conversion (the document enters and leaves the code under test as a serde_json::Value; printing then parsing a value is assumed to be the identity: "
                'this excludes integers beyond u64/i64 and decimals that f64 cannot represent exactly, which serde_json rounds)', 'documents whose root is not an object',
                'key order and whitespace of the rewritten document', 'more than 3 extra members per object']

    def assumptions(self):
        return ['serde_json::from_str(serde_json::to_string_pretty(v)) == v', 'Map<String, Value> has set semantics on keys (insert replaces)']

    def scenarios(self, tier):
        q = tier != 'thorough'
        for pv in ('absent', 'object', 'typegen', 'symkey', 'null', 'array', 'string'):
            for shape in range(4 if q else 8):
                yield ('preserve/%s/%d' % (pv, shape), dict(kind='preserve', plugins=pv, shape=shape))
        yield ('roundtrip/all-settings', dict(kind='preserve', plugins='object', shape=5, full=True))
        for flags in range(16):
            yield ('precedence/cli/%d' % flags, dict(kind='prec', path='cli', flags=flags))
        yield ('precedence/build', dict(kind='prec', path='build', flags=0))
        for v in range(6):
            yield ('init/%d' % v, dict(kind='init', v=v))

    def mutant_scenarios(self, tier, name):
        for j in self.scenarios('quick'):
            if j[0] in ('preserve/object/0', 'preserve/typegen/1', 'preserve/absent/0', 'precedence/cli/4', 'precedence/cli/1', 'precedence/cli/5', 'precedence/cli/0', 'init/0'):
                yield j

    # ------------------------------------------------------------------------------------------
    def sym_value(self, e, tag, shape, depth=0):
        k = (shape + depth) % 6
        if k == 0:
            return J.jstr(sym.sym_str(tag + 's', 2, VAL_ALPHABET))
        if k == 1:
            return J.jnum(sym_int(tag + 'i'))
        if k == 2:
            return J.jarr([J.jnum(sym_int(tag + 'a')), J.jobj([(sym.sym_str(tag + 'ak', 1, KEY_ALPHABET), J.jbool(True))]), J.jnull()])
        if k == 3:
            if depth >= 2:
                return J.jbool(False)
            return J.jobj([(sym.sym_str(tag + 'k', 7, KEY_ALPHABET), self.sym_value(e, tag + 'n', shape + 1, depth + 1)), (Str('fixed'), J.jnum(V.Float(1.5, '1.5')))])
        if k == 4:
            return J.jnull()
        return J.jnum(V.Float(0.1, '0.1'))

    def sym_settings(self, e, I, projdir, full=False):
        cfg = I.call_path('GenerateConfig::default', [])
        cfg.f['project_path'] = projdir
        cfg.f['output_path'] = sym.sym_str('op', 3, VAL_ALPHABET)
        cfg.f['validation_library'] = Str(('none', 'zod')[e.choose(2)])
        if full:
            picks = [e.choose(3) for _ in range(4)]
            extra = e.choose(4)
        else:
            # one rotation of None / Some(false) / Some(true) over the four flags, one of the optional collections
            r = e.choose(3)
            picks = [(r + i) % 3 for i in range(4)]
            extra = (r + 1) % 4
        for fld, v in zip(('verbose', 'visualize_deps', 'include_private', 'force'), picks):
            cfg.f[fld] = mk_none() if v == 0 else Some(v == 2)
        if extra == 1:
            cfg.f['type_mappings'] = Some(HMap([[sym.sym_str('mk', 2, KEY_ALPHABET), sym.sym_str('mv', 2, VAL_ALPHABET)]]))
        elif extra == 2:
            cfg.f['exclude_patterns'] = Some(Vec([sym.sym_str('ex', 2, VAL_ALPHABET)]))
        elif extra == 3:
            cfg.f['include_patterns'] = Some(Vec([sym.sym_str('in', 2, VAL_ALPHABET), Str('src/**')]))
        return cfg

    def run_preserve(self, ctx, name, p):
        I = IP.Interp(ctx.prog)
        eng = ctx.engine(max_paths=40000, max_seconds=900)

        J.SORT_SYMBOLIC_KEYS = False
        J.ESCAPE_SYMBOLIC = False

        def body(e):
            e.order_mode = 'insertion'
            # the project directory the settings point to must exist (from_tauri_config validates it)
            pd = sym.sym_str('pp', 3, 'abcdefghijklmnopqrstuvwxyz_-')
            w = FS.World()
            w.cwd = Str('/w')
            w.add_dir('/w')
            w.add_dir(Str('/w/').concat(pd))
            I.fs = w
            V.CALL_STACK.clear()
            nmem = 1 + (p['shape'] % 2) if ctx.tier != 'thorough' else 1 + (p['shape'] % 3)
            members = []
            keys = []
            for i in range(nmem):
                klen = 7 if (p['shape'] + i) % 2 == 0 else 1
                k = sym.sym_str('k%d' % i, klen, KEY_ALPHABET)
                for kk in keys:
                    if len(kk.cs) == len(k.cs):
                        e.assume(z_not(V.str_eq(k, kk)))
                keys.append(k)
                members.append((k, self.sym_value(e, 'v%d' % i, p['shape'] + i)))
            pv = p['plugins']
            old_typegen = J.py_to_value({'projectPath': './old', 'outputPath': './old-out', 'validationLibrary': 'zod', 'extraKey': [1, 2]})
            plug = None
            if pv == 'object':
                plug = J.jobj([(Str('shell'), J.py_to_value({'open': True})), (sym.sym_str('pk', 3, KEY_ALPHABET), self.sym_value(e, 'pv', p['shape'] + 2))])
            elif pv == 'typegen':
                plug = J.jobj([(Str('typegen'), old_typegen), (Str('updater'), self.sym_value(e, 'pu', p['shape'] + 3))])
            elif pv == 'symkey':
                plug = J.jobj([(sym.sym_str('pk', 7, KEY_ALPHABET), self.sym_value(e, 'pv', p['shape'] + 1)), (Str('fs'), J.jnull())])
            elif pv == 'null':
                plug = J.jnull()
            elif pv == 'array':
                plug = J.jarr([J.jstr(Str('x'))])
            elif pv == 'string':
                plug = J.jstr(sym.sym_str('ps', 2, VAL_ALPHABET))
            if plug is not None:
                for kk in keys:
                    if len(kk.cs) == 7:
                        e.assume(z_not(V.str_eq(kk, Str('plugins'))))
                members.append((Str('plugins'), plug))
            doc = J.jobj(members)
            # which role does "plugins" play on this path?
            pl_in = jget(doc, 'plugins')
            if plug is None and pl_in is not None:
                e.cover('doc:symbolic-key-is-plugins')
            if pl_in is None:
                e.cover('doc:plugins-absent')
            elif pl_in.var != 'Object':
                e.cover('doc:plugins-not-object')
            elif jget(pl_in, 'typegen') is not None:
                e.cover('doc:plugins-with-typegen')
            else:
                e.cover('doc:plugins-object')
            before = V.deep_clone(doc)
            w.add_file('/w/tauri.conf.json', J.json_doc_text(doc))
            cfg = self.sym_settings(e, I, pd, full=p.get('full', False))

            def wit(m):
                return dict(kind='preserve', doc=jshow(m, before), settings=jshow(m, J.to_value(I, cfg)), project_dir=PL.concretize_str(m, pd))
            r = deref(I.call_path('GenerateConfig::save_to_tauri_config', [FS.mkpath(Str('/w/tauri.conf.json'))], self_val=cfg))
            base = 'C19/preserve/%s' % ('plugins-' + pv)
            if r.var != 'Ok':
                # refusing to write is acceptable only if nothing was written
                if w.log:
                    ctx.violation(e, base + '/error-after-write', 'a refused save leaves the document untouched', True, wit, X.err_text(r))
                return ('refused', None)
            after_txt = w.find(Str('/w/tauri.conf.json'))[2]
            pr = J.parse_text(I, after_txt)
            if pr.var != 'Ok':
                ctx.violation(e, base + '/unparsable', 'the rewritten document is JSON', True, wit, '')
                return ('bad', None)
            after = deref(pr.vals[0])
            show = lambda m: 'before=%s after=%s' % (X.json.dumps(jshow(m, before), ensure_ascii=False)[:300], X.json.dumps(jshow(m, after), ensure_ascii=False)[:300])
            # every member outside plugins.typegen keeps its value
            for k, v in before.vals[0].items:
                k = deref(k)
                is_plugins = e.decide(V.str_eq(k, Str('plugins')))
                got = jget(after, k)
                if got is None:
                    ctx.violation(e, base + '/member-lost', 'every other key of the document survives', True, wit, show)
                    continue
                if not is_plugins:
                    eq = jeq(v, got)
                    ctx.violation(e, base + '/member-changed', 'every other value of the document survives', (not eq) if isinstance(eq, bool) else z_not(eq), wit, show)
                    continue
                v = deref(v)
                if v.var != 'Object':
                    # a non-object "plugins" cannot hold the settings: it must not be silently kept while reporting success
                    continue
                for pk, pvv in v.vals[0].items:
                    pk = deref(pk)
                    if e.decide(V.str_eq(pk, Str('typegen'))):
                        continue
                    g2 = jget(got, pk)
                    if g2 is None:
                        ctx.violation(e, base + '/plugin-lost', 'other plugin sections survive', True, wit, show)
                        continue
                    eq = jeq(pvv, g2)
                    ctx.violation(e, base + '/plugin-changed', 'other plugin sections keep their values', (not eq) if isinstance(eq, bool) else z_not(eq), wit, show)
            # reading back yields the settings that were written
            rb = deref(I.call_path('GenerateConfig::from_tauri_config', [FS.mkpath(Str('/w/tauri.conf.json'))]))
            if rb.var != 'Ok' or deref(rb.vals[0]).var != 'Some':
                ctx.violation(e, base + '/not-read-back', 'after a successful save the settings can be read back', True, wit,
                              lambda m: 'from_tauri_config returned %s; %s' % ('an error' if rb.var != 'Ok' else 'None', show(m)))
                return ('ok', None)
            got = deref(deref(rb.vals[0]).vals[0])
            for fld in ('project_path', 'output_path', 'validation_library'):
                eq = V.sym_eq(deref(got.f[fld]), deref(cfg.f[fld]))
                ctx.violation(e, base + '/roundtrip:' + fld, 'reading back yields the written setting', (not eq) if isinstance(eq, bool) else z_not(eq), wit, show)
            for fld in ('verbose', 'visualize_deps', 'include_private', 'force'):
                a, b = deref(got.f[fld]), deref(cfg.f[fld])
                ea = deref(a.vals[0]) if a.var == 'Some' else False
                eb = deref(b.vals[0]) if b.var == 'Some' else False
                if bool(ea) != bool(eb):
                    ctx.violation(e, base + '/roundtrip:' + fld, 'reading back yields the written (effective) setting', True, wit, show)
            for fld in ('type_mappings', 'exclude_patterns', 'include_patterns'):
                a, b = deref(got.f[fld]), deref(cfg.f[fld])
                if a.var != b.var:
                    ctx.violation(e, base + '/roundtrip:' + fld, 'reading back yields the written setting', True, wit, show)
                elif a.var == 'Some':
                    eq = V.sym_eq(deref(a.vals[0]), deref(b.vals[0]))
                    ctx.violation(e, base + '/roundtrip:' + fld, 'reading back yields the written setting', (not eq) if isinstance(eq, bool) else z_not(eq), wit, show)
            return ('ok', None)

        eng.explore(body, lambda e, o: ctx.sample(dict(scenario=name, outcome=o[1][0] if o[0] == 'ok' else o[0]), 1))
        ctx.finish_engine(eng)

    # ------------------------------------------------------------------------------------------
    def prec_world(self, I, file_settings, with_conf=True):
        """three projects and three possible output locations around the cwd /w/app"""
        w = FS.World()
        w.cwd = Str('/w/app')
        for d in ('/w', '/w/app', '/w/app/src', '/w/app/src-tauri', '/w/app/src-tauri/src', '/w/app/byfile', '/w/app/byfile/src', '/w/app/byflag', '/w/app/byflag/src'):
            w.add_dir(d)
        files = {'/w/app/src-tauri/src/lib.rs': ('dflt', CMD % 'from_default'), '/w/app/byfile/src/lib.rs': ('file', CMD % 'from_file'),
                 '/w/app/byflag/src/lib.rs': ('flag', CMD % 'from_flag')}
        proj = PL.Project({k: v[1] for k, v in files.items()}, {}, {})
        for pth in files:
            w.add_file(pth, Str((Opaque('src', pth),)))
        if with_conf:
            w.add_file('/w/app/tauri.conf.json', J.json_doc_text(J.py_to_value({'productName': 'app', 'plugins': {'typegen': file_settings}})
                                                                 if file_settings is not None else J.py_to_value({'productName': 'app'})))
        I.fs = w
        I.hooks['syn::parse_file'] = proj.parse_hook()
        V.CALL_STACK.clear()
        return w

    def run_prec(self, ctx, name, p):
        J.SORT_SYMBOLIC_KEYS = True
        J.ESCAPE_SYMBOLIC = True
        I = IP.Interp(ctx.prog)
        eng = ctx.engine(max_paths=40000, max_seconds=900)
        path = p['path']
        flags = p['flags']

        def body(e):
            e.order_mode = 'insertion'
            f_pp, f_op, f_vl, f_vb = bool(flags & 1), bool(flags & 2), bool(flags & 4), bool(flags & 8)
            # file side: each setting present or absent
            fs = {}
            has_file = bool(e.choose(2)) if path == 'cli' else bool(e.choose(2))
            file_pp = file_op = file_vl = file_vb = False
            if has_file:
                file_pp, file_op, file_vl, file_vb = [bool(e.choose(2)) for _ in range(4)]
            if file_pp:
                fs['projectPath'] = './byfile'
            if file_op:
                fs['outputPath'] = './out-file'
            vl_file = None
            if file_vl:
                v = e.choose(3)
                vl_file = ['none', 'zod', None][v]
                if vl_file is None:
                    vl_file = sym.sym_str('vf', 3, 'abcdefghijklmnopqrstuvwxyzZODNE ')
                    e.assume(z_not(V.str_eq(vl_file, Str('zod'))))
                fs['validationLibrary'] = vl_file
            if file_vb:
                fs['verbose'] = True
            # an optional key of the wrong JSON type next to the settings that matter: it does not take the rest of the section with it
            junk = None
            if has_file and e.choose(3) == 0:
                junk = [('excludePatterns', 'target'), ('typeMappings', ['x']), ('includePatterns', {'a': 1})][e.choose(3)]
                fs[junk[0]] = junk[1]
                e.cover('file:wrongly-typed-optional-key')
            # a missing project path on the winning side
            missing = bool(e.choose(2)) and (f_pp or file_pp)
            flag_pp = './byflag'
            if missing:
                if f_pp:
                    flag_pp = './nowhere'
                else:
                    fs['projectPath'] = './nowhere'
            vl_flag = None
            if f_vl:
                v = e.choose(3)
                vl_flag = ['none', 'zod', None][v]
                if vl_flag is None:
                    vl_flag = sym.sym_str('vg', 4, 'abcdefghijklmnopqrstuvwxyzZODNE ')
                    e.assume(z_not(V.str_eq(vl_flag, Str('none'))))

            def tgdoc():
                d = {}
                for k, v in fs.items():
                    d[k] = v
                return d
            conf = None
            if has_file:
                conf = J.jobj([(Str(k), (J.jstr(v) if isinstance(v, Str) else J.py_to_value(v))) for k, v in fs.items()])
            w = self.prec_world(I, None, with_conf=False)
            if has_file:
                w.add_file('/w/app/tauri.conf.json', J.json_doc_text(J.jobj([(Str('productName'), J.jstr(Str('app'))), (Str('plugins'), J.jobj([(Str('typegen'), conf)]))])))
            else:
                w.add_file('/w/app/tauri.conf.json', J.json_doc_text(J.py_to_value({'productName': 'app'})))
            printed = []
            I.stdout_sink = lambda nm, s: printed.append(s)

            def wit(m):
                c = lambda x: PL.concretize_str(m, x) if isinstance(x, Str) else x
                return dict(kind='prec', path=path, file=None if not has_file else {k: c(v) for k, v in fs.items()},
                            flags=dict(project_path=flag_pp if f_pp else None, output_path='./out-flag' if f_op else None, validation=c(vl_flag) if f_vl else None, verbose=f_vb))

            if path == 'cli':
                box = X.Box.__new__(X.Box)
                box.I, box.w, box.marks = I, w, []
                box.proj = None
                box.marks.append(len(w.log))
                a = [Some(FS.mkpath(Str(flag_pp))) if f_pp else mk_none(), Some(FS.mkpath(Str('./out-flag'))) if f_op else mk_none(),
                     Some(vl_flag if isinstance(vl_flag, Str) else Str(vl_flag)) if f_vl else mk_none(), f_vb, False, mk_none(), False]
                r = deref(I.call_path('run_generate', a))
            else:
                r = deref(I.call_path('BuildSystem::generate_at_build_time', []))
            I.stdout_sink = None
            eff = list(w.log)
            # expectations
            exp_pp = (flag_pp if f_pp else (fs.get('projectPath') if file_pp or (missing and not f_pp) else './src-tauri'))
            exp_op = './out-flag' if f_op else ('./out-file' if file_op else './src/generated')
            exp_vl = vl_flag if f_vl else (vl_file if file_vl else 'none')
            exp_vb = f_vb or file_vb
            e.cover('prec:flag' if (f_pp or f_op or f_vl) else ('prec:file' if (file_pp or file_op or file_vl) else 'prec:default'))
            if path == 'build':
                e.cover('build:file' if has_file else 'build:default')
            base = 'C19/precedence/%s' % path
            bad_vl = isinstance(exp_vl, Str)
            bad_pp = exp_pp == './nowhere'
            if bad_vl or bad_pp:
                e.cover('reject:validation' if bad_vl else 'reject:project-path')
                # from_tauri_config validates the *file* values on load: an invalid file value that a flag overrides makes the loader fall back to defaults (see below)
                if X.is_ok(r):
                    ctx.violation(e, base + '/accepted-%s' % ('validation' if bad_vl else 'project-path'), 'an unsupported validation library / missing project path is rejected', True, wit,
                                  'run returned Ok')
                elif eff:
                    ctx.violation(e, base + '/wrote-before-reject', 'a rejected configuration writes nothing', True, wit, repr([(op, pp.py()) for op, pp, _ in eff][:4]))
                return ('rejected', None)
            # a file value that is invalid on its own but overridden by a flag: the tool may refuse the file (error, nothing written) or honour the rest of it
            file_invalid = (file_vl and isinstance(vl_file, Str)) or fs.get('projectPath') == './nowhere'
            if file_invalid and not X.is_ok(r):
                if eff:
                    ctx.violation(e, base + '/wrote-before-reject', 'a rejected configuration writes nothing', True, wit, repr([(op, pp.py()) for op, pp, _ in eff][:4]))
                return ('rejected', None)
            if not X.is_ok(r):
                ctx.violation(e, base + '/valid-config-rejected', 'a valid combination of flags and file settings runs', True, wit, X.err_text(r))
                return ('err', None)
            out_abs = '/w/app/' + exp_op[2:]
            cmds = w.find(Str(out_abs + '/commands.ts'))
            types = w.find(Str(out_abs + '/types.ts'))
            others = [pp.py() for op, pp, _ in eff if op in ('create', 'overwrite') and not pp.py().startswith(out_abs + '/')]
            if cmds is None or others:
                ctx.violation(e, base + '/output-path', 'the output lands where flag > file > default says', True, wit, 'expected %s, effects %s' % (out_abs, sorted(set(pp.py() for _, pp, _ in eff))[:5]))
                return ('ok', None)
            want_cmd = {'./byflag': 'from_flag', './byfile': 'from_file', './src-tauri': 'from_default'}[exp_pp]
            txt = PL.text_of(cmds[2]) or ''
            if ("'%s'" % want_cmd) not in txt and ('"%s"' % want_cmd) not in txt:
                ctx.violation(e, base + '/project-path', 'the project scanned is the one flag > file > default says', True, wit, 'expected command %s in commands.ts' % want_cmd)
            ttxt = PL.text_of(types[2]) or ''
            is_zod = "from 'zod'" in ttxt or 'from "zod"' in ttxt
            if is_zod != (exp_vl == 'zod'):
                ctx.violation(e, base + '/validation', 'the mode is the one flag > file > default says', True, wit, 'expected %s' % exp_vl)
            if path == 'cli':
                said = any((s.py() or '').startswith('\U0001F504 Changes detected') for s in printed)
                if said != exp_vb:
                    ctx.violation(e, base + '/verbose', 'verbosity is flag or file', True, wit, 'expected verbose=%s' % exp_vb)
            return ('ok', None)

        eng.explore(body, lambda e, o: ctx.sample(dict(scenario=name, outcome=o[1][0] if o[0] == 'ok' else o[0]), 1))
        ctx.finish_engine(eng)

    # ------------------------------------------------------------------------------------------
    def run_init_s(self, ctx, name, p):
        J.SORT_SYMBOLIC_KEYS = False
        J.ESCAPE_SYMBOLIC = False
        I = IP.Interp(ctx.prog)
        eng = ctx.engine(max_paths=20000, max_seconds=600)
        v = p['v']

        def body(e):
            e.order_mode = 'insertion'
            w = self.prec_world(I, None, with_conf=False)
            rest = J.jobj([(Str('productName'), J.jstr(sym.sym_str('pn', 2, VAL_ALPHABET))), (Str('build'), J.py_to_value({'devUrl': 'http://localhost:1420', 'n': 18446744073709551615})),
                           (Str('plugins'), J.jobj([(Str('shell'), J.py_to_value({'open': True})), (sym.sym_str('pk', 7, KEY_ALPHABET), J.jnum(sym_int('pi')))]))])
            before = V.deep_clone(rest)
            args = dict(project_path='./byflag', generated_path='./gen-out', validation='none', conf='tauri.conf.json')
            expect_reject = None
            if v == 0:
                args['validation'] = ('none', 'zod')[e.choose(2)]
            elif v == 1:    # unsupported validation library
                vl = sym.sym_str('vl', 3, 'abcdefghijklmnopqrstuvwxyzZODNE ')
                e.assume(z_not(V.str_eq(vl, Str('zod'))))
                args['validation'] = vl
                expect_reject = 'validation'
            elif v == 2:    # project path does not exist (and so neither does its tauri.conf.json)
                args['project_path'] = './nowhere'
                expect_reject = 'project-path'
            elif v == 3:    # explicit tauri.conf.json elsewhere + missing project path
                args['project_path'] = './nowhere'
                args['conf'] = './byfile/tauri.conf.json'
                expect_reject = 'project-path'
            elif v == 4:    # custom (non-tauri) file with unsupported validation
                vl = sym.sym_str('vl', 4, 'abcdefghijklmnopqrstuvwxyzZODNE ')
                e.assume(z_not(V.str_eq(vl, Str('none'))))
                args['validation'] = vl
                args['conf'] = 'typegen.json'
                expect_reject = 'validation'
            else:           # custom file, all good
                args['conf'] = 'typegen.json'
            conf_abs = {'tauri.conf.json': '/w/app/byflag/tauri.conf.json' if args['project_path'] == './byflag' else '/w/app/nowhere/tauri.conf.json',
                        './byfile/tauri.conf.json': '/w/app/byfile/tauri.conf.json', 'typegen.json': '/w/app/typegen.json'}[args['conf']]
            if args['conf'] != 'typegen.json' and not conf_abs.startswith('/w/app/nowhere'):
                w.add_file(conf_abs, J.json_doc_text(rest))

            def wit(m):
                c = lambda x: PL.concretize_str(m, x) if isinstance(x, Str) else x
                return dict(kind='init', v=v, args={k: c(x) for k, x in args.items()}, doc=jshow(m, before), conf_abs=conf_abs)
            V.CALL_STACK.clear()
            vl = args['validation']
            r = deref(I.call_path('run_init', [Some(FS.mkpath(Str(args['project_path']))), Some(FS.mkpath(Str(args['generated_path']))),
                                               Some(FS.mkpath(Str(args['conf']))) if args['conf'] != 'tauri.conf.json' else mk_none(),
                                               Some(vl if isinstance(vl, Str) else Str(vl)), False, False, False]))
            eff = list(w.log)
            base = 'C19/init'
            if expect_reject:
                e.cover('init:rejected')
                if X.is_ok(r):
                    ctx.violation(e, base + '/accepted-' + expect_reject, 'init rejects an unsupported validation library / missing project path', True, wit, 'run_init returned Ok')
                if eff:
                    ctx.violation(e, base + '/wrote-before-reject:' + expect_reject, 'a rejected init writes nothing', True, wit, repr([(op, pp.py()) for op, pp, _ in eff][:4]))
                return ('rejected', None)
            e.cover('init:ok')
            if not X.is_ok(r):
                ctx.violation(e, base + '/valid-init-rejected', 'a valid init succeeds', True, wit, X.err_text(r))
                return ('err', None)
            ent = w.find(Str(conf_abs))
            if ent is None:
                ctx.violation(e, base + '/config-not-written', 'init writes the configuration file it was pointed at', True, wit, conf_abs)
                return ('ok', None)
            pr = J.parse_text(I, ent[2])
            after = deref(pr.vals[0])
            show = lambda m: 'after=%s' % X.json.dumps(jshow(m, after), ensure_ascii=False)[:400]
            if args['conf'] != 'typegen.json':
                for k, val in before.vals[0].items:
                    k = deref(k)
                    got = jget(after, k)
                    if got is None:
                        ctx.violation(e, base + '/member-lost', 'init preserves the rest of tauri.conf.json', True, wit, show)
                    elif k.py() != 'plugins':
                        eq = jeq(val, got)
                        ctx.violation(e, base + '/member-changed', 'init preserves the rest of tauri.conf.json', (not eq) if isinstance(eq, bool) else z_not(eq), wit, show)
                    else:
                        for pk, pvv in deref(val).vals[0].items:
                            pk = deref(pk)
                            if e.decide(V.str_eq(pk, Str('typegen'))):
                                continue
                            g2 = jget(got, pk)
                            eq = jeq(pvv, g2) if g2 is not None else False
                            ctx.violation(e, base + '/plugin-changed', 'init preserves other plugin sections', (not eq) if isinstance(eq, bool) else z_not(eq), wit, show)
                tg = jget(jget(after, 'plugins'), 'typegen')
                want = {'projectPath': args['project_path'], 'outputPath': args['generated_path'], 'validationLibrary': vl}
            else:
                tg = after
                want = {'project_path': args['project_path'], 'output_path': args['generated_path'], 'validation_library': vl}
            for k, x in want.items():
                got = jget(tg, k) if tg is not None else None
                if got is None or got.var != 'String' or got.vals[0].py() != x:
                    ctx.violation(e, base + '/settings-not-written', 'the file holds the requested settings', True, wit, show)
            return ('ok', None)

        eng.explore(body, lambda e, o: ctx.sample(dict(scenario=name, outcome=o[1][0] if o[0] == 'ok' else o[0]), 1))
        ctx.finish_engine(eng)

    def run_scenario(self, ctx, name, p):
        return {'preserve': self.run_preserve, 'prec': self.run_prec, 'init': self.run_init_s}[p['kind']](ctx, name, p)

    # ------------------------------------------------------------------------------------------
    def replay(self, f):
        w = f['witness']
        cls = f['key'].rsplit('/', 1)[1]
        import os, subprocess, tempfile, shutil, json
        if w['kind'] == 'preserve':
            # the unit is driven through `init`, the only CLI entry to save_to_tauri_config: project path = settings.project_path
            return self.replay_preserve(w, cls)
        base = os.path.join(H.CACHE, 'tmp')
        os.makedirs(base, exist_ok=True)
        d = tempfile.mkdtemp(prefix='c19', dir=base)
        try:
            app = os.path.join(d, 'app')
            for pd, fn in (('src-tauri', 'from_default'), ('byfile', 'from_file'), ('byflag', 'from_flag')):
                os.makedirs(os.path.join(app, pd, 'src'))
                open(os.path.join(app, pd, 'src', 'lib.rs'), 'w').write(CMD % fn)
            os.makedirs(os.path.join(app, 'src'))
            if w['kind'] == 'prec':
                doc = {'productName': 'app'}
                if w['file'] is not None:
                    doc['plugins'] = {'typegen': w['file']}
                json.dump(doc, open(os.path.join(app, 'tauri.conf.json'), 'w'))
                fl = w['flags']
                if w['path'] == 'cli':
                    cmd = [PL.CLI, 'tauri-typegen', 'generate']
                    if fl['project_path']:
                        cmd += ['-p', fl['project_path']]
                    if fl['output_path']:
                        cmd += ['-o', fl['output_path']]
                    if fl['validation'] is not None:
                        cmd += ['--validation', fl['validation']]
                    if fl['verbose']:
                        cmd += ['--verbose']
                else:
                    cmd = [H.NATIVE_BIN, 'build-run']
                before = X.snapshot_dir(d)
                pr = subprocess.run(cmd, cwd=app, stdout=subprocess.PIPE, stderr=subprocess.PIPE)
                after = X.snapshot_dir(d)
                changed = sorted(k for k in set(before) | set(after) if before.get(k) != after.get(k))
                out = pr.stdout.decode('utf-8', 'replace')
                if cls.startswith('accepted-'):
                    return pr.returncode == 0
                if cls == 'wrote-before-reject':
                    return pr.returncode != 0 and bool(changed)
                if cls == 'file-dropped':
                    pass
                if cls == 'valid-config-rejected':
                    return pr.returncode != 0
                if pr.returncode != 0:
                    return False
                fs_ = w['file'] or {}
                exp_op = fl['output_path'] or fs_.get('outputPath') or './src/generated'
                exp_pp = fl['project_path'] or fs_.get('projectPath') or './src-tauri'
                exp_vl = fl['validation'] if fl['validation'] is not None else fs_.get('validationLibrary', 'none')
                exp_vb = fl['verbose'] or bool(fs_.get('verbose'))
                rel = 'app/' + exp_op[2:]
                cm = after.get(rel + '/commands.ts')
                if cls == 'output-path':
                    return cm is None or any(not k.startswith(rel) for k in changed if not k.endswith('/'))
                if cm is None:
                    return False
                if cls == 'project-path':
                    want = {'./byflag': 'from_flag', './byfile': 'from_file', './src-tauri': 'from_default'}[exp_pp]
                    return ("'%s'" % want) not in cm and ('"%s"' % want) not in cm
                if cls == 'validation':
                    t = after.get(rel + '/types.ts') or ''
                    return (("from 'zod'" in t) or ('from "zod"' in t)) != (exp_vl == 'zod')
                if cls == 'verbose':
                    return ('Changes detected' in out) != exp_vb
                return False
            # init
            a = w['args']
            doc_path = os.path.join(d, w['conf_abs'][len('/w/'):])
            if a['conf'] != 'typegen.json' and '/nowhere/' not in w['conf_abs']:
                os.makedirs(os.path.dirname(doc_path), exist_ok=True)
                open(doc_path, 'w', encoding='utf-8').write(json.dumps(w['doc'], ensure_ascii=False))
            cmd = [PL.CLI, 'tauri-typegen', 'init', '-p', a['project_path'], '-g', a['generated_path'], '--validation', a['validation']]
            if a['conf'] != 'tauri.conf.json':
                cmd += ['-o', a['conf']]
            before = X.snapshot_dir(d)
            pr = subprocess.run(cmd, cwd=app, stdout=subprocess.PIPE, stderr=subprocess.PIPE)
            after = X.snapshot_dir(d)
            changed = sorted(k for k in set(before) | set(after) if before.get(k) != after.get(k))
            if cls.startswith('accepted-'):
                return pr.returncode == 0
            if cls.startswith('wrote-before-reject'):
                return pr.returncode != 0 and bool(changed)
            if cls == 'valid-init-rejected':
                return pr.returncode != 0
            if pr.returncode != 0 or not os.path.exists(doc_path):
                return cls == 'config-not-written' and pr.returncode == 0
            got = json.load(open(doc_path, encoding='utf-8'))
            if cls in ('member-lost', 'member-changed'):
                return any(k != 'plugins' and got.get(k) != v for k, v in w['doc'].items())
            if cls == 'plugin-changed':
                return any(k != 'typegen' and got.get('plugins', {}).get(k) != v for k, v in w['doc'].get('plugins', {}).items())
            if cls == 'settings-not-written':
                tg = got if a['conf'] == 'typegen.json' else got.get('plugins', {}).get('typegen', {})
                keys = ('project_path', 'output_path', 'validation_library') if a['conf'] == 'typegen.json' else ('projectPath', 'outputPath', 'validationLibrary')
                return [tg.get(k) for k in keys] != [a['project_path'], a['generated_path'], a['validation']]
            return False
        finally:
            shutil.rmtree(d, ignore_errors=True)

    def replay_preserve(self, w, cls):
        """through the native harness: op config_roundtrip {doc, settings} -> {saved: bool, doc_after, read_back}"""
        r = H.Native.get().call('config_roundtrip', doc=w['doc'], settings=w['settings'], project_dir=w['project_dir'])
        if 'ok' not in r:
            return False
        r = r['ok']
        before, s = w['doc'], w['settings']
        if cls == 'error-after-write':
            return (not r['saved']) and r['doc_after'] != before
        if not r['saved']:
            return False
        after = r['doc_after']
        if cls == 'unparsable':
            return after is None
        if cls in ('member-lost', 'member-changed'):
            return any(k != 'plugins' and (k not in after or after[k] != v) for k, v in before.items())
        if cls in ('plugin-lost', 'plugin-changed'):
            bp = before.get('plugins')
            if not isinstance(bp, dict):
                return False
            ap = after.get('plugins', {})
            return any(k != 'typegen' and (not isinstance(ap, dict) or k not in ap or ap[k] != v) for k, v in bp.items())
        rb = r['read_back']
        if cls == 'not-read-back':
            return rb is None
        if rb is None:
            return False
        fld = cls.split(':', 1)[1]
        if fld in ('verbose', 'visualize_deps', 'include_private', 'force'):
            return bool(rb.get(fld)) != bool(s.get(fld))
        return rb.get(fld) != s.get(fld)

    def mutants(self):
        def plugins_replaced(prog):
            # `if !tauri_obj.contains_key("plugins")` -> always: other plugin sections are wiped
            fd = M.find_fn(prog, 'GenerateConfig::save_to_tauri_config')
            return fd is not None and M.replace_str_lit(fd, 'plugins', 'plugin', count=1)

        def output_flag_ignored(prog):
            for fn in ('GenerateConfig::from_tauri_config_unvalidated', 'GenerateConfig::from_tauri_config'):
                fd = M.find_fn(prog, fn)
                if fd is not None and M.replace_str_lit(fd, 'outputPath', 'output_path'):
                    return True
            return False
        return [('plugins-section-recreated', plugins_replaced), ('file-output-path-not-read', output_flag_ignored)]

    quick_mutants = 2


if __name__ == '__main__':
    sys.exit(H.main(C19()))
