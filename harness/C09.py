"""C09 -- in Zod mode no schema is read before it is defined (DESIGN 4/C09)."""
import sys

from rsx import harness as H, values as V, interp as IP, sym, pipeline as PL, mutate as M
from rsx.values import Str, deref
from rsx.engine import Inconclusive, PathAbort, z_and, z_or, z_not
from rsx.readers import ts as TS
from harness import common as C
from harness import graphs as G
from harness import tsresolve as R
from harness.C07 import RESERVED_NAMES

DAGS = ['single', 'chain2', 'chain3', 'fan', 'diamond', 'tree', 'chain4', 'join', 'triangle', 'triangle-rev', 'kite']
SCOPE = {'TypeDependencyGraph::topological_sort_types', 'TypeDependencyGraph::topological_visit'}


def schema_order(outputs):
    """-> list of (name Str, [referenced schema names]) in file order, for every exported const of types.ts"""
    mod = TS.parse_module(outputs['types.ts'], 'types.ts')
    out = []
    for it in mod.items:
        if it.kind != 'Const':
            continue
        refs = []
        for (root, prop, pos) in R.value_ids(it.init):
            if len(root.cs) > 6 and root.cs[-6:] == Str('Schema').cs:
                refs.append(root)
        out.append((it.name, refs))
    return out


class C09(C.PipelineCheck):
    id = 'C09'
    title = 'In Zod mode no schema is read before it is defined'
    modes = ('zod',)
    required_covers = ('dag', 'edge-context', 'param-schema', 'two-files', 'event-root')

    def bounds(self, tier):
        q = tier != 'thorough'
        return {'graphs': 'acyclic shapes %s (<=4 types), root type name symbolic' % DAGS,
                'edges': 'every edge direct, or one distinguished edge through each of %d constructor contexts (depth <=2)' % len(G.EDGE_CTX),
                'schedules': 'every iteration order of every hash container inside topological_sort_types / topological_visit (the routines that fix the emission order); '
                             'insertion and reverse order for the containers iterated elsewhere',
                'commands': 'one or two commands whose parameter schemas reference the types'}

    def outside(self):
        return ['cyclic graphs (the property is conditional on acyclicity)', 'more than 4 types', 'all orders of containers outside the sorting routines']

    def assumptions(self):
        return ['a schema constant is read when its identifier occurs on the right-hand side of another top-level const initialiser (module evaluation is top to bottom)']

    def scenarios(self, tier):
        for shape in DAGS:
            if shape == 'kite' and tier != 'thorough':
                continue
            yield ('dag/%s' % shape, dict(kind='dag', shape=shape))
        for cx in G.EDGE_CTX:
            yield ('edge/%s' % cx, dict(kind='edge', ctx=cx))

    def mutant_scenarios(self, tier, name):
        for j in self.scenarios('quick'):
            if j[0] in ('dag/chain3', 'dag/diamond', 'edge/vec', 'edge/hmap-v'):
                yield j

    def run_scenario(self, ctx, name, p):
        I = IP.Interp(ctx.prog)
        eng = ctx.engine(max_paths=80000, max_seconds=1500)
        kind = p['kind']

        def body(e):
            e.order_mode = 'scoped'
            e.order_all_in = SCOPE
            e.order_fallback = ('insertion', 'reverse')[e.choose(2)]
            a = C.sym_type_ident('a', 3)
            for w in RESERVED_NAMES:
                if len(w) == 3:
                    e.assume(z_not(V.str_eq(a, Str(w))))
            holes = {'a': a}
            names = ['HOLE_a', 'Beta', 'Gamma', 'Delta']
            extra = None
            if kind == 'dag':
                # the sort visits names in alphabetical order: vary which node carries which name (the root's name is symbolic anyway)
                if ctx.tier == 'thorough' or G.SHAPES[p['shape']][0] <= 3:
                    names = [names, ['HOLE_a', 'Gamma', 'Beta', 'Delta'], ['HOLE_a', 'Delta', 'Gamma', 'Beta']][e.choose(3)]
                shape = p['shape']
                ectx = {}
                site = ('param', 'return')[e.choose(2)]
                split = set([1]) if e.choose(2) == 1 else set()
                esite = 'param'
                if shape == 'join':
                    extra = 1
                    # the second root as a command parameter, or reached only through an event payload (shared dependency with a command type)
                    esite = ('param', 'payload')[e.choose(2)]
                    if esite == 'payload':
                        e.cover('event-root')
                tag = 'dag:%s' % shape
                e.cover('dag')
            else:
                shape = 'chain3'
                which = e.choose(2)
                ectx = {((0, 1), (1, 2))[which]: p['ctx']}
                site = 'param'
                split = set([2]) if e.choose(2) == 1 else set()
                tag = 'edge:%s' % p['ctx']
                e.cover('edge-context')
            if split:
                e.cover('two-files')
            files, exp, allnames = G.build(shape, names, ectx, site, '-', split=split, extra_root=extra, decoys=False, extra_root_site=esite if kind == 'dag' else 'param')
            proj = PL.Project(files, holes, {'validation_library': 'zod'})
            run = PL.run_model(I, proj)
            if run.result.var != 'Ok':
                return (proj, 'error')
            base = 'C09/%s' % tag
            wit = lambda m, proj=proj: C.witness_of(proj, m, dict(mode='zod'))
            try:
                order = schema_order(run.outputs)
            except TS.Reject as r:
                ctx.violation(e, base + '/unreadable', 'types.ts can be read back', True, wit, r.what)
                return (proj, 'unreadable')
            show = lambda m: 'order %s' % [(PL.concretize_str(m, n), [PL.concretize_str(m, r) for r in rs]) for n, rs in order]
            seen = []
            params_seen = False
            for (nm, refs) in order:
                is_params = len(nm.cs) > 12 and nm.cs[-12:] == Str('ParamsSchema').cs
                if is_params:
                    params_seen = True
                    e.cover('param-schema')
                elif params_seen:
                    ctx.violation(e, base + '/params-before-struct', 'parameter schemas come after all struct and enum schemas', True, wit, show)
                for r in refs:
                    ok = R.any_eq(r, seen)
                    ctx.violation(e, base + '/use-before-def', 'every schema mentioned on a right-hand side is declared earlier',
                                  z_not(ok) if not isinstance(ok, bool) else not ok, wit, show)
                seen.append(nm)
            return (proj, 'ok')

        def end(e, outcome):
            if outcome[0] == 'panic':
                e.cover('panic-path')
                return
            if outcome[0] != 'ok':
                return
            proj, st = outcome[1]
            m = e.get_model()
            ctx.sample(dict(scenario=name, holes={k: PL.concretize_str(m, v) for k, v in proj.holes.items()}, status=st, decisions=len(e.trace)), 2)

        eng.explore(body, end)
        ctx.finish_engine(eng)

    def replay(self, f):
        w = f['witness']
        kind = f['key'].rsplit('/', 1)[1]
        for attempt in range(40):       # the violating order depends on the process' hash seeds
            rc, outs, err, _ = PL.run_native(w['files'], w['config'])
            eng = H.E.Engine()
            V.set_engine(eng)
            try:
                order = schema_order({k: Str(v) for k, v in outs.items()})
            except (TS.Reject, KeyError):
                if kind == 'unreadable':
                    return True
                continue
            seen = []
            params_seen = False
            for nm, refs in order:
                n = nm.py()
                if n.endswith('ParamsSchema'):
                    params_seen = True
                elif params_seen and kind == 'params-before-struct':
                    return True
                if kind == 'use-before-def' and any(r.py() not in seen for r in refs):
                    return True
                seen.append(n)
        return False

    def mutants(self):
        def preorder(prog):
            fd = M.find_fn(prog, 'TypeDependencyGraph::topological_visit')
            return fd is not None and M.move_last_stmt_to(fd, 2)

        def no_edges(prog):
            fd = M.find_fn(prog, 'CommandAnalyzer::resolve_types_lazily')
            return fd is not None and M.drop_method_call_stmt(fd, 'add_dependencies')
        return [('topological-visit-preorder', preorder), ('dependencies-not-recorded', no_edges)]

    quick_mutants = 2


if __name__ == '__main__':
    sys.exit(H.main(C09()))
