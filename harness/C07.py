"""C07 -- types.ts declares exactly the serde types reachable from the public surface (DESIGN 4/C07)."""
import sys

from rsx import harness as H, values as V, interp as IP, sym, pipeline as PL, mutate as M
from rsx.values import Str, deref
from rsx.engine import Inconclusive, PathAbort, z_and, z_or, z_not
from rsx.readers import ts as TS
from harness import common as C
from harness import graphs as G

RESERVED_NAMES = ('Vec', 'Box', 'Map', 'Set', 'Date', 'Self', 'Array', 'Error', 'Some', 'None', 'State', 'Event', 'Beta', 'Gamma', 'Delta', 'Plain', 'Lonely',
                  'Option', 'Result', 'String', 'Window', 'Channel', 'HashMap', 'HashSet', 'Unreached', 'Record', 'Promise')


def declared_names(mode, outputs):
    mod = TS.parse_module(outputs['types.ts'], 'types.ts')
    out = []
    for it in mod.items:
        if mode == 'none':
            if it.kind in ('Interface', 'TypeAlias'):
                nm = it.name
                if len(nm.cs) > 6 and nm.cs[-6:] == Str('Params').cs:
                    continue
                out.append(nm)
        else:
            if it.kind == 'Const':
                nm = it.name
                if len(nm.cs) > 12 and nm.cs[-12:] == Str('ParamsSchema').cs:
                    continue
                if len(nm.cs) > 6 and nm.cs[-6:] == Str('Schema').cs:
                    out.append(Str(nm.cs[:-6]))
                else:
                    out.append(nm)
    return out


class C07(C.PipelineCheck):
    id = 'C07'
    title = 'types.ts declares exactly the serde types reachable from the public surface'
    required_covers = ('shape:cycle', 'shape:dag', 'root:param', 'root:return', 'root:result-ok', 'root:channel', 'root:payload', 'two-files', 'error-arm', 'error-arm+event', 'derive-style:1', 'derive-style:3')

    def bounds(self, tier):
        q = tier != 'thorough'
        return {'graphs': '%d named shapes on <=4 project types (chains, fan-out, diamond, tree, 2- and 3-cycles, chain into cycle, join with second root)' % len(G.SHAPES),
                'edges': 'one distinguished edge realised through each of %d constructor contexts (depth <=2), the others direct' % len(G.EDGE_CTX),
                'roots': 'root reference at %s through %s' % (', '.join(G.ROOT_SITES), 'each context of depth <=1' if q else 'each context'),
                'names': 'root type name symbolic ([A-Z][A-Za-z0-9]{2,4}), other names fixed; types spread over one or two files; serde and non-serde decoys; '
                         'an error type that is also used in a success position',
                'orders': 'hash-container iteration orders: insertion and reverse (two schedules per project)' if q else 'insertion, reverse and all orders inside lazy resolution'}

    def outside(self):
        return ['generic user types', 'two definitions of one type name', 'more than 4 project types', 'lower-case type names (skipped by the analyser as built-ins; not claimed)']

    def assumptions(self):
        return ['reachability ground truth: closure of the field-type graph from command parameters, return types (success arm of Result), channel message types '
                'and event payloads; the harness builds the graph, so the truth is known by construction']

    def scenarios(self, tier):
        q = tier != 'thorough'
        for shape in G.SHAPES:
            yield ('shape/%s' % shape, dict(kind='shape', shape=shape))
        for i, cx in enumerate(G.EDGE_CTX):
            yield ('edge/%s' % cx, dict(kind='edge', ctx=cx))
        for site in G.ROOT_SITES:
            yield ('root/%s' % site, dict(kind='root', site=site))
        yield ('error-arm', dict(kind='error-arm'))

    def mutant_scenarios(self, tier, name):
        for j in self.scenarios('quick'):
            if j[0] in ('shape/chain3', 'edge/hmap-v', 'root/payload', 'root/channel', 'error-arm', 'shape/diamond'):
                yield j

    def run_scenario(self, ctx, name, p):
        I = IP.Interp(ctx.prog)
        eng = ctx.engine(max_paths=60000, max_seconds=1500)
        kind = p['kind']

        def body(e):
            mode = ('none', 'zod')[e.choose(2)]
            e.order_mode = ('insertion', 'reverse')[e.choose(2)]
            n = 3 if ctx.tier != 'thorough' else (3, 5)[e.choose(2)]
            a = C.sym_type_ident('a', n)
            for w in RESERVED_NAMES:
                if len(w) == n:
                    e.assume(z_not(V.str_eq(a, Str(w))))
            holes = {'a': a}
            names = ['HOLE_a', 'Beta', 'Gamma', 'Delta']
            err = None
            extra = None
            if kind == 'shape':
                shape = p['shape']
                site = G.ROOT_SITES[e.choose(2 if ctx.tier != 'thorough' else 3)]
                rctx = '-'
                ectx = {}
                split = set([1]) if e.choose(2) == 1 else set()
                if shape == 'join':
                    extra = 1
                tag = 'shape:%s' % shape
            elif kind == 'edge':
                shape = 'chain3'
                site = 'param'
                rctx = '-'
                which = e.choose(2)
                ectx = {((0, 1), (1, 2))[which]: p['ctx']}
                split = set([2]) if e.choose(2) == 1 else set()
                tag = 'edge:%s' % p['ctx']
            elif kind == 'root':
                shape = 'chain2'
                site = p['site']
                ctxs = ['-', 'opt', 'vec', 'hmap-v', 'tup2-1', 'result', 'vec+opt', 'hmap-v+vec', 'tup2-0', 'hmap-k', 'result+hmap-v', 'tup2-1+hmap-v']
                rctx = ctxs[e.choose(len(ctxs))]
                ectx = {}
                split = set([1]) if e.choose(2) == 1 else set()
                tag = 'root:%s/%s' % (site, rctx)
            else:
                # an error type that is also reachable through a success position
                # join: Alpha -> Gamma <- Beta; Beta is the error type of the first command and, in one
                # variant, also the parameter of a second command (its only success-position use)
                shape = 'join'
                site = 'result-ok'
                rctx = '-'
                ectx = {}
                split = set([1]) if e.choose(2) == 1 else set()
                err = 'Beta'
                extra = 1 if e.choose(2) == 0 else None
                tag = 'error-arm:%s' % ('also-param' if extra is not None else 'field-only')
                e.cover('error-arm')
            if split:
                e.cover('two-files')
            # the derive that makes a type a serde type, spelled in every way rustc accepts (node 1, or the root of a single-node shape)
            dstyle = 0
            if kind == 'shape':
                styles = (0, 1, 3) if ctx.tier != 'thorough' else (0, 1, 2, 3, 4)
                dstyle = styles[e.choose(len(styles))]
                e.cover('derive-style:%d' % dstyle)
            files, exp, allnames = G.build(shape, names, ectx, site, rctx, split=split, enum_leaf=(kind == 'shape' and e.choose(2) == 1), extra_root=extra, err_type=err,
                                           derive_style=dstyle)
            if kind == 'error-arm' and e.choose(2) == 1:
                # an event whose payload no command reaches: its types are declared, the error-only type still is not
                files['src/evt.rs'] = (C.HEADER + '#[derive(Serialize, Deserialize, Clone)]\npub struct EvtOnly { pub stage: EvtStage }\n'
                                       '#[derive(Serialize, Deserialize, Clone)]\npub enum EvtStage { One, Two }\n'
                                       '#[tauri::command]\npub fn notify(app: tauri::AppHandle) {\n    app.emit("evt", EvtOnly { stage: EvtStage::One }).unwrap();\n}\n')
                exp = list(exp) + ['EvtOnly', 'EvtStage']
                tag += '+event'
                e.cover('error-arm+event')
            nn, edges = G.SHAPES[shape]
            cyc = any(i in G.reachable(nn, edges, [b for (x, b) in edges if x == i]) for i in range(nn))
            e.cover('shape:cycle' if cyc else 'shape:dag')
            e.cover('root:' + ('payload' if site.startswith('payload') else site))
            proj = PL.Project(files, holes, {'validation_library': mode})
            run = PL.run_model(I, proj)
            if run.result.var != 'Ok':
                return (mode, proj, 'error')
            base = 'C07/%s/%s' % (tag, mode)
            expected = [a if x == 'HOLE_a' else Str(x) for x in exp]
            wit = lambda m, proj=proj, mode=mode: C.witness_of(proj, m, dict(mode=mode, expected=sorted(PL.concretize_str(m, x) for x in expected)))
            try:
                got = declared_names(mode, run.outputs)
            except TS.Reject as r:
                ctx.violation(e, base + '/unreadable', 'types.ts can be read back', True, wit, r.what)
                return (mode, proj, 'unreadable')
            show = lambda m: 'declared %s expected %s' % (sorted(PL.concretize_str(m, x) for x in got), sorted(PL.concretize_str(m, x) for x in expected))
            for x in expected:
                cnt = [g for g in got if e.decide(V.str_eq(g, x))]
                if len(cnt) == 0:
                    ctx.violation(e, base + '/missing', 'every reachable serde type is declared', True, wit, show)
                elif len(cnt) > 1:
                    ctx.violation(e, base + '/twice', 'each type is declared exactly once', True, wit, show)
            for g in got:
                if g.py() == 'Wrapper':
                    continue        # the tuple-struct decoy: outside the documented feature set, either way is accepted
                if not any(e.decide(V.str_eq(g, x)) for x in expected):
                    ctx.violation(e, base + '/extra', 'unreachable or non-serde types are not declared', True, wit, show)
            return (mode, proj, 'ok')

        def end(e, outcome):
            if outcome[0] == 'panic':
                e.cover('panic-path')
                return
            if outcome[0] != 'ok':
                return
            mode, proj, st = outcome[1]
            m = e.get_model()
            ctx.sample(dict(scenario=name, mode=mode, holes={k: PL.concretize_str(m, v) for k, v in proj.holes.items()}, status=st), 2)
            if ctx.rng.random() < 0.01:
                ctx.validated += 1
                w = C.witness_of(proj, m)
                rc, outs, err, _ = PL.run_native(w['files'], w['config'])
                if rc != 0:
                    ctx.mismatches.append(dict(op='generate', holes=w['holes'], rc=rc, err=err[-200:]))

        eng.explore(body, end)
        ctx.finish_engine(eng)

    def replay(self, f):
        w = f['witness']
        kind = f['key'].rsplit('/', 1)[1]
        for attempt in range(6):       # hash iteration order varies between processes
            rc, outs, err, _ = PL.run_native(w['files'], w['config'])
            eng = H.E.Engine()
            V.set_engine(eng)
            outputs = {k: Str(v) for k, v in outs.items()}
            try:
                got = sorted(x.py() for x in declared_names(w['mode'], outputs))
            except (TS.Reject, KeyError):
                if kind == 'unreadable':
                    return True
                continue
            exp = w['expected']
            if kind == 'missing' and any(x not in got for x in exp):
                return True
            if kind == 'extra' and any(x not in exp for x in got):
                return True
            if kind == 'twice' and len(set(got)) != len(got):
                return True
        return False

    def mutants(self):
        def no_nested(prog):
            fd = M.find_fn(prog, 'TypeCollector::discover_nested_dependencies')
            return fd is not None and M.drop_method_call_stmt(fd, 'push')

        def serde_filter_off(prog):
            fd = M.find_fn(prog, 'StructParser::should_include')
            return fd is not None and M.replace_str_lit(fd, 'derive', 'derive_x')

        def payload_types_dropped(prog):
            fd = M.find_fn(prog, 'TypeScriptBindingsGenerator::generate_models')
            ok1 = fd is not None and M.drop_method_call_stmt(fd, 'insert')
            fd2 = M.find_fn(prog, 'ZodBindingsGenerator::generate_models')
            ok2 = fd2 is not None and M.drop_method_call_stmt(fd2, 'insert')
            return ok1 and ok2
        return [('nested-dependencies-not-followed', no_nested), ('event-payload-types-not-added', payload_types_dropped), ('serde-derive-filter-broken', serde_filter_off)]

    quick_mutants = 2


if __name__ == '__main__':
    sys.exit(H.main(C07()))
