"""type-dependency-graph projects shared by C07 (reachable set), C09 (schema order) and C13 (determinism)."""
from harness import common as C
from harness import shapes as S
from harness.C05 import CTX, skeleton

CMD = '#[tauri::command]\npub fn '

# named graph shapes over nodes N0..Nk-1: list of (src, dst)
SHAPES = {
    'single': (1, []),
    'chain2': (2, [(0, 1)]),
    'chain3': (3, [(0, 1), (1, 2)]),
    'fan': (3, [(0, 1), (0, 2)]),
    'diamond': (4, [(0, 1), (0, 2), (1, 3), (2, 3)]),
    'cycle2': (2, [(0, 1), (1, 0)]),
    'cycle3': (3, [(0, 1), (1, 2), (2, 0)]),
    'chain-into-cycle': (3, [(0, 1), (1, 2), (2, 1)]),
    'tree': (4, [(0, 1), (0, 2), (2, 3)]),
    'chain4': (4, [(0, 1), (1, 2), (2, 3)]),
    'join': (3, [(0, 2), (1, 2)]),          # N1 is only reachable if it is itself a root
    # a shortcut edge next to a path: the dependency is first met as a sibling and again below a sibling
    'triangle': (3, [(0, 1), (0, 2), (1, 2)]),
    'triangle-rev': (3, [(0, 1), (0, 2), (2, 1)]),
    'kite': (4, [(0, 1), (0, 2), (1, 2), (2, 3), (1, 3)]),
}
NAMES = ['Alpha', 'Beta', 'Gamma', 'Delta']
EDGE_CTX = ['-', 'opt', 'vec', 'hmap-v', 'hmap-k', 'tup2-0', 'tup2-1', 'hset', 'result', 'vec+opt', 'opt+vec', 'hmap-v+vec', 'tup2-1+hmap-v', 'result+hmap-v',
            'vec+tup2-0', 'hmap-v+tup2-1', 'bmap-v', 'tup3-1', 'tup3-1+vec']
ROOT_SITES = ['param', 'return', 'result-ok', 'channel', 'payload', 'payload-struct-expr']


def ctx_type(ctx, leaf_text):
    if ctx == '-':
        return leaf_text
    chain = tuple(ctx.split('+'))
    return S.rust_text(skeleton(chain, ('prim', leaf_text)))


def reachable(n, edges, roots):
    adj = {}
    for a, b in edges:
        adj.setdefault(a, []).append(b)
    seen = set()
    st = list(roots)
    while st:
        x = st.pop()
        if x in seen:
            continue
        seen.add(x)
        st.extend(adj.get(x, ()))
    return seen


DERIVE_STYLES = ['Debug, Clone, Serialize, Deserialize', 'Debug, Clone, serde::Serialize, serde::Deserialize', 'Clone, ::serde::Serialize, ::serde::Deserialize',
                 'Serialize', 'Debug, serde::Deserialize']


def build(shape, names, edge_ctx, root_site, root_ctx, split=None, enum_leaf=False, decoys=True, extra_root=None, err_type=None, derive_style=0, styled_node=1,
          extra_root_site='param'):
    """-> (files dict, expected reachable names list, all node names)
    edge_ctx: dict (src,dst) -> ctx name (default '-'); split: set of node indexes placed in a second file"""
    n, edges = SHAPES[shape]
    split = split or set()
    decl = {0: [], 1: []}
    sinks = {i for i in range(n)} - {a for a, _ in edges}
    for i in range(n):
        fields = []
        for k, (a, b) in enumerate(edges):
            if a == i:
                fields.append('    pub e%d: %s,' % (k, ctx_type(edge_ctx.get((a, b), '-'), names[b])))
        if decoys and i == 0:
            # a tuple struct (outside the documented feature set: neither expected nor forbidden in the output) met *before* the real edges
            fields.insert(0, '    pub w: Wrapper,')
        dv = DERIVE_STYLES[derive_style] if i == min(styled_node, n - 1) else DERIVE_STYLES[0]
        if enum_leaf and i in sinks and i != 0:
            text = '#[derive(%s)]\npub enum %s { One, Two }\n' % (dv, names[i])
        else:
            text = '#[derive(%s)]\npub struct %s {\n    pub id: i32,\n%s\n}\n' % (dv, names[i], '\n'.join(fields))
        decl[1 if i in split else 0].append(text)
    main = C.HEADER + ''.join(decl[0])
    if decoys:
        main += '#[derive(Serialize, Deserialize)]\npub struct Unreached { pub x: i32, pub n: Lonely }\n#[derive(Serialize, Deserialize)]\npub struct Lonely { pub y: i32 }\n'
        main += '#[derive(Debug, Clone)]\npub struct Plain { pub z: i32 }\n'
        main = main.replace(C.HEADER, C.HEADER + '#[derive(Debug, Clone, Serialize, Deserialize)]\npub struct Wrapper(pub u32);\n', 1)
    rt = ctx_type(root_ctx, names[0])
    roots = [0]
    if root_site == 'param':
        main += CMD + 'cmd(x: %s) -> i32 { 0 }\n' % rt
    elif root_site == 'return':
        main += CMD + 'cmd(y: i32) -> %s { todo!() }\n' % rt
    elif root_site == 'result-ok':
        main += CMD + 'cmd(y: i32) -> Result<%s, %s> { todo!() }\n' % (rt, err_type or 'String')
    elif root_site == 'channel':
        main += CMD + 'cmd(y: i32, ch: tauri::ipc::Channel<%s>) -> i32 { 0 }\n' % rt
    elif root_site == 'payload':
        main += CMD + 'cmd(app: tauri::AppHandle, v: %s) { }\npub fn helper(app: tauri::AppHandle, v: %s) { app.emit("evt", v).unwrap(); }\n' % ('i32', rt)
    else:
        main += CMD + 'cmd(app: tauri::AppHandle, y: i32) { app.emit("evt", %s { id: 1 }).unwrap(); }\n' % names[0]
    if extra_root is not None:
        if extra_root_site == 'payload':
            # the second root is reached only as an event payload
            main += 'pub fn notify(app: tauri::AppHandle, v: %s) { app.emit("second", v).unwrap(); }\n' % names[extra_root]
        else:
            main += CMD + 'second(z: %s) -> i32 { 0 }\n' % names[extra_root]
        roots.append(extra_root)
    files = {'src/main.rs': main}
    if decl[1]:
        files['src/models/types.rs'] = C.HEADER + ''.join(decl[1])
    exp = sorted(names[i] for i in reachable(n, edges, roots))
    return files, exp, names[:n]
