"""C08 -- the cache never leaves stale bindings: success means the output is current.

Differential histories, executed symbolically on both run paths:
    generate P  ->  edit (one representative per output-affecting edit class; several values symbolic)
                ->  non-forced run on P'  ->  compare <output>/ with a fresh generation of P'.
Whenever the second run reports success, every file of the fresh generation must exist with the same
content (timestamp excepted).  The cache hash is an uninterpreted injective function of the hashed
text, so "hash equal" is decided by the solver as equality of the (partly symbolic) hash inputs."""
import sys

from rsx import harness as H, values as V, interp as IP, sym, pipeline as PL, mutate as M
from rsx.values import Str, deref
from rsx.engine import Inconclusive, PathAbort, z_and, z_or, z_not
from rsx.models import fs as FS
from rsx.models import json as J
from harness import common as C
from harness import fsx as X

BASE = '''use serde::{Serialize, Deserialize};
use validator::Validate;
#[derive(Serialize, Deserialize, Validate)]
pub struct User {
    pub id: i32,
    #[validate(length(min = 1, max = 20))]
    pub user_name: String,
    pub tag: Uuid,
    secret: String,
}
#[derive(Serialize, Deserialize)]
pub enum Status { Active, Inactive }
#[derive(Serialize, Deserialize)]
pub struct Progress { pub done: u32 }
#[tauri::command]
pub fn get_user(user_id: i32) -> Result<User, String> { todo!() }
#[tauri::command]
pub fn set_status(app: tauri::AppHandle, new_status: Status) -> bool {
    app.emit("status-changed", Progress { done: 1 }).unwrap();
    true
}
'''

# label -> list of (old, new) textual substitutions on BASE; HOLE_x are symbolic
EDITS = {
    'command-added': [('#[tauri::command]\npub fn get_user', '#[tauri::command]\npub fn HOLE_n(flag: bool) -> bool { flag }\n#[tauri::command]\npub fn get_user')],
    # edits whose only effect on the generated files is at their end (a writer that compares line by line up to the shorter text misses them)
    'command-appended': [('    true\n}\n', '    true\n}\n#[tauri::command]\npub fn zz_last(label: String) -> String { label }\n')],
    'struct-and-command-appended': [('    true\n}\n', '    true\n}\n#[derive(Serialize, Deserialize)]\npub struct Zeta { pub z: i32 }\n#[tauri::command]\npub fn zz_last(z: Zeta) -> Zeta { z }\n')],
    'command-removed': [('#[tauri::command]\npub fn get_user(user_id: i32) -> Result<User, String> { todo!() }\n', '')],
    'command-renamed': [('pub fn get_user', 'pub fn HOLE_n')],
    'param-type': [('user_id: i32', 'user_id: String')],
    'param-added': [('user_id: i32', 'user_id: i32, HOLE_n: bool')],
    'param-renamed': [('user_id: i32', 'HOLE_n: i32')],
    'param-optional': [('user_id: i32', 'user_id: Option<i32>')],
    'return-type': [('Result<User, String>', 'Result<Vec<User>, String>')],
    'command-rename-all': [('#[tauri::command]\npub fn get_user', '#[tauri::command]\n#[serde(rename_all = "snake_case")]\npub fn get_user')],
    'field-added': [('pub id: i32,', 'pub id: i32,\n    pub HOLE_n: bool,')],
    'field-type': [('pub id: i32,', 'pub id: String,')],
    'field-optional': [('pub id: i32,', 'pub id: Option<i32>,')],
    'field-renamed': [('pub id: i32,', 'pub HOLE_n: i32,')],
    'field-serde-rename': [('pub id: i32,', '#[serde(rename = "HOLE_r")]\n    pub id: i32,')],
    'struct-rename-all': [('#[derive(Serialize, Deserialize, Validate)]\npub struct User', '#[derive(Serialize, Deserialize, Validate)]\n#[serde(rename_all = "SCREAMING_SNAKE_CASE")]\npub struct User')],
    'field-skip': [('pub id: i32,', '#[serde(skip)]\n    pub id: i32,')],
    'enum-variant-added': [('Active, Inactive', 'Active, Inactive, HOLE_v')],
    'enum-variant-rename': [('Active, Inactive', '#[serde(rename = "HOLE_r")]\n    Active, Inactive')],
    'enum-rename-all': [('#[derive(Serialize, Deserialize)]\npub enum Status', '#[derive(Serialize, Deserialize)]\n#[serde(rename_all = "lowercase")]\npub enum Status')],
    'validator-changed': [('min = 1, max = 20', 'min = 2, max = 20')],
    'validator-removed': [('    #[validate(length(min = 1, max = 20))]\n', '')],
    'event-added': [('    true\n', '    app.emit("HOLE_e", 5u32).unwrap();\n    true\n')],
    'event-removed': [('    app.emit("status-changed", Progress { done: 1 }).unwrap();\n', '')],
    'event-renamed': [('"status-changed"', '"HOLE_e"')],
    'event-payload-type': [('Progress { done: 1 }', 'Status::Active')],
    'event-payload-struct-edited': [('pub struct Progress { pub done: u32 }', 'pub struct Progress { pub done: u32, pub total: Option<u32> }')],
    'channel-added': [('user_id: i32)', 'user_id: i32, on_progress: tauri::ipc::Channel<Progress>)')],
    'private-field-type': [('    secret: String,', '    secret: u64,')],
    # the listener is typed after the first emit of a name: an edit of that first payload changes events.ts
    # edits that must NOT change the output: they keep the cached branch ("up to date") under test
    'comment-only': [('#[tauri::command]\npub fn get_user', '// a comment\n#[tauri::command]\npub fn get_user')],
    'helper-fn-added': [('#[tauri::command]\npub fn get_user', 'fn helper(x: i32) -> i32 { x + 1 }\n#[tauri::command]\npub fn get_user')],
}
TWO_EMIT_BASE = BASE.replace('    true\n', '    app.emit("sync", 7u32).unwrap();\n    report(&app);\n    true\n') + 'pub fn report(app: &tauri::AppHandle) { app.emit("sync", String::new()).unwrap(); }\n'
CHANNEL_BASE = BASE.replace('user_id: i32)', 'user_id: i32, on_progress: tauri::ipc::Channel<Progress>)')
EDITS_CH = {
    'event-first-of-two-payload': (TWO_EMIT_BASE, [('app.emit("sync", 7u32)', 'app.emit("sync", true)')]),
    'event-second-of-two-payload': (TWO_EMIT_BASE, [('app.emit("sync", String::new())', 'app.emit("sync", 1.5f64)')]),
    'channel-type': (CHANNEL_BASE, [('Channel<Progress>', 'Channel<Status>')]),
    'channel-removed': (CHANNEL_BASE, [(', on_progress: tauri::ipc::Channel<Progress>', '')]),
}
# configuration edits: label -> (typegen before, typegen after)   [tauri.conf.json plugins.typegen]
CONF_EDITS = {
    'mode-none-to-zod': (dict(validationLibrary='none'), dict(validationLibrary='zod')),
    'mode-zod-to-none': (dict(validationLibrary='zod'), dict(validationLibrary='none')),
    'type-mapping-added': (dict(typeMappings=None), dict(typeMappings={'Uuid': 'string'})),
    'type-mapping-changed': (dict(typeMappings={'Uuid': 'string'}), dict(typeMappings={'Uuid': 'number'})),
    'include-private': (dict(includePrivate=False), dict(includePrivate=True)),
    'visualize-deps-on': (dict(visualizeDeps=False), dict(visualizeDeps=True)),
}
# standalone configuration file edits (naming-case settings are only read from there)
FILE_EDITS = {
    'parameter-case': (dict(default_parameter_case='camelCase'), dict(default_parameter_case='snake_case')),
    'field-case': (dict(default_field_case='snake_case'), dict(default_field_case='camelCase')),
}
LOST = ['types.ts', 'commands.ts', 'events.ts', 'index.ts']


def apply_edits(src, subs):
    for old, new in subs:
        if old not in src:
            raise Inconclusive('edit does not apply: %r' % old)
        src = src.replace(old, new, 1)
    return src


def seq_applies(seq):
    cur = BASE
    applied = {}
    try:
        for lab in seq:
            if lab.endswith('~'):
                cur = applied[lab[:-1]]
            else:
                applied[lab] = cur
                cur = apply_edits(cur, EDITS[lab])
    except Inconclusive:
        return False
    return True


class C08(H.Check):
    id = 'C08'
    title = 'The cache never leaves stale bindings: success means output is current'
    INERT = ('include-private', 'comment-only', 'helper-fn-added', 'event-second-of-two-payload')      # includePrivate is hashed but read by no generator: the edit cannot change the output
    required_covers = ('path:cli', 'path:build', 'second-run:up-to-date', 'second-run:regenerated', 'edit:source', 'edit:config', 'edit:file-lost', 'sequence', 'two-outputs') + \
        tuple('effective:' + l for l in list(EDITS) + list(EDITS_CH) + list(CONF_EDITS) + list(FILE_EDITS) + ['file-lost:' + f for f in LOST] if l not in ('include-private', 'comment-only', 'helper-fn-added', 'event-second-of-two-payload'))

    def bounds(self, tier):
        return {'edit classes': sorted(list(EDITS) + list(EDITS_CH) + list(CONF_EDITS) + list(FILE_EDITS) + ['file-lost:' + f for f in LOST]),
                'symbolic values': 'new command/parameter/field names (3 chars), new enum variant (3 chars), serde rename strings (3 chars over [a-zA-Z_]), event names (4 chars over [a-z:-])',
                'histories': 'generate, one edit, non-forced run%s; both validation modes for source edits; CLI and build-script path' % (
                    '' if tier != 'thorough' else '; all ordered pairs of edits from a representative subset with a run after each; edit-revert-edit triples'),
                'project': 'two commands, three structs (one event-only), one enum, one event, validator attributes, a mapped foreign type, a private field'}

    def outside(self):
        return ['edit sequences longer than 3', 'edits of several attributes at once beyond the listed pairs', 'hash collisions of DefaultHasher (the hash is treated as injective)',
                'edits to files outside the project path', 'exclude/include patterns (not read by the analysis)']

    def assumptions(self):
        return ['a fresh generation == the same run path executed on the edited project with an empty output directory',
                'file contents are compared ignoring the "Generated at" timestamp']

    def scenarios(self, tier):
        q = tier != 'thorough'
        for path in ('cli', 'build'):
            for lab in EDITS:
                yield ('%s/src/%s' % (path, lab), dict(kind='src', path=path, edit=lab))
            for lab in EDITS_CH:
                yield ('%s/src/%s' % (path, lab), dict(kind='src', path=path, edit=lab))
            for lab in CONF_EDITS:
                yield ('%s/conf/%s' % (path, lab), dict(kind='conf', path=path, edit=lab))
            for lab in FILE_EDITS:
                yield ('%s/file/%s' % (path, lab), dict(kind='file', path=path, edit=lab))
            for f in LOST:
                yield ('%s/lost/%s' % (path, f), dict(kind='lost', path=path, file=f))
            yield ('%s/two-outputs' % path, dict(kind='two-out', path=path))
            seqs = [('param-type', 'field-serde-rename'), ('field-serde-rename', 'param-type'), ('event-added', 'command-added'), ('validator-changed', 'param-type'),
                    ('param-type', 'param-type~'), ('struct-rename-all', 'struct-rename-all~')]
            if not q:
                rep = ['command-added', 'param-type', 'field-added', 'field-serde-rename', 'struct-rename-all', 'enum-variant-added', 'validator-changed', 'event-added',
                       'event-payload-struct-edited', 'channel-added']
                seqs = [(a, b) for a in rep for b in rep if a != b] + [(a, a + '~') for a in rep] + [(a, a + '~', a) for a in rep[:5]]
            for s in seqs:
                if not seq_applies(s):
                    continue        # the second edit rewrites text the first one already changed
                yield ('%s/seq/%s' % (path, '+'.join(s)), dict(kind='seq', path=path, seq=s))

    def mutant_scenarios(self, tier, name):
        for j in self.scenarios('quick'):
            if j[0] in ('cli/src/param-type', 'cli/src/comment-only', 'build/src/field-type', 'build/src/field-added', 'cli/conf/mode-none-to-zod', 'cli/src/enum-variant-added', 'build/src/command-added', 'cli/src/channel-type'):
                yield j

    # ------------------------------------------------------------------------------------------
    def holes(self, e, src):
        hs = {}
        if 'HOLE_n' in src:
            hs['n'] = C.sym_ident('n', 3, first=C.IDENT_LOWER, rest=C.IDENT_LOWER)
            for clash in ('app', 'tag'):
                e.assume(z_not(V.str_eq(hs['n'], Str(clash))))
        if 'HOLE_v' in src:
            hs['v'] = C.sym_type_ident('v', 3)
        if 'HOLE_r' in src:
            hs['r'] = sym.sym_str('r', 3, 'abcdefghijklmnopqrstuvwxyzABCDEFGHIJKLMNOPQRSTUVWXYZ_')
        if 'HOLE_e' in src:
            hs['e'] = sym.sym_str('e', 4, 'abcdefghijklmnopqrstuvwxyz:-')
        return hs

    def run_scenario(self, ctx, name, p):
        I = IP.Interp(ctx.prog)
        eng = ctx.engine(max_paths=20000, max_seconds=900)
        kind, path = p['kind'], p['path']

        def body(e):
            e.order_mode = 'insertion'
            e.cover('path:' + path)
            mode = ('none', 'zod')[e.choose(2)] if kind in ('src', 'lost', 'seq', 'file', 'two-out') else None
            base_tg = dict(typeMappings={'Uuid': 'string'})
            if mode:
                base_tg['validationLibrary'] = mode
            stages = []       # [(source text, typegen dict | None, standalone dict | None, lost file | None)]
            if kind == 'two-out':
                return self.two_outputs(ctx, e, I, path, mode)
            if kind == 'src':
                b, subs = (BASE, EDITS[p['edit']]) if p['edit'] in EDITS else EDITS_CH[p['edit']]
                stages = [(b, base_tg, None, None), (apply_edits(b, subs), base_tg, None, None)]
                e.cover('edit:source')
            elif kind == 'conf':
                t0, t1 = CONF_EDITS[p['edit']]
                stages = [(BASE, {k: v for k, v in dict(base_tg, **t0).items() if v is not None}, None, None),
                          (BASE, {k: v for k, v in dict(base_tg, **t1).items() if v is not None}, None, None)]
                e.cover('edit:config')
            elif kind == 'file':
                t0, t1 = FILE_EDITS[p['edit']]
                sa = dict(project_path='.', output_path=X.OUT_REL, validation_library=mode, type_mappings={'Uuid': 'string'})
                stages = [(BASE, None, dict(sa, **t0), None), (BASE, None, dict(sa, **t1), None)]
                e.cover('edit:config')
            elif kind == 'lost':
                stages = [(BASE, base_tg, None, None), (BASE, base_tg, None, p['file'])]
                e.cover('edit:file-lost')
            else:
                cur = BASE
                stages = [(cur, base_tg, None, None)]
                applied = {}
                for lab in p['seq']:
                    if lab.endswith('~'):       # revert
                        cur = applied[lab[:-1]][0]
                    else:
                        applied[lab] = (cur,)
                        cur = apply_edits(cur, EDITS[lab])
                    stages.append((cur, base_tg, None, None))
                e.cover('sequence')
            allsrc = ''.join(s[0] for s in stages)
            holes = self.holes(e, allsrc)

            def mkproj(src):
                return PL.Project({'src/lib.rs': src}, {k: v for k, v in holes.items() if ('HOLE_' + k) in src}, {})

            def wit(m, upto=None):
                hv = {k: PL.concretize_str(m, v) for k, v in holes.items()}
                st = [(PL.fill_text(s[0], hv), s[1], s[2], s[3]) for s in (stages if upto is None else stages[:upto + 1])]
                return dict(path=path, kind=kind, label=p.get('edit') or p.get('file') or '+'.join(p.get('seq', ())), stages=st, mode=mode)

            def mkbox(st, out_exists):
                src, tg, sa, _ = st
                if sa is not None:
                    b = X.Box(I, PL.Project({'src/lib.rs': src}, {k: v for k, v in holes.items() if ('HOLE_' + k) in src}, {},
                                            extra_files={'typegen.json': J.json_doc_text(J.py_to_value(sa))}),
                              conf_value=J.py_to_value({'productName': 'app'}), out_exists=out_exists)
                else:
                    b = X.Box(I, mkproj(src), typegen=X.typegen_conf(**tg), out_exists=out_exists)
                return b

            def run(b, st):
                if st[2] is not None and path == 'cli':
                    return b.cli(config_file='typegen.json')
                return b.run(path)

            box = mkbox(stages[0], True)
            r = run(box, stages[0])
            if not X.is_ok(r):
                ctx.violation(e, 'C08/%s/first-run-fails' % path, 'generation of the base project succeeds', True, wit, X.err_text(r))
                return ('err', None)
            for k in range(1, len(stages)):
                src, tg, sa, lost = stages[k]
                lab = (p.get('edit') or ('file-lost:' + p['file'] if kind == 'lost' else p['seq'][k - 1]))
                # the edit
                if sa is not None:
                    box.w.find(Str(X.ST + '/typegen.json'))[2] = J.json_doc_text(J.py_to_value(sa))
                    box.proj.extra_files['typegen.json'] = J.json_doc_text(J.py_to_value(sa))
                else:
                    box.set_project(mkproj(src))
                    box.set_typegen(X.typegen_conf(**tg))
                if lost:
                    if not box.delete_out(lost):
                        raise PathAbort()
                prev = {n.py(): c for n, c in box.out_files()}
                r = run(box, stages[k])
                if not X.is_ok(r):
                    # a run that reports failure promises nothing
                    return ('err', None)
                eff = box.effects_since()
                e.cover('second-run:regenerated' if any(op in ('create', 'overwrite') and FS.file_name(pp).py() == 'types.ts' for op, pp, _ in eff) else 'second-run:up-to-date')
                ref = mkbox(stages[k], False)
                rr = run(ref, stages[k])
                if not X.is_ok(rr):
                    return ('err', None)
                have = {n.py(): c for n, c in box.out_files()}
                base = 'C08/%s/%s' % (path, lab if kind != 'seq' else 'seq:' + '+'.join(p['seq'][:k]))
                # vacuity witness: the edit does change what is generated (on some path of this scenario)
                for n, c in ref.out_files():
                    n = n.py()
                    if n == '.typecache':
                        continue
                    if n not in prev:
                        e.cover('effective:' + lab)
                        break
                    eq = X.content_eq(prev[n], c)
                    if eq is False or (eq is not True and e.feasible(z_not(eq))):
                        e.cover('effective:' + lab)
                        break
                for n, c in ref.out_files():
                    n = n.py()
                    if n == '.typecache':
                        continue
                    if n not in have:
                        ctx.violation(e, base + '/stale', 'after a successful non-forced run every file of a fresh generation exists with the same content', True,
                                      lambda m, k=k: wit(m, k), 'missing %s' % n)
                        continue
                    eq = X.content_eq(have[n], c)
                    cond = (not eq) if isinstance(eq, bool) else z_not(eq)
                    ctx.violation(e, base + '/stale', 'after a successful non-forced run every file of a fresh generation exists with the same content', cond,
                                  lambda m, k=k: wit(m, k), '%s differs from a fresh generation (mode %s)' % (n, mode or tg.get('validationLibrary')))
            return ('ok', None)

        eng.explore(body, lambda e, o: ctx.sample(dict(scenario=name), 1) if o[0] == 'ok' else None)
        ctx.finish_engine(eng)

    OUT_B = '/w/app/src/admin'

    def two_outputs(self, ctx, e, I, path, mode):
        """one project generated into two output directories in turn (CLI: -o; build script: outputPath edited):
        generate A, generate B, edit, generate A, generate B -- B must be current"""
        e.cover('two-outputs')
        src1 = apply_edits(BASE, [('pub id: i32,', 'pub id: i32,\n    pub email: String,')])
        tgA = X.typegen_conf(validationLibrary=mode, typeMappings={'Uuid': 'string'})
        tgB = dict(tgA, outputPath='../src/admin')
        box = X.Box(I, PL.Project({'src/lib.rs': BASE}, {}, {}), typegen=tgA)

        def run(which):
            if path == 'cli':
                return box.cli(output_path='../src/admin') if which == 'B' else box.cli()
            box.set_typegen(tgB if which == 'B' else tgA)
            return box.build()
        wit = lambda m: dict(path=path, kind='two-out', mode=mode, label='two-outputs', stages=[(BASE, None, None, None), (src1, None, None, None)])
        for step, which in enumerate(('A', 'B', 'edit', 'A', 'B')):
            if which == 'edit':
                box.set_project(PL.Project({'src/lib.rs': src1}, {}, {}))
                continue
            r = run(which)
            if not X.is_ok(r):
                return ('err', None)
        ref = X.Box(I, PL.Project({'src/lib.rs': src1}, {}, {}), typegen=tgB, out_exists=False, out_abs=self.OUT_B)
        rr = ref.run(path) if path == 'build' else ref.cli()
        if not X.is_ok(rr):
            return ('err', None)
        have = {FS.file_name(en[0]).py(): en[2] for en in box.w.children(Str(self.OUT_B)) if en[1] == 'file'}
        for n, c in ref.out_files():
            n = n.py()
            if n == '.typecache':
                continue
            eq = X.content_eq(have[n], c) if n in have else False
            ctx.violation(e, 'C08/%s/two-outputs/stale' % path, 'after a successful non-forced run every file of a fresh generation exists with the same content',
                          (not eq) if isinstance(eq, bool) else z_not(eq), wit, '%s in the second output directory differs from a fresh generation' % n)
        return ('ok', None)

    # ------------------------------------------------------------------------------------------
    def replay(self, f):
        w = f['witness']
        cls = f['key'].rsplit('/', 1)[1]
        path = w['path']
        stages = w['stages']
        if w['kind'] == 'two-out':
            return self.replay_two(w)

        def conf_steps(st):
            src, tg, sa, lost = st
            out = [('write', 'app/src-tauri/src/lib.rs', src)]
            if sa is not None:
                out.append(('write', 'app/src-tauri/tauri.conf.json', X.json.dumps({'productName': 'app'})))
                out.append(('write', 'app/src-tauri/typegen.json', X.json.dumps(sa)))
            else:
                out.append(('write', 'app/src-tauri/tauri.conf.json', X.json.dumps(X.conf_doc(X.typegen_conf(**tg)), indent=2)))
            if lost:
                out.append(('rm', 'app/src/generated/' + lost))
            return out

        def run_step(st):
            if path == 'build':
                return ('build',)
            return ('cli', ['-c', 'typegen.json'] if st[2] is not None else [])
        steps = [('mkdir', 'app/src/generated')]
        for st in stages:
            steps += conf_steps(st) + [run_step(st)]
        res = X.native_history(steps)
        if cls == 'first-run-fails':
            return res[0]['rc'] != 0
        last = res[-1]
        if last['rc'] != 0:
            return False
        fresh = X.native_history([('mkdir', 'app/src')] + conf_steps(stages[-1])[:-1 if stages[-1][3] else None] + [run_step(stages[-1])])
        if fresh[0]['rc'] != 0:
            return False
        pre = 'app/src/generated/'
        want = {k: v for k, v in fresh[0]['snap'].items() if k.startswith(pre) and v is not None and not k.endswith('.typecache')}
        return any(last['snap'].get(k) != v for k, v in want.items())

    def replay_two(self, w):
        tgA = X.typegen_conf(validationLibrary=w['mode'], typeMappings={'Uuid': 'string'})
        tgB = dict(tgA, outputPath='../src/admin')
        confA = ('write', 'app/src-tauri/tauri.conf.json', X.json.dumps(X.conf_doc(tgA)))
        confB = ('write', 'app/src-tauri/tauri.conf.json', X.json.dumps(X.conf_doc(tgB)))
        src0 = ('write', 'app/src-tauri/src/lib.rs', w['stages'][0][0])
        src1 = ('write', 'app/src-tauri/src/lib.rs', w['stages'][1][0])
        if w['path'] == 'cli':
            A, B = [('cli', [])], [('cli', ['-o', '../src/admin'])]
            freshB = [('mkdir', 'app/src'), src1, confA] + B
        else:
            A, B = [confA, ('build',)], [confB, ('build',)]
            freshB = [('mkdir', 'app/src'), src1] + B
        res = X.native_history([('mkdir', 'app/src'), src0, confA] + A + B + [src1] + A + B)
        fresh = X.native_history(freshB)
        if res[-1]['rc'] != 0 or fresh[-1]['rc'] != 0:
            return False
        pre = 'app/src/admin/'
        want = {k: v for k, v in fresh[-1]['snap'].items() if k.startswith(pre) and v is not None and not k.endswith('.typecache')}
        return any(res[-1]['snap'].get(k) != v for k, v in want.items())

    def mutants(self):
        def param_type_not_hashed(prog):
            fd = M.find_fn(prog, 'GenerationCache::hash_commands')
            return fd is not None and M.rename_field_access(fd, 'rust_type', 'name')

        def field_type_not_hashed(prog):
            fd = M.find_fn(prog, 'GenerationCache::hash_structs')
            return fd is not None and M.rename_field_access(fd, 'rust_type', 'name')
        return [('parameter-type-not-hashed', param_type_not_hashed), ('field-type-not-hashed', field_type_not_hashed)]

    quick_mutants = 2


if __name__ == '__main__':
    sys.exit(H.main(C08()))
