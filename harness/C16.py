"""C16 -- only the tool's own files in the output directory are ever written or removed.

Every run path (CLI generate, CLI init, build script) is executed symbolically over a modelled file
system; every mutating call lands in the world's effect log.  The obligation is stated over that log:
each effect is (a) mkdir of the output directory or one of its ancestors, (b) a create/overwrite/remove
of <output>/<name> with <name> one of the reserved generated names, or (c) for init, a write of the
configuration file it was pointed at.  The output directory is pre-populated with a foreign entry whose
*name is symbolic*, so "names close to the reserved ones" are not sampled: the solver finds any name for
which some effect lands on it."""
import sys

from rsx import harness as H, values as V, interp as IP, sym, pipeline as PL, mutate as M
from rsx.values import Str, deref
from rsx.engine import Inconclusive, PathAbort, z_and, z_or, z_not
from rsx.models import fs as FS
from harness import common as C
from harness import fsx as X

STEMS = ('types', 'commands', 'events', 'index', 'schemas', 'models', 'bindings')
RESERVED = tuple('%s.%s' % (s, x) for s in STEMS for x in ('ts', 'd.ts')) + ('.typecache', 'dependency-graph.txt', 'dependency-graph.dot')
NAME_ALPHABET = 'abcdefghijklmnopqrstuvwxyz._-'

SRC_CMD = ('use serde::{Serialize, Deserialize};\n#[derive(Serialize, Deserialize)]\npub struct User { pub id: i32, pub name: String }\n'
           '#[tauri::command]\npub fn get_user(id: i32) -> User { todo!() }\n')
SRC_EVT = SRC_CMD + ('#[tauri::command]\npub fn ping(app: tauri::AppHandle) -> Result<(), String> {\n    app.emit("pinged", 1u32).unwrap();\n    Ok(())\n}\n')
SRC_NONE = 'pub fn helper() -> i32 { 1 }\n'


def reserved_cond(name):
    """condition: the (possibly symbolic) file name is one the tool may own"""
    cs = []
    for r in RESERVED:
        if len(r) == len(name.cs):
            cs.append(V.str_eq(name, Str(r)))
    g = Str('generated_')
    if len(name.cs) >= len(g.cs):
        cs.append(V.starts_with_at(name, g, 0))
    g2 = Str('_generated')
    for i in range(0, len(name.cs) - len(g2.cs) + 1):
        cs.append(V.starts_with_at(name, g2, i))
    return z_or(*cs) if cs else False


def reserved_py(name):
    return name in RESERVED or name.startswith('generated_') or '_generated' in name


def classify_native(op, rel, pre, out_rel, conf_rel=None):
    """None if the effect is allowed, else the violation class"""
    if op == 'mkdir':
        if (out_rel + '/').startswith(rel + '/'):
            return None
        return 'mkdir-elsewhere'
    if conf_rel is not None and rel == conf_rel and op == 'write':
        return None
    if rel.startswith(out_rel + '/') and '/' not in rel[len(out_rel) + 1:]:
        if reserved_py(rel[len(out_rel) + 1:]):
            return None
        if op == 'write':
            return 'overwrite-foreign' if rel in pre else 'create-unreserved'
        return 'remove-foreign' if op == 'remove' else op + '-foreign'
    return 'outside-output-dir'


class C16(H.Check):
    id = 'C16'
    title = "Only the tool's own files in the output directory are ever written or removed"
    required_covers = ('run:cli', 'run:build', 'run:init', 'cache-hit', 'no-commands', 'foreign:reserved-name', 'foreign:other-name', 'cleanup-removed', 'no-commands-after-generation', 'crafted-cache')

    LAYOUTS = {
        'default': ('../src/generated', '/w/app/src/generated', True),
        'abs': ('/w/app/src/generated', '/w/app/src/generated', True),
        'inside': ('./src/bindings', '/w/app/src-tauri/src/bindings', True),
        'fresh': ('../ui/gen/ts', '/w/app/ui/gen/ts', False),
        'dotdot': ('../src/../src/generated', '/w/app/src/generated', True),
    }

    def bounds(self, tier):
        q = tier != 'thorough'
        return {'foreign entry': 'one pre-existing entry directly in the output directory, file or sub-directory (with a file inside), whose name is symbolic over [a-z._-] '
                                 'with length in %s; next to fixed foreign files README.md, types.ts.bak, mytypes.ts and a sub-directory generated_assets/' % (self.lengths(tier),),
                'histories': 'run; run (cache hit); run after an edit that adds an event (events.ts appears); run after the event is removed again; run on a project without commands',
                'paths': 'CLI generate, CLI init (tauri.conf.json and custom file, with and without --force), build script; both validation modes; visualizeDeps on/off',
                'output locations': 'relative beside the project, absolute, nested inside the project sources, not yet existing (3 levels), path with ..'}

    def lengths(self, tier):
        return (8, 10, 11) if tier != 'thorough' else (1, 3, 5, 7, 8, 9, 10, 11, 12, 13, 14, 16)

    def outside(self):
        return ['symlinks, hard links and permissions', 'more than one symbolic foreign name at a time', 'backup directories (OutputManager::with_backup is not used by any run path)',
                'concurrent runs']

    def assumptions(self):
        return ['std::fs calls have their documented effect on a tree-shaped world (rsx/models/fs.py); every mutating call is logged',
                'a run is confined iff every logged effect is mkdir of the output directory/ancestors, or create/overwrite/remove of <output>/<reserved name>, or (init) a write of the configuration file']

    def scenarios(self, tier):
        q = tier != 'thorough'
        for path in ('cli', 'build'):
            for n in self.lengths(tier):
                yield ('%s/foreign/%d' % (path, n), dict(kind='foreign', path=path, n=n))
            for lay in self.LAYOUTS:
                yield ('%s/layout/%s' % (path, lay), dict(kind='layout', path=path, layout=lay))
            yield ('%s/nocmd' % path, dict(kind='nocmd', path=path, n=8))
            yield ('%s/nocmd11' % path, dict(kind='nocmd', path=path, n=11))
        for v in range(5):
            yield ('init/%d' % v, dict(kind='init', v=v))
        # a .typecache found in the output directory is input like any other file: whatever it says, only reserved names are touched
        for path in ('cli', 'build'):
            for n in ((6, 9) if q else (3, 6, 9, 12)):
                yield ('%s/crafted-cache/%d' % (path, n), dict(kind='crafted', path=path, n=n))
        # the unit that decides what gets deleted, driven directly (cheap per path, so longer names are affordable)
        for n in ((5, 8, 9, 10, 11, 13) if q else tuple(range(1, 19))):
            yield ('unit/cleanup/%d' % n, dict(kind='unit', n=n))

    def mutant_scenarios(self, tier, name):
        for j in self.scenarios('quick'):
            if j[0] in ('build/foreign/10', 'unit/cleanup/10', 'cli/foreign/8', 'build/nocmd', 'cli/layout/default', 'init/0', 'init/2'):
                yield j

    # ------------------------------------------------------------------------------------------
    def check_effects(self, ctx, e, box, effects, base, wit, conf_path=None):
        outc = [c.py() for c in FS.components(Str(box.out))]
        for op, path, extra in effects:
            comps = FS.components(path)
            heads = [c.py() for c in comps[:len(outc)]]
            if op == 'mkdir':
                if [c.py() for c in comps] == outc[:len(comps)]:
                    continue
                ctx.violation(e, base + '/mkdir-elsewhere', 'directories are created only on the way to the output directory', True, wit, 'mkdir %s' % PL.concretize_str(e.get_model(), path))
                continue
            if conf_path is not None and path.py() == conf_path and op in ('create', 'overwrite'):
                continue
            if len(comps) == len(outc) + 1 and heads == outc:
                name = comps[-1]
                cls = {'create': 'create-unreserved', 'overwrite': 'overwrite-foreign', 'remove': 'remove-foreign'}.get(op, op + '-foreign')
                ctx.violation(e, base + '/' + cls, 'inside the output directory only reserved generated names are written or removed',
                              z_not(reserved_cond(name)), wit, lambda m, op=op, name=name: '%s %s' % (op, PL.concretize_str(m, name)))
                continue
            ctx.violation(e, base + '/outside-output-dir', 'nothing outside the output directory is touched', True, wit,
                          lambda m, op=op, path=path: '%s %s' % (op, PL.concretize_str(m, path)))

    def run_unit(self, ctx, name, p):
        """OutputManager::finalize_generation over an output directory holding one symbolically named foreign file"""
        I = IP.Interp(ctx.prog)
        eng = ctx.engine(max_paths=200000, max_seconds=600 if ctx.tier != 'thorough' else 3000)
        out = X.OUT

        def body(e):
            e.order_mode = 'insertion'
            fname = sym.sym_str('f', p['n'], NAME_ALPHABET)
            e.assume(z_not(V.str_eq(fname, Str('.' * p['n']))) if p['n'] <= 2 else True)
            if e.decide(reserved_cond(fname)):
                e.cover('foreign:reserved-name')
            else:
                e.cover('foreign:other-name')
            w = FS.World()
            w.cwd = Str(X.ST)
            for d in ('/w', X.APP, X.APP + '/src', X.ST, out, out + '/generated_assets'):
                w.add_dir(d)
            gens = [[], ['types.ts', 'commands.ts', 'index.ts'], ['types.ts', 'commands.ts', 'events.ts', 'index.ts']]
            v = e.choose(len(gens) + 1)
            present = ['types.ts', 'commands.ts', 'events.ts', 'index.ts', '.typecache', 'schemas.ts', 'README.md', 'mytypes.ts']
            for nm in present:
                if len(nm) == p['n']:
                    e.assume(z_not(V.str_eq(fname, Str(nm))))
                w.add_file(out + '/' + nm, Str('x'))
            w.add_file(Str(out + '/').concat(fname), Str('precious user data\n'))
            if v < len(gens):
                gen = [Str(x) for x in gens[v]]
            else:       # the cache-hit path of the build script hands over every file name found in the directory
                gen = [Str(x) for x in present] + [fname]
            I.fs = w
            V.CALL_STACK.clear()
            om = I.call_path('OutputManager::new', [FS.mkpath(Str(out))])
            r = deref(I.call_path('OutputManager::finalize_generation', [V.Vec(gen)], self_val=om))
            eff = list(w.log)
            if any(op == 'remove' for op, _, _ in eff):
                e.cover('cleanup-removed')

            def wit(m):
                return dict(kind='unit', foreign=PL.concretize_str(m, fname), generated=[PL.concretize_str(m, g) for g in gen], present=present,
                            layout='default')

            class B:
                pass
            b = B()
            b.out = out
            self.check_effects(ctx, e, b, eff, 'C16/build', wit)
            return ('ok', len(eff))

        eng.explore(body, lambda e, o: None)
        ctx.finish_engine(eng)

    def run_scenario(self, ctx, name, p):
        if p['kind'] == 'unit':
            return self.run_unit(ctx, name, p)
        I = IP.Interp(ctx.prog)
        eng = ctx.engine(max_paths=60000, max_seconds=400 if ctx.tier != 'thorough' else 3000)
        kind = p['kind']

        def body(e):
            e.order_mode = 'insertion'
            mode = ('none', 'zod')[e.choose(2)]
            viz = bool(e.choose(2))
            layout = p.get('layout', 'default')
            out_cfg, out_abs, out_exists = self.LAYOUTS[layout]
            tg = X.typegen_conf(outputPath=out_cfg, validationLibrary=mode, visualizeDeps=viz)
            pre = [('README.md', Str('# hand written\n')), ('types.ts.bak', Str('old')), ('mytypes.ts', Str('export type Mine = 1;\n')),
                   ('generated_assets', None)] if out_exists else []
            fname = None
            fkind = 'file'
            if kind in ('foreign', 'nocmd'):
                fname = sym.sym_str('f', p['n'], NAME_ALPHABET)
                # a usable directory entry name: not . or .., and distinct from the fixed neighbours
                e.assume(z_not(V.str_eq(fname, Str('.' * p['n']))) if p['n'] <= 2 else True)
                for other, _ in pre:
                    if len(other) == p['n']:
                        e.assume(z_not(V.str_eq(fname, Str(other))))
                fkind = ('file', 'dir')[e.choose(2)] if kind == 'foreign' else 'file'
                pre.append((fname, Str('precious user data\n') if fkind == 'file' else None))
                if e.decide(reserved_cond(fname)):
                    e.cover('foreign:reserved-name')
                else:
                    e.cover('foreign:other-name')
            steps = []      # for the witness: the history in native_history form

            def wit(m, steps=steps):
                nm = PL.concretize_str(m, fname) if fname is not None else None
                return dict(layout=layout, mode=mode, viz=viz, typegen=tg, foreign=nm, foreign_kind=fkind, history=list(steps), path=p.get('path', 'init'),
                            out_exists=out_exists, kind=kind, v=p.get('v'))

            if kind == 'init':
                return self.run_init(ctx, e, I, p, mode, viz, wit, steps)
            if kind == 'crafted':
                return self.run_crafted(ctx, e, I, p, mode, viz, tg, steps)
            path = p['path']
            e.cover('run:' + path)
            base = 'C16/%s' % path
            # ... and finally a run that finds no commands in a directory the tool has generated into before
            srcs = [SRC_NONE, SRC_NONE] if kind == 'nocmd' else [SRC_CMD, SRC_CMD, SRC_EVT, SRC_CMD, SRC_NONE]
            if kind == 'nocmd':
                # a previous generation left its files behind
                pre += [('types.ts', Str('export {};\n')), ('commands.ts', Str('export {};\n')), ('index.ts', Str('export {};\n'))]
                e.cover('no-commands')
            box = X.Box(I, PL.Project({'src/lib.rs': srcs[0]}, {}, {}), typegen=tg, pre_out=pre, out_exists=out_exists, out_abs=out_abs)
            if fkind == 'dir' and fname is not None:
                box.w.add_file(Str(out_abs + '/').concat(fname).concat(Str('/keep.txt')), Str('nested user data\n'))
            for k, src in enumerate(srcs):
                if k:
                    box.set_project(PL.Project({'src/lib.rs': src}, {}, {}))
                steps.append(['src', src])
                steps.append([path])
                r = box.run(path)
                eff = box.effects_since()
                if k == 1 and X.is_ok(r) and not eff:
                    e.cover('cache-hit')
                if any(op == 'remove' for op, _, _ in eff):
                    e.cover('cleanup-removed')
                if src == SRC_NONE and k:
                    e.cover('no-commands-after-generation')
                self.check_effects(ctx, e, box, eff, base, wit)
                if not X.is_ok(r):
                    break
            return ('ok', len(box.w.log))

        def end(e, outcome):
            if outcome[0] == 'panic':
                ctx.violation(e, 'C16/%s/panic' % name.split('/')[0], 'runs do not panic', True, lambda m: dict(panic=outcome[1].msg), outcome[1].msg)
            elif outcome[0] == 'ok':
                ctx.sample(dict(scenario=name, effects=outcome[1][1]), 2)

        eng.explore(body, end)
        ctx.finish_engine(eng)

    def run_crafted(self, ctx, e, I, p, mode, viz, tg, steps):
        """the output directory holds a cache record that does not match and whose `files` list names a foreign file (symbolic name), a path
        leaving the directory and a project source"""
        path = p['path']
        e.cover('run:' + path)
        fname = sym.sym_str('f', p['n'], NAME_ALPHABET)
        e.assume(z_not(reserved_cond(fname)))
        rec = X.J.jobj([('version', X.J.jnum(1)), ('commands_hash', X.J.jstr(Str('0'))), ('structs_hash', X.J.jstr(Str('0'))), ('config_hash', X.J.jstr(Str('0'))),
                        ('events_hash', X.J.jstr(Str('0'))), ('combined_hash', X.J.jstr(Str('stale'))),
                        ('files', X.J.jarr([X.J.jstr(fname), X.J.jstr(Str('../lib/api.ts')), X.J.jstr(Str('../../src-tauri/src/lib.rs')), X.J.jstr(Str('types.ts'))]))])
        pre = [('README.md', Str('# hand written\n')), (fname, Str('precious user data\n')), ('.typecache', X.J.json_doc_text(rec))]
        box = X.Box(I, PL.Project({'src/lib.rs': SRC_CMD}, {}, {}), typegen=tg, pre_out=pre)
        box.w.add_dir('/w/app/src/lib')
        box.w.add_file('/w/app/src/lib/api.ts', Str('export const x = 1;\n'))
        e.cover('crafted-cache')

        def wit(m):
            return dict(kind='crafted', path=path, mode=mode, viz=viz, typegen=tg, foreign=PL.concretize_str(m, fname), layout='default')
        for k in range(2):
            r = box.run(path)
            self.check_effects(ctx, e, box, box.effects_since(), 'C16/%s' % path, wit)
            if not X.is_ok(r):
                break
        return ('ok', len(box.w.log))

    def run_init(self, ctx, e, I, p, mode, viz, wit, steps):
        v = p['v']
        e.cover('run:init')
        base = 'C16/init'
        pre = [('README.md', Str('# hand written\n')), ('notes.write_test', Str('x'))]
        extra = {}
        args = dict(project_path='.', generated_path=X.OUT_REL, validation_library=mode, visualize_deps=viz)
        conf_path = X.CONF
        if v == 0:      # default: merges into ./tauri.conf.json of the project path
            pass
        elif v == 1:    # custom file that does not exist yet
            args['output_path'] = 'typegen.json'
            conf_path = X.ST + '/typegen.json'
        elif v == 2:    # custom file that exists, no --force: refused, nothing written
            args['output_path'] = 'typegen.json'
            extra['typegen.json'] = Str('{"validation_library": "none"}')
            conf_path = None
        elif v == 3:    # custom file that exists, --force
            args['output_path'] = 'typegen.json'
            args['force'] = True
            extra['typegen.json'] = Str('{"validation_library": "none"}')
            conf_path = X.ST + '/typegen.json'
        else:           # config in a sub-directory
            args['output_path'] = 'config/tauri.conf.json'
            extra['config/tauri.conf.json'] = X.J.json_doc_text(X.J.py_to_value({'productName': 'x'}))
            conf_path = X.ST + '/config/tauri.conf.json'
        proj = PL.Project({'src/lib.rs': SRC_CMD}, {}, {}, extra_files=extra)
        box = X.Box(I, proj, typegen=None, rest={'productName': 'app', 'plugins': {'shell': {'open': True}}}, conf_value=None, pre_out=pre)
        # no typegen section yet
        box.w.find(Str(X.CONF))[2] = X.J.json_doc_text(X.J.py_to_value({'productName': 'app', 'plugins': {'shell': {'open': True}}}))
        steps.append(['init', v])
        r = box.init(**args)
        eff = box.effects_since()
        if v == 2:
            if X.is_ok(r) or eff:
                ctx.violation(e, base + '/refused-but-wrote', 'init without --force refuses an existing custom file and writes nothing', True, wit, repr([(o, q.py()) for o, q, _ in eff]))
            return ('ok', len(eff))
        self.check_effects(ctx, e, box, eff, base, wit, conf_path=conf_path)
        return ('ok', len(eff))

    # ------------------------------------------------------------------------------------------
    def replay(self, f):
        w = f['witness']
        if 'panic' in w:
            return False
        cls = f['key'].rsplit('/', 1)[1]
        out_cfg, out_abs, out_exists = self.LAYOUTS[w['layout']]
        out_rel = out_abs[len('/w/'):]
        if w['kind'] == 'init':
            return self.replay_init(w, cls)
        if w['kind'] == 'unit':
            return self.replay_unit(w, cls)
        if w['kind'] == 'crafted':
            rec = {'version': 1, 'commands_hash': '0', 'structs_hash': '0', 'config_hash': '0', 'events_hash': '0', 'combined_hash': 'stale',
                   'files': [w['foreign'], '../lib/api.ts', '../../src-tauri/src/lib.rs', 'types.ts']}
            steps = X.project_steps({'src/lib.rs': SRC_CMD}, w['typegen'], pre_out=[('README.md', '# hand written\n'), (w['foreign'], 'precious user data\n'),
                                                                                   ('.typecache', X.json.dumps(rec))])
            steps += [('write', 'app/src/lib/api.ts', 'export const x = 1;\n')]
            steps += [('build',) if w['path'] == 'build' else ('cli', [])] * 2
            for r in X.native_history(steps):
                for op, rel in r['effects']:
                    if classify_native(op, rel, r['pre'], 'app/src/generated') == cls:
                        return True
            return False
        pre = [('README.md', '# hand written\n'), ('types.ts.bak', 'old'), ('mytypes.ts', 'export type Mine = 1;\n'), ('generated_assets', None)] if out_exists else []
        if w['kind'] == 'nocmd':
            pre += [('types.ts', 'export {};\n'), ('commands.ts', 'export {};\n'), ('index.ts', 'export {};\n')]
        steps = [('mkdir', 'app/src')]
        steps.append(('write', 'app/src-tauri/tauri.conf.json', X.json.dumps(X.conf_doc(w['typegen']), indent=2)))
        for nm, content in pre:
            steps.append(('mkdir', out_rel + '/' + nm) if content is None else ('write', out_rel + '/' + nm, content))
        if w['foreign'] is not None:
            if w['foreign_kind'] == 'dir':
                steps.append(('write', out_rel + '/' + w['foreign'] + '/keep.txt', 'nested user data\n'))
            else:
                steps.append(('write', out_rel + '/' + w['foreign'], 'precious user data\n'))
        for st in w['history']:
            if st[0] == 'src':
                steps.append(('write', 'app/src-tauri/src/lib.rs', st[1]))
            elif st[0] == 'cli':
                steps.append(('cli', []))
            else:
                steps.append(('build',))
        try:
            res = X.native_history(steps)
        except OSError:
            return False
        for r in res:
            for op, rel in r['effects']:
                c = classify_native(op, rel, r['pre'], out_rel)
                if c == cls:
                    return True
        return False

    def replay_unit(self, w, cls):
        """the same directory, handed to the real build script: a project whose generation yields the `generated` list"""
        gen = w['generated']
        src = SRC_NONE if not gen else (SRC_EVT if 'events.ts' in gen else SRC_CMD)
        steps = [('mkdir', 'app/src'), ('write', 'app/src-tauri/src/lib.rs', src),
                 ('write', 'app/src-tauri/tauri.conf.json', X.json.dumps(X.conf_doc(X.typegen_conf()))), ('mkdir', 'app/src/generated/generated_assets')]
        for nm in w['present']:
            steps.append(('write', 'app/src/generated/' + nm, 'x'))
        steps.append(('write', 'app/src/generated/' + w['foreign'], 'precious user data\n'))
        steps.append(('build',))
        if w['foreign'] in gen:
            steps.append(('build',))     # second run: cache hit
        for r in X.native_history(steps):
            for op, rel in r['effects']:
                if classify_native(op, rel, r['pre'], 'app/src/generated') == cls:
                    return True
        return False

    def replay_init(self, w, cls):
        v = w['v']
        steps = [('mkdir', 'app/src'), ('write', 'app/src-tauri/src/lib.rs', SRC_CMD),
                 ('write', 'app/src-tauri/tauri.conf.json', X.json.dumps({'productName': 'app', 'plugins': {'shell': {'open': True}}})),
                 ('write', 'app/src/generated/README.md', '# hand written\n'), ('write', 'app/src/generated/notes.write_test', 'x')]
        args = ['-p', '.', '-g', X.OUT_REL, '-v', w['mode']] + (['--visualize-deps'] if w['viz'] else [])
        conf_rel = 'app/src-tauri/tauri.conf.json'
        if v in (1, 2, 3):
            args += ['-o', 'typegen.json']
            conf_rel = 'app/src-tauri/typegen.json'
            if v >= 2:
                steps.append(('write', 'app/src-tauri/typegen.json', '{"validation_library": "none"}'))
            if v == 3:
                args.append('--force')
        if v == 4:
            args += ['-o', 'config/tauri.conf.json']
            conf_rel = 'app/src-tauri/config/tauri.conf.json'
            steps.append(('write', conf_rel, '{"productName": "x"}'))
        steps.append(('init', args))
        res = X.native_history(steps)
        r = res[0]
        if cls == 'refused-but-wrote':
            return r['rc'] == 0 or bool(r['effects'])
        for op, rel in r['effects']:
            if classify_native(op, rel, r['pre'], 'app/src/generated', conf_rel if v != 2 else None) == cls:
                return True
        return False

    # ------------------------------------------------------------------------------------------
    def mutants(self):
        def loosen_patterns(prog):
            fd = M.find_fn(prog, 'OutputManager::is_generated_file')
            return fd is not None and M.replace_str_lit(fd, 'models.ts', 'mytypes.ts')

        def graph_name(prog):
            fd = M.find_fn(prog, 'run_generate')
            return fd is not None and M.replace_str_lit(fd, 'dependency-graph.txt', '../graph.txt')
        return [('cleanup-pattern-matches-a-foreign-name', loosen_patterns), ('graph-file-outside-output-dir', graph_name)]

    quick_mutants = 2


if __name__ == '__main__':
    sys.exit(H.main(C16()))
