"""C04 -- the object passed to invoke has exactly the keys Tauri deserialises (DESIGN 4/C04)."""
import sys

from rsx import harness as H, values as V, interp as IP, sym, pipeline as PL, mutate as M
from rsx.values import Str, deref
from rsx.engine import Inconclusive, PathAbort, z_and, z_or, z_not
from rsx.readers import ts as TS
from harness import common as C
from harness import shapes as S

CMD = '#[tauri::command]\npub fn '

# (spelling, injected?)  -- expectation per the property's list of framework-injected parameters
INJECTED = [
    ('AppHandle', True), ('tauri::AppHandle', True), ('AppHandle<R>', True), ('tauri::AppHandle<R>', True), ('&AppHandle', False),
    ("State<'_, Db>", True), ("tauri::State<'_, Db>", True), ('State<Db>', True),
    ('Window', True), ('tauri::Window', True), ('Window<R>', True), ('tauri::Window<R>', True),
    ('WebviewWindow', True), ('tauri::WebviewWindow', True), ('WebviewWindow<R>', True), ('tauri::WebviewWindow<R>', True),
    ("tauri::ipc::Request<'_>", True), ('tauri::ipc::Request', True),
    # look-alikes that are ordinary value parameters
    ('Windows', False), ('AppState', False), ('Handle', False), ('Option<AppHandleInfo>', False),
]
CHANNELS = ['Channel<Msg>', 'tauri::ipc::Channel<Msg>', 'ipc::Channel<Msg>', 'Channel<Vec<Msg>>', "tauri::ipc::Channel<&'static str>"]


def camel_ref(name):
    """Tauri's argument key (heck lowerCamelCase) for a snake_case Rust identifier over [a-z0-9_]"""
    out = []
    cap = False
    started = False
    for c in name.cs:
        if V.ENG.decide(V.char_eq(c, 95)):
            if started:
                cap = True
            continue
        if cap:
            out.append(V.ascii_upper(c))
            cap = False
        else:
            out.append(c)
        started = True
    return Str(tuple(out))


class C04(C.PipelineCheck):
    id = 'C04'
    title = 'The object passed to invoke has exactly the keys Tauri deserialises'
    required_covers = ('keys:none', 'keys:zod', 'injected-filtered', 'channel-kept', 'optional', 'symbolic-type', 'looks-like')

    def bounds(self, tier):
        q = tier != 'thorough'
        return {'names': 'one parameter with a symbolic snake_case name [a-z_][a-z0-9_]* of length %s (leading/consecutive/trailing underscores, digits), '
                         'default_parameter_case in {camelCase, snake_case}' % ('1..5' if q else '1..7'),
                'injection': '%d concrete spellings of injected / look-alike parameter types at every position among two value parameters, plus a symbolic '
                             'last path segment (bare, tauri::-qualified, with and without a generic argument) of length 5,6,7,9,13' % len(INJECTED),
                'channels': '%d channel spellings at every position, with 0..2 value parameters' % len(CHANNELS),
                'modes': 'none and zod; keys read from the Params declaration and from the object expression reaching invoke'}

    def outside(self):
        return ['parameter conventions other than camelCase/snake_case (they have no Tauri meaning)', 'parameter names with upper-case letters',
                'patterns other than a plain identifier in parameter position', 'more than three parameters']

    def assumptions(self):
        return ['Tauri argument naming: heck 0.5 to_lower_camel_case for [a-z0-9_] names (reference validated against the compiled crate on sampled paths)',
                'framework-injected parameter types per the property text: AppHandle, Window, WebviewWindow (any spelling), State<..>, tauri::ipc::Request; Channel<T> is kept']

    def scenarios(self, tier):
        q = tier != 'thorough'
        for case in ('camelCase', 'snake_case'):
            for n in range(1, (5 if q else 7) + 1):
                yield ('name/%s/%d' % (case, n), dict(kind='name', case=case, n=n))
        for i in range(0, len(INJECTED), 3):
            yield ('injected/%d' % (i // 3), dict(kind='injected', specs=INJECTED[i:i + 3]))
        for i, ch in enumerate(CHANNELS):
            yield ('channel/%d' % i, dict(kind='channel', ch=ch))
        for form in ('HOLE_t', 'tauri::HOLE_t', 'HOLE_t<R>', 'tauri::HOLE_t<R>'):
            for n in (5, 6, 7, 9, 13):
                yield ('symtype/%s/%d' % (form.replace('HOLE_t', 'T'), n), dict(kind='symtype', form=form, n=n))
        yield ('optional', dict(kind='optional'))
        # user types whose names merely contain / start with / end with a framework name, next to a real channel and a real handle
        yield ('looks-like', dict(kind='looks-like'))

    def mutant_scenarios(self, tier, name):
        for j in self.scenarios('quick'):
            if j[0] in ('name/camelCase/3', 'injected/0', 'channel/0', 'optional', 'symtype/T<R>/5'):
                yield j

    # -- reading ---------------------------------------------------------------------------------
    @staticmethod
    def read_keys(mode, outputs):
        """-> (declared keys [(Str, optional)], invoke keys [Str] or 'params') ; raises TS.Reject"""
        tmod = TS.parse_module(outputs['types.ts'], 'types.ts')
        cmod = TS.parse_module(outputs['commands.ts'], 'commands.ts')

        def find(mod, kind, name):
            for it in mod.items:
                if it.kind == kind and it.name.py() == name:
                    return it
            return None
        decl = []
        if mode == 'none':
            it = find(tmod, 'Interface', 'CmdParams')
            if it is not None:
                decl = [(m.key.text, m.optional) for m in it.members if m.kind == 'Prop']
        else:
            sch = find(tmod, 'Const', 'CmdParamsSchema')
            if sch is not None:
                sh_info = []
                obj = sch.init
                root, chain = S.member_chain(obj)
                if not (root.kind == 'Id' and root.name.py() == 'z' and chain and chain[0][0].py() == 'object'):
                    raise TS.Reject('ParamsSchema is not z.object', 0, '', 'expr')
                for p in chain[0][1][0].props:
                    info = {}
                    S.zod_shape(p.value, info)
                    decl.append((p.key.text, bool(info.get('optional'))))
            it = find(tmod, 'Interface', 'CmdParams')
            if it is not None:
                decl += [(m.key.text, m.optional) for m in it.members if m.kind == 'Prop']
        f = find(cmod, 'Function', 'cmd')
        if f is None:
            raise TS.Reject('wrapper cmd not found', 0, '', 'module')
        calls = []

        def walk(n):
            if isinstance(n, list):
                for x in n:
                    walk(x)
            elif isinstance(n, TS.N):
                if n.kind == 'Call' and n.callee.kind == 'Id' and n.callee.name.py() == 'invoke':
                    calls.append(n)
                for v in n.__dict__.values():
                    if isinstance(v, (list, TS.N)):
                        walk(v)
        walk(f.body)
        if len(calls) != 1:
            raise TS.Reject('expected exactly one invoke call', 0, '', 'statement')
        args = calls[0].args
        if len(args) == 1:
            return decl, []
        a = args[1]
        if a.kind == 'Id' and a.name.py() == 'params':
            return decl, 'params'
        if a.kind == 'Member' and a.prop.py() == 'data':
            return decl, 'schema'
        if a.kind == 'ObjectLit':
            keys = []
            spread = None
            for p in a.props:
                if p.kind == 'Spread':
                    spread = 'schema'
                else:
                    keys.append(p.key.text)
            return decl, ('schema+', keys) if spread else keys
        raise TS.Reject('unrecognised invoke argument', 0, '', 'expr')

    def run_scenario(self, ctx, name, p):
        I = IP.Interp(ctx.prog)
        eng = ctx.engine(max_paths=60000, max_seconds=1500)
        eng.order_mode = 'insertion'
        nat = H.Native.get()

        def body(e):
            mode = ('none', 'zod')[e.choose(2)]
            holes = {}
            cfg = {'validation_library': mode}
            # expected: list of (key Str, optional) in declaration order; channel keys listed separately
            if p['kind'] == 'name':
                nm = C.sym_ident('p', p['n'])
                holes['p'] = nm
                e.assume(z_or(*[z_not(V.char_eq(c, 95)) for c in nm.cs]))     # `_`, `__` name no argument
                cfg['default_parameter_case'] = p['case']
                src = CMD + 'cmd(HOLE_p: i32) -> i32 { 0 }\n'
                exp = [(camel_ref(nm) if p['case'] == 'camelCase' else nm, False)]
                chans = []
            elif p['kind'] == 'injected':
                spec, inj = p['specs'][e.choose(len(p['specs']))]
                pos = e.choose(3)
                params = ['first_arg: i32', 'second: Option<String>']
                params.insert(pos, 'inj: %s' % spec)
                src = CMD + 'cmd(%s) -> i32 { 0 }\n' % ', '.join(params)
                exp = [(Str('firstArg'), False), (Str('second'), True)]
                if not inj:
                    exp.insert(pos, (Str('inj'), spec.startswith('Option<')))
                else:
                    e.cover('injected-filtered')
                chans = []
            elif p['kind'] == 'channel':
                nval = e.choose(3)
                pos = e.choose(nval + 1)
                params = ['first_arg: i32', 'second: Option<String>'][:nval]
                params.insert(pos, 'on_event: %s' % p['ch'])
                src = CMD + 'cmd(%s) -> i32 { 0 }\n' % ', '.join(params)
                exp = [(Str('firstArg'), False), (Str('second'), True)][:nval]
                chans = [Str('onEvent')]
                e.cover('channel-kept')
            elif p['kind'] == 'symtype':
                t = C.sym_type_ident('t', p['n'])
                holes['t'] = t
                src = CMD + 'cmd(value: u8, h: %s) -> i32 { 0 }\n' % p['form']
                generic = '<' in p['form']
                qualified = p['form'].startswith('tauri::')
                if qualified:
                    # only names that exist in the tauri crate root can be written tauri::X
                    e.assume(z_or(V.str_eq(t, Str('AppHandle')), V.str_eq(t, Str('WebviewWindow')), V.str_eq(t, Str('Window')),
                                  z_and(generic, V.str_eq(t, Str('State')))))
                elif not generic:
                    e.assume(z_not(V.str_eq(t, Str('State'))))          # State always carries its type argument
                e.cover('symbolic-type')
                inj = z_or(V.str_eq(t, Str('AppHandle')), V.str_eq(t, Str('WebviewWindow')), V.str_eq(t, Str('Window')),
                           z_and(generic, V.str_eq(t, Str('State'))))
                is_chan = z_and(generic, V.str_eq(t, Str('Channel')))
                exp = [(Str('value'), False)]
                chans = []
                if e.decide(is_chan):
                    chans = [Str('h')]
                elif not e.decide(inj):
                    exp.append((Str('h'), False))
                else:
                    e.cover('injected-filtered')
                if e.decide(V.str_eq(t, Str('Option'))):
                    raise PathAbort()
            elif p['kind'] == 'looks-like':
                names = ['ReleaseChannel', 'ChannelOptions', 'MyChannel<u8>', 'AppHandleConfig', 'WindowSize', 'StateSnapshot', 'MyState<u8>', 'WebviewWindowOptions', 'RequestInfo',
                         'UpdateChannel', 'SubWindow', 'AppState']
                ty = names[e.choose(len(names))]
                with_chan = e.choose(2) == 1
                src = CMD + 'cmd(app: tauri::AppHandle, channel: %s, force: bool%s) -> i32 { 0 }\n' % (ty, ', on_progress: tauri::ipc::Channel<u32>' if with_chan else '')
                exp = [(Str('channel'), False), (Str('force'), False)]
                chans = [Str('onProgress')] if with_chan else []
                e.cover('looks-like')
            else:
                src = CMD + 'cmd(a: Option<i32>, b: i32, c: Option<Vec<String>>, d: Vec<Option<i32>>) -> i32 { 0 }\n'
                exp = [(Str('a'), True), (Str('b'), False), (Str('c'), True), (Str('d'), False)]
                chans = []
                e.cover('optional')
            proj = PL.Project({'src/main.rs': C.HEADER + src}, holes, cfg)
            run = PL.run_model(I, proj)
            if run.result.var != 'Ok':
                return (mode, proj, 'error', exp)
            tag = p['kind'] if p['kind'] != 'name' else 'name-' + p['case']
            if p['kind'] == 'injected':
                tag = 'injected:' + spec
            if p['kind'] == 'channel':
                tag = 'channel:' + p['ch']
            if p['kind'] == 'symtype':
                tag = 'symtype:' + p['form'].replace('HOLE_t', 'T')
            base = 'C04/%s/%s' % (tag, mode)
            wit = lambda m, proj=proj, mode=mode: C.witness_of(proj, m, dict(mode=mode, expected=[[PL.concretize_str(m, k), o] for k, o in exp],
                                                                              channels=[PL.concretize_str(m, k) for k in chans]))
            try:
                decl, inv = self.read_keys(mode, run.outputs)
                e.cover('keys:' + mode)
            except TS.Reject as r:
                ctx.violation(e, base + '/unreadable', 'Params declaration and invoke call can be read back', True, wit, r.what)
                return (mode, proj, 'unreadable', exp)
            want_decl = exp + [(k, False) for k in chans]
            show = lambda m: 'declared %s invoke %s expected %s + channels %s' % (
                [(PL.concretize_str(m, k), o) for k, o in decl], inv if isinstance(inv, str) else (
                    [PL.concretize_str(m, k) for k in inv] if isinstance(inv, list) else (inv[0], [PL.concretize_str(m, k) for k in inv[1]])),
                [(PL.concretize_str(m, k), o) for k, o in exp], [PL.concretize_str(m, k) for k in chans])
            if len(decl) != len(want_decl):
                ctx.violation(e, base + '/keyset', 'declared keys = Tauri-filled parameters', True, wit, show)
            else:
                ok = z_and(*[z_and(V.str_eq(a[0], b[0]), a[1] == b[1]) for a, b in zip(decl, want_decl)])
                ctx.violation(e, base + '/keys', 'declared keys named by the configured case, optional iff Option', z_not(ok) if not isinstance(ok, bool) else not ok, wit, show)
            # what reaches invoke
            if not want_decl:
                good = inv == []
            elif inv == 'params':
                good = True                      # the declared object is passed through unchanged
            elif inv == 'schema':
                good = not chans                 # validated data only: correct iff there are no channels
            elif isinstance(inv, tuple):
                good = len(inv[1]) == len(chans) and all(e.decide(V.str_eq(a, b)) for a, b in zip(inv[1], chans)) and bool(exp)
            else:
                good = False
            if not good:
                ctx.violation(e, base + '/invoke', 'object reaching invoke carries every key (channels re-attached)', True, wit, show)
            return (mode, proj, 'ok', exp)

        def end(e, outcome):
            if outcome[0] == 'panic':
                m = e.get_model()
                ctx.violation(e, 'C04/%s/panic' % p['kind'], 'generation does not panic', True,
                              lambda m: dict(panic=outcome[1].msg), outcome[1].msg)
                return
            if outcome[0] != 'ok':
                return
            mode, proj, st, exp = outcome[1]
            m = e.get_model()
            ctx.sample(dict(scenario=name, mode=mode, holes={k: PL.concretize_str(m, v) for k, v in proj.holes.items()}, status=st,
                            expected=[PL.concretize_str(m, k) for k, _ in exp]), 2)
            if p['kind'] == 'name' and ctx.rng.random() < 0.2:
                # reference check: heck on the concrete name
                nm = PL.concretize_str(m, proj.holes['p'])
                r = nat.call('heck', arg=nm)
                ctx.validated += 1
                want = r['ok']['camel'] if p['case'] == 'camelCase' else nm
                if PL.concretize_str(m, exp[0][0]) != want:
                    ctx.mismatches.append(dict(op='heck', name=nm, ref=PL.concretize_str(m, exp[0][0]), native=want))

        eng.explore(body, end)
        ctx.finish_engine(eng)

    def replay(self, f):
        w = f['witness']
        if 'files' not in w:
            return False
        rc, outs, err, _ = PL.run_native(w['files'], w['config'])
        kind = f['key'].rsplit('/', 1)[1]
        if kind == 'panic':
            return 'panicked' in err
        eng = H.E.Engine()
        V.set_engine(eng)
        outputs = {k: Str(v) for k, v in outs.items()}
        try:
            decl, inv = self.read_keys(w['mode'], outputs)
        except (TS.Reject, KeyError):
            return kind == 'unreadable'
        if kind == 'unreadable':
            return False
        want = [[k, o] for k, o in w['expected']] + [[k, False] for k in w['channels']]
        got = [[k.py(), bool(o)] for k, o in decl]
        if kind in ('keyset', 'keys'):
            return got != want
        if kind == 'invoke':
            if not want:
                return inv != []
            if inv == 'params':
                return False
            if inv == 'schema':
                return bool(w['channels'])
            if isinstance(inv, tuple):
                return [k.py() for k in inv[1]] != w['channels']
            return True
        return False

    def mutants(self):
        def no_state_filter(prog):
            fd = M.find_fn(prog, 'CommandParser::is_tauri_parameter_type')
            return fd is not None and M.replace_str_lit(fd, 'AppHandle', 'AppHandles', 2)

        def optional_flag(prog):
            fd = M.find_fn(prog, 'CommandParser::is_optional_type')
            return fd is not None and M.replace_str_lit(fd, 'Option', 'Optional')

        def channel_dropped(prog):
            fd = M.find_fn(prog, 'ChannelParser::is_channel_segment') or M.find_fn(prog, 'is_channel_segment')
            return fd is not None and M.replace_str_lit(fd, 'Channel', 'Chanel')
        return [('AppHandle-not-filtered', no_state_filter), ('optional-flag-lost', optional_flag), ('channel-not-recognised', channel_dropped)]

    quick_mutants = 2


if __name__ == '__main__':
    sys.exit(H.main(C04()))
