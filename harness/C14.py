"""C14 -- re-running with nothing changed rewrites nothing; --force always regenerates.

Two obligations over symbolically executed run histories:
  rerun  : run; run again on the unchanged world.  The second run's effect log must be empty.  "Fresh
           process" is modelled by iteration order: between the two runs every HashMap/HashSet/read_dir
           iteration flips its order, and inside the functions that feed the cache hash the order is a
           free choice per run (all permutations, decided by the solver as path alternatives).
  force  : from each cache state (absent, matching, mismatching, corrupt) x --force flag x configured
           force (absent/true/false): the run regenerates iff flag or configuration asks for it or the
           cache does not match; a forced run rewrites every generated file."""
import sys

from rsx import harness as H, values as V, interp as IP, sym, pipeline as PL, mutate as M
from rsx.values import Str, deref
from rsx.engine import Inconclusive, PathAbort, z_and, z_or, z_not
from rsx.models import fs as FS
from harness import common as C
from harness import fsx as X

HASH_SCOPE = {'GenerationCache::hash_config'}

FILE_TPL = ('use serde::{Serialize, Deserialize};\n#[derive(Serialize, Deserialize)]\npub struct Item%(k)d { pub id: i32, pub label: String, pub parent: Option<Box<Item%(k)d>> }\n'
            '#[derive(Serialize, Deserialize)]\npub enum Kind%(k)d { A, B }\n'
            '#[tauri::command]\npub fn get_item%(k)d(id: i32, kind: Kind%(k)d) -> Result<Item%(k)d, String> { todo!() }\n'
            '#[tauri::command]\npub async fn put_item%(k)d(item: Item%(k)d) -> bool { todo!() }\n')
# every file defines its own `Settings` (different fields) and a command using it
DUP_TPL = ('use serde::{Serialize, Deserialize};\n#[derive(Serialize, Deserialize)]\npub struct Settings { pub id: i32,%(extra)s }\n'
           '#[tauri::command]\npub fn load%(k)d() -> Settings { todo!() }\n')
# the same file with its struct and first command named by holes (symbolic names: every relative order of the names is covered)
SYM_TPL = FILE_TPL.replace('Item%(k)d', 'HOLE_s%(k)d').replace('get_item%(k)d', 'HOLE_c%(k)d')
OTHER = 'use serde::Serialize;\n#[derive(Serialize)]\npub struct Other { pub v: u8 }\n#[tauri::command]\npub fn other() -> Other { todo!() }\n'
NAMES = ['src/lib.rs', 'src/commands/items.rs', 'src/zeta.rs', 'src/commands/a/deep.rs', 'src/alpha.rs', 'src/main.rs']
MAPPINGS = {'DateTime': 'string', 'Uuid': 'string', 'Decimal': 'number'}


def project_files(k):
    return {NAMES[i]: FILE_TPL % dict(k=i) for i in range(k)}


class C14(H.Check):
    id = 'C14'
    title = 'Re-running with nothing changed rewrites nothing; --force always regenerates'
    required_covers = ('rerun:cli', 'rerun:build', 'force:forced', 'force:not-forced', 'cache:absent', 'cache:matching', 'cache:mismatching', 'cache:corrupt')

    def bounds(self, tier):
        return {'projects': '%s source files, each with a struct, an enum and two commands; 0, 2 or 3 custom type mappings; both validation modes; visualizeDeps on/off; '
                            'in the symbolic-names scenarios (%s files) the struct and one command of every file carry symbolic 3-character names, so every relative order '
                            'of the names (and with it every sorted position) is covered' % ('1..3' if tier != 'thorough' else '1..6', '1..2' if tier != 'thorough' else '1..3'),
                'orders': 'run 1 iterates every hash container in insertion order, run 2 in reverse; inside GenerationCache::hash_config every permutation is explored for each run independently; '
                          'directory listings keep one order across the runs of a history',
                'histories': 'run, run (and a third run in the thorough tier) on CLI and build-script path',
                'force matrix': '--force in {absent, present} x configuration force in {absent, true, false} x cache state in {absent, matching, mismatching, corrupt} on the CLI; '
                                'configuration force x cache state on the build script'}

    def outside(self):
        return ['mtime granularity / file systems that change bytes behind the tool', 'DefaultHasher is treated as an injective function of the hashed text (collisions are outside the claim)',
                'more than 6 source files']

    def assumptions(self):
        return ['"fresh process" == different iteration order of every HashMap/HashSet; a directory lists its entries in the same order in both runs (both orders are explored in the '
                'duplicate-type scenarios); the clock advances; nothing else differs between processes',
                'an unchanged output directory == an empty effect log for the run (no create/overwrite/remove/mkdir at all, even with identical bytes)']

    def scenarios(self, tier):
        q = tier != 'thorough'
        for path in ('cli', 'build'):
            for k in ((1, 2, 3) if q else (1, 2, 3, 4, 5, 6)):
                for nm in ((0, 2) if q else (0, 2, 3)):
                    yield ('rerun/%s/files%d/maps%d' % (path, k, nm), dict(kind='rerun', path=path, k=k, nm=nm))
            for k in ((1, 2) if q else (1, 2, 3)):
                yield ('rerun/%s/symbolic-names%d' % (path, k), dict(kind='rerun', path=path, k=k, nm=2, sym=True))
            # the same type name defined in two (three) files: whichever definition wins must win in every process
            for k in ((2,) if q else (2, 3)):
                yield ('rerun/%s/duplicate-type%d' % (path, k), dict(kind='rerun', path=path, k=k, nm=0, dup=True))
            for state in ('absent', 'matching', 'mismatching', 'corrupt'):
                yield ('force/%s/%s' % (path, state), dict(kind='force', path=path, state=state))

    def mutant_scenarios(self, tier, name):
        for j in self.scenarios('quick'):
            if j[0] in ('rerun/cli/files2/maps2', 'rerun/build/files1/maps0', 'rerun/cli/symbolic-names1', 'rerun/cli/duplicate-type2', 'force/cli/matching', 'force/build/matching', 'force/cli/absent'):
                yield j

    def run_scenario(self, ctx, name, p):
        I = IP.Interp(ctx.prog)
        eng = ctx.engine(max_paths=20000, max_seconds=600 if ctx.tier != 'thorough' else 3000)
        kind = p['kind']

        def body(e):
            mode = ('none', 'zod')[e.choose(2)]
            e.order_mode = 'scoped'
            e.order_all_in = HASH_SCOPE
            e.order_fallback = 'insertion'
            # a directory enumerates the same way in every process (either way round); only hash containers differ between processes
            e.order_dirs = ('insertion', 'reverse')[e.choose(2)] if p.get('dup') else 'insertion'
            path = p['path']
            if kind == 'rerun':
                symbolic = p.get('sym', False)
                viz = bool(e.choose(2)) if not symbolic else False
                maps = dict(list(MAPPINGS.items())[:p['nm']])
                tg = X.typegen_conf(validationLibrary=mode, visualizeDeps=viz)
                if maps:
                    tg['typeMappings'] = maps
                holes = {}
                for i in range(p['k'] if symbolic else 0):
                    holes['s%d' % i] = C.sym_type_ident('s%d' % i, 3)
                    holes['c%d' % i] = C.sym_ident('c%d' % i, 3, first=C.IDENT_LOWER, rest=C.IDENT_LOWER)
                    for j in range(i):
                        e.assume(z_not(V.str_eq(holes['s%d' % i], holes['s%d' % j])))
                        e.assume(z_not(V.str_eq(holes['c%d' % i], holes['c%d' % j])))
                    for clash in ('Box', 'Vec', 'Map', 'Set', 'Any'):
                        e.assume(z_not(V.str_eq(holes['s%d' % i], Str(clash))))
                if p.get('dup'):
                    srcs = {NAMES[i]: DUP_TPL % dict(k=i, extra=''.join(' pub f%d_%d: u8,' % (i, j) for j in range(i + 1))) for i in range(p['k'])}
                else:
                    srcs = {NAMES[i]: (SYM_TPL if symbolic else FILE_TPL) % dict(k=i) for i in range(p['k'])}
                proj = PL.Project(srcs, holes, {})
                box = X.Box(I, proj, typegen=tg, out_exists=bool(e.choose(2)) if not symbolic else True)
                e.cover('rerun:' + path)
                wit = lambda m: dict(kind='rerun', path=path, files=proj.concrete_files(m)[0], typegen=tg, runs=3 if ctx.tier == 'thorough' else 2)
                r = box.run(path)
                if not X.is_ok(r):
                    ctx.violation(e, 'C14/%s/first-run-fails' % path, 'generation of a valid project succeeds', True, wit, X.err_text(r))
                    return ('err', 0)
                for i in range(2 if ctx.tier == 'thorough' else 1):
                    e.order_fallback = ('reverse', 'insertion')[i % 2]
                    r = box.run(path)
                    eff = box.effects_since()
                    if not X.is_ok(r):
                        ctx.violation(e, 'C14/%s/rerun-fails' % path, 'the second run succeeds', True, wit, X.err_text(r))
                    elif eff:
                        ctx.violation(e, 'C14/%s/rerun-writes' % path, 'a run over unchanged sources and configuration touches nothing in the output directory', True, wit,
                                      'run %d: %s' % (i + 2, [(op, FS.file_name(pp).py()) for op, pp, _ in eff][:6]))
                return ('ok', len(box.w.log))
            # ---- force matrix
            flag = bool(e.choose(2)) if path == 'cli' else False
            cforce = (None, True, False)[e.choose(3)]
            state = p['state']
            tg = X.typegen_conf(validationLibrary=mode)
            tg0 = dict(tg)
            if cforce is not None:
                tg['force'] = cforce
            box = X.Box(I, PL.Project({'src/lib.rs': FILE_TPL % dict(k=0)}, {}, {}), typegen=tg0)
            e.cover('cache:' + state)
            if state != 'absent':
                if state == 'mismatching':
                    box.set_project(PL.Project({'src/lib.rs': OTHER}, {}, {}))
                r = box.run(path)
                if not X.is_ok(r):
                    return ('err', 0)
                if state == 'mismatching':
                    box.set_project(PL.Project({'src/lib.rs': FILE_TPL % dict(k=0)}, {}, {}))
                if state == 'corrupt':
                    box.out_entry('.typecache')[2] = Str('{ this is not json')
            box.set_typegen(tg)
            wit = lambda m: dict(kind='force', path=path, state=state, flag=flag, cforce=cforce, mode=mode)
            r = box.run(path, force=flag) if path == 'cli' else box.run(path)
            eff = box.effects_since()
            forced = flag or cforce is True
            e.cover('force:forced' if forced else 'force:not-forced')
            base = 'C14/%s/force' % path
            if not X.is_ok(r):
                ctx.violation(e, base + '/run-fails', 'the run succeeds', True, wit, X.err_text(r))
                return ('err', 0)
            written = set()
            for op, pp, _ in eff:
                if op in ('create', 'overwrite'):
                    written.add(FS.file_name(pp).py())
            need = {'types.ts', 'commands.ts', 'index.ts'}
            should_regen = forced or state != 'matching'
            who = 'flag' if flag else ('config' if cforce is True else 'cache')
            if should_regen and not need <= written:
                ctx.violation(e, base + ('/%s-not-regenerated' % who), 'a forced run (flag or configuration) and a run without a matching cache regenerate every file', True, wit,
                              'state=%s flag=%s config.force=%s wrote=%s' % (state, flag, cforce, sorted(written)))
            if not should_regen and eff:
                ctx.violation(e, base + '/unforced-rewrites', 'an unforced run over a matching cache writes nothing', True, wit,
                              'state=%s flag=%s config.force=%s wrote=%s' % (state, flag, cforce, sorted(written)))
            return ('ok', len(eff))

        eng.explore(body, lambda e, o: ctx.sample(dict(scenario=name, outcome=str(o[1])[:80]), 2) if o[0] == 'ok' else None)
        ctx.finish_engine(eng)

    # ------------------------------------------------------------------------------------------
    def replay(self, f):
        w = f['witness']
        cls = f['key'].rsplit('/', 1)[1]
        if w['kind'] == 'rerun':
            # hash seeds cannot be chosen from outside: repeat the history, any repetition that shows a touched output directory reproduces
            for attempt in range(16 if cls == 'rerun-writes' else 1):
                steps = X.project_steps(w['files'], w['typegen'])
                steps += [(w['path'],) if w['path'] == 'build' else ('cli', [])] * w['runs']
                res = X.native_history(steps)
                if cls == 'first-run-fails':
                    return res[0]['rc'] != 0
                if cls == 'rerun-fails':
                    return any(r['rc'] != 0 for r in res[1:])
                for r in res[1:]:
                    if r['effects'] or r['touched']:
                        return True
            return False
        tg0 = X.typegen_conf(validationLibrary=w['mode'])
        tg = dict(tg0)
        if w['cforce'] is not None:
            tg['force'] = w['cforce']
        run = ('build',) if w['path'] == 'build' else ('cli', [])
        steps = X.project_steps({'src/lib.rs': OTHER if w['state'] == 'mismatching' else FILE_TPL % dict(k=0)}, tg0)
        if w['state'] != 'absent':
            steps.append(run)
        steps.append(('write', 'app/src-tauri/src/lib.rs', FILE_TPL % dict(k=0)))
        if w['state'] == 'corrupt':
            steps.append(('write', 'app/src/generated/.typecache', '{ this is not json'))
        steps.append(('write', 'app/src-tauri/tauri.conf.json', X.json.dumps(X.conf_doc(tg), indent=2)))
        steps.append(('cli', ['--force'] if w['flag'] else []) if w['path'] == 'cli' else run)
        res = X.native_history(steps)
        last = res[-1]
        written = {rel.rsplit('/', 1)[1] for op, rel in last['effects'] if op == 'write'}
        if cls == 'run-fails':
            return last['rc'] != 0
        if cls.endswith('-not-regenerated'):
            return last['rc'] == 0 and not {'types.ts', 'commands.ts', 'index.ts'} <= written
        if cls == 'unforced-rewrites':
            return bool(last['effects'])
        return False

    def mutants(self):
        def cache_inverted(prog):
            for fn in ('GenerationCache::needs_regeneration_with_events', 'GenerationCache::needs_regeneration'):
                fd = M.find_fn(prog, fn)
                if fd is not None and M.swap_binop(fd, 'Ne', 'Eq', nth=1 if fn.endswith('events') else 0):
                    return True
            return False

        def flag_not_folded(prog):
            # `if force { config.force = Some(true) }` loses its effect (fourth `true` literal of run_generate)
            fd = M.find_fn(prog, 'run_generate')
            return fd is not None and M.replace_bool_lit(fd, True, False, nth=3)
        return [('cache-comparison-inverted', cache_inverted), ('force-flag-not-folded-into-config', flag_not_folded)]

    quick_mutants = 2


if __name__ == '__main__':
    sys.exit(H.main(C14()))
