"""C11 -- validator attributes become exactly the declared Zod constraints (DESIGN 4/C11)."""
import sys
import z3

from rsx import harness as H, values as V, interp as IP, sym, pipeline as PL, mutate as M
from rsx.values import Str, Struct, deref, Opaque
from rsx.engine import Inconclusive, PathAbort, z_and, z_or, z_not, is_sym
from rsx.readers import ts as TS
from rsx.models import syn as SYN
from harness import common as C
from harness import shapes as S

CMD = '#[tauri::command]\npub fn '


def lit(src, kind='int'):
    s = src if isinstance(src, Str) else Str(src)
    return Struct('Literal', {'lit': Struct('#lit', {'kind': Str(kind), 'src': s, 'digits': s, 'suffix': Str('')})})


def punct(c):
    return SYN.punct(c, False)


class Num:
    """a numeric literal as written in the attribute: token list + expected value"""

    def __init__(self, tokens, value=None, text=None, neg=False):
        self.tokens = tokens
        self.value = value      # int / z3 Int for integer literals
        self.text = text        # Str of the canonical decimal text for non-integers
        self.neg = neg


def sym_int(name, ndigits, underscore=False, neg=False):
    ds = [sym.sym_char('%s_%d' % (name, i), '0123456789') for i in range(ndigits)]
    val = 0
    for d in ds:
        val = val * 10 + (d - 48)
    src = list(ds)
    if underscore and ndigits >= 2:
        src = ds[:1] + [ord('_')] + ds[1:]
    toks = ([punct('-')] if neg else []) + [lit(Str(tuple(src)))]
    return Num(toks, value=(-val if neg else val), neg=neg)


def concrete_num(text):
    neg = text.startswith('-')
    body = text[1:] if neg else text
    toks = ([punct('-')] if neg else []) + [lit(body, 'float' if ('.' in body or 'e' in body) else 'int')]
    try:
        v = int(body.replace('_', ''))
        return Num(toks, value=-v if neg else v, neg=neg)
    except ValueError:
        return Num(toks, text=Str(text.replace('_', '')), neg=neg)


class C11(C.PipelineCheck):
    id = 'C11'
    title = 'Validator attributes become exactly the declared Zod constraints'
    modes = ('zod',)
    required_covers = ('length', 'range', 'email', 'url', 'message', 'no-validator', 'symbolic-number', 'other-field-clean')

    def bounds(self, tier):
        q = tier != 'thorough'
        return {'validators': 'subsets and orders of {length, range, email, url} in one or two #[validate] attributes on String / numeric / Vec<String> / Option<String> fields, '
                              'next to an unvalidated field',
                'numbers': 'min/max present or absent; integer literals with %d symbolic digits (optional `_` separator, optional sign for range), plus the concrete literals '
                           '0, 007, 1.5, -0.5, 1e3, 2.5e-3, 1_000, 18446744073709551615, -1' % (2 if q else 3),
                'messages': 'message of %s characters in UTF-8 mode (ASCII + representative non-ASCII set), and ASCII messages of <=%d characters so that `)`, `(`, `,`, quotes, '
                            'backslashes and the words email/url/min/max arise' % ('0..3' if q else '0..4', 5 if q else 6)}

    def outside(self):
        return ['validators other than length/range/email/url (regex, custom, must_match, nested)', 'float formatting differences between Rust and JavaScript (floats are opaque tokens: '
                'the claim is that the literal text reaches the output)', 'length on numeric fields / range on strings (rejected by the validator crate itself)']

    def assumptions(self):
        return ['expected constraints: length(min,max) -> .min/.max on strings and arrays; range(min,max) -> .min/.max on numbers; email/url -> .email()/.url(); the declared message '
                'is the `message` option of the constraints of its validator; JS unescaping of the emitted string literal must give back the declared message',
                'f64 parse/print round trip of Rust is an axiom (values are compared as the literal text that reaches parse::<f64>)']

    def scenarios(self, tier):
        q = tier != 'thorough'
        for combo in ('length', 'range', 'email', 'url', 'email,url', 'url,email', 'email,length', 'length,email', 'length,range', 'email|length', 'length|url',
                      # constraints spread over several #[validate] attributes / items, in either order, next to a validator the tool does not translate
                      'range|custom', 'custom|range', 'range,custom', 'custom,range', 'length|custom', 'custom|length', 'custom|email|length'):
            yield ('combo/%s' % combo, dict(kind='combo', combo=combo))
        for which in ('length-min', 'length-max', 'range-min', 'range-max', 'range-neg', 'length-underscore'):
            yield ('number/%s' % which, dict(kind='number', which=which))
        yield ('number/concrete', dict(kind='number-concrete'))
        for n in range(0, (3 if q else 4) + 1):
            yield ('message-utf8/%d' % n, dict(kind='message', n=n, utf8=True))
        for n in (2, 3, 5) if q else (2, 3, 4, 5, 6):
            yield ('message-ascii/%d' % n, dict(kind='message', n=n, utf8=False))
        yield ('message-on-range', dict(kind='message-range'))
        yield ('fields', dict(kind='fields'))

    def mutant_scenarios(self, tier, name):
        for j in self.scenarios('quick'):
            if j[0] in ('combo/length', 'combo/email,url', 'number/range-max', 'message-utf8/2', 'fields', 'number/length-min'):
                yield j

    # -- reading ---------------------------------------------------------------------------------
    @staticmethod
    def read_fields(outputs, schema='FooSchema'):
        """-> dict key -> (base shape, [refinement (name, args)], optional count)"""
        mod = TS.parse_module(outputs['types.ts'], 'types.ts')
        for it in mod.items:
            if it.kind == 'Const' and it.name.py() == schema:
                root, chain = S.member_chain(it.init)
                if not (root.kind == 'Id' and root.name.py() == 'z' and chain and chain[0][0].py() == 'object'):
                    raise TS.Reject('schema is not z.object', 0, '', 'expr')
                out = {}
                for p in chain[0][1][0].props:
                    info = {}
                    base = S.zod_shape(p.value, info)
                    out[p.key.text.py()] = (base, info.get('refinements', []), info.get('optional', 0))
                return out
        raise TS.Reject('%s not found' % schema, 0, '', 'module')

    @staticmethod
    def refinement_view(refs):
        """[(name, value node or None, message Str or None)]"""
        out = []
        for (nm, args) in refs:
            val = None
            msg = None
            args = args or []
            for a in args:
                if a.kind == 'ObjectLit':
                    for p in a.props:
                        if p.kind == 'PropInit' and p.key.text.py() == 'message' and p.value.kind == 'Str':
                            msg = p.value.value
                elif val is None:
                    val = a
            out.append((nm if isinstance(nm, str) else nm.py(), val, msg))
        return out

    def check_number(self, e, node, num):
        """condition: emitted argument node denotes the declared number"""
        if node is None:
            return False
        if num.value is not None:
            if node.kind == 'OpaqueExpr':
                pl = node.val.payload
                if node.val.kind == 'int-display':
                    return pl == num.value if (is_sym(pl) or is_sym(num.value)) else int(pl) == int(num.value)
                if node.val.kind == 'f64-display':
                    # integer literal parsed as f64: the text that reached parse must spell the value
                    txt = pl if isinstance(pl, Str) else None
                    return V.str_eq(txt, self.int_text(num)) if txt is not None else False
                return False
            if node.kind == 'Num':
                t = node.text.py()
                try:
                    return float(t) == float(num.value) if not is_sym(num.value) else False
                except (TypeError, ValueError):
                    return False
            if node.kind == 'Unary' and node.op == '-' and node.arg.kind == 'Num':
                try:
                    return -float(node.arg.text.py()) == float(num.value) if not is_sym(num.value) else False
                except (TypeError, ValueError):
                    return False
            return False
        # non-integer literal: compare text
        if node.kind == 'OpaqueExpr' and node.val.kind == 'f64-display' and isinstance(node.val.payload, Str):
            return V.str_eq(node.val.payload, num.text)
        txt = None
        if node.kind == 'Num':
            txt = node.text.py()
        elif node.kind == 'Unary' and node.op == '-' and node.arg.kind == 'Num':
            txt = '-' + node.arg.text.py()
        if txt is None:
            return False
        try:
            return float(txt) == float(num.text.py())
        except (TypeError, ValueError):
            return False

    @staticmethod
    def int_text(num):
        toks = num.tokens
        body = deref(deref(toks[-1].f['lit']).f['src'])
        cs = tuple(c for c in body.cs if not (isinstance(c, int) and c == ord('_')))
        return Str(((ord('-'),) if num.neg else ()) + cs)

    def run_scenario(self, ctx, name, p):
        I = IP.Interp(ctx.prog)
        eng = ctx.engine(max_paths=80000, max_seconds=1500)
        eng.order_mode = 'insertion'
        kind = p['kind']

        def body(e):
            holes = {}
            thole = {}
            ftype = 'String'
            # expected: list of (refinement name, Num or None, message Str or None) in any order
            expected = []
            tag = kind
            attrs = ''
            if kind == 'combo':
                combo = p['combo']
                ftype = ('String', 'Option<String>')[e.choose(2)]
                groups = combo.split('|')
                parts = []
                for g in groups:
                    items = []
                    for v in g.split(','):
                        if v == 'length':
                            items.append('length(min = 2, max = 9)')
                            expected += [('min', concrete_num('2'), None), ('max', concrete_num('9'), None)]
                            e.cover('length')
                        elif v == 'range':
                            items.append('range(min = 1, max = 5)')
                            e.cover('range')
                        elif v == 'custom':
                            items.append('custom(function = "check_it")')
                        elif v == 'email':
                            items.append('email')
                            expected.append(('email', None, None))
                            e.cover('email')
                        else:
                            items.append('url')
                            expected.append(('url', None, None))
                            e.cover('url')
                    parts.append('#[validate(%s)]' % ', '.join(items))
                attrs = '\n    '.join(parts)
                if 'range' in combo:
                    # range belongs on a numeric field: put length (if any) on a string field is not possible in one attribute;
                    # use a numeric field and expect only the range bounds
                    ftype = 'i32'
                    expected = [('min', concrete_num('1'), None), ('max', concrete_num('5'), None)] if set(combo.replace('|', ',').split(',')) <= {'range', 'custom'} else None
                    if expected is None:
                        raise PathAbort()
                tag = 'combo:%s/%s' % (combo, ftype)
            elif kind == 'number':
                which = p['which']
                nd = (1, 2)[e.choose(2)] if ctx.tier != 'thorough' else (1, 2, 3)[e.choose(3)]
                e.cover('symbolic-number')
                if which.startswith('length'):
                    ftype = ('String', 'Vec<String>')[e.choose(2)]
                    num = sym_int('n', nd, underscore=(which == 'length-underscore'))
                    thole['n'] = num.tokens
                    key = 'max' if which == 'length-max' else 'min'
                    attrs = '#[validate(length(%s = HOLE_n))]' % key
                    expected = [(key, num, None)]
                else:
                    ftype = ('i32', 'f64', 'Option<u8>')[e.choose(3)]
                    num = sym_int('n', nd, neg=(which == 'range-neg'))
                    thole['n'] = num.tokens
                    key = 'max' if which == 'range-max' else 'min'
                    both = e.choose(2) == 1
                    attrs = '#[validate(range(%s = HOLE_n%s))]' % (key, ', max = 500' if (both and key == 'min') else '')
                    expected = [(key, num, None)] + ([('max', concrete_num('500'), None)] if (both and key == 'min') else [])
                tag = 'number:%s/%s' % (which, ftype)
            elif kind == 'number-concrete':
                lits = ['0', '007', '1.5', '-0.5', '1e3', '2.5e-3', '1_000', '18446744073709551615', '-1', '100.0']
                t = lits[e.choose(len(lits))]
                isint = t.lstrip('-').replace('_', '').isdigit()
                if isint and not t.startswith('-') and e.choose(2) == 0:
                    ftype = 'String'
                    num = concrete_num(t)
                    thole['n'] = num.tokens
                    attrs = '#[validate(length(min = HOLE_n))]'
                else:
                    ftype = 'f64'
                    num = concrete_num(t)
                    thole['n'] = num.tokens
                    attrs = '#[validate(range(min = HOLE_n))]'
                expected = [('min', num, None)]
                tag = 'number:literal %s/%s' % (t, ftype)
            elif kind == 'message':
                msg = sym.sym_str_utf8('m', p['n']) if p['utf8'] else sym.sym_str('m', p['n'], 'printable')
                holes['m'] = msg
                ftype = 'String'
                # the message first, in the middle, last, and followed by another validator: whatever follows the literal must survive
                pos = e.choose(4)
                attrs = ['#[validate(length(min = 1, max = 8, message = "HOLE_m"))]', '#[validate(length(message = "HOLE_m", min = 1, max = 8))]',
                         '#[validate(length(min = 1, message = "HOLE_m", max = 8))]', '#[validate(length(min = 1, max = 8, message = "HOLE_m"), email)]'][pos]
                expected = [('min', concrete_num('1'), msg), ('max', concrete_num('8'), msg)] + ([('email', None, None)] if pos == 3 else [])
                e.cover('message')
                e.cover('message-pos:%d' % pos)
                tag = 'message:%s' % ('utf8' if p['utf8'] else 'ascii')
            elif kind == 'message-range':
                msg = sym.sym_str('m', 2, 'printable')
                holes['m'] = msg
                ftype = 'f64'
                attrs = '#[validate(range(min = 0.5, message = "HOLE_m"))]'
                expected = [('min', concrete_num('0.5'), msg)]
                e.cover('message')
            else:
                # several fields: constraints stay on their own field; unvalidated fields carry nothing
                attrs = '#[validate(email)]'
                expected = [('email', None, None)]
                e.cover('no-validator')
            src = (C.HEADER + '#[derive(Serialize, Deserialize, Validate)]\npub struct Foo {\n    pub before: String,\n    %s\n    pub target: %s,\n    pub after: String,\n'
                   '    #[validate(length(max = 3))]\n    pub other: Vec<String>,\n    pub count: i32,\n}\n' % (attrs, ftype) + CMD + 'cmd(x: Foo) -> i32 { 0 }\n')
            proj = PL.Project({'src/main.rs': src}, holes, {'validation_library': 'zod'}, token_holes=thole)
            e.last_project = proj
            run = PL.run_model(I, proj)
            if run.result.var != 'Ok':
                return (proj, 'error')
            base = 'C11/%s' % tag

            def wit(m, proj=proj):
                return C.witness_of(proj, m, dict(mode='zod', expected=[[n, (PL.concretize_str(m, self.int_text(x)) if (x is not None and x.value is not None) else
                                                                           (PL.concretize_str(m, x.text) if x is not None else None)),
                                                                          (PL.concretize_str(m, mm) if mm is not None else None)] for (n, x, mm) in expected]))
            try:
                fields = self.read_fields(run.outputs)
            except TS.Reject as r:
                ctx.violation(e, base + '/unreadable', 'schema can be read back', True, wit, r.what)
                return (proj, 'unreadable')
            show = lambda m: 'target refinements %s' % [(n, None if v is None else v.kind, None if mm is None else PL.concretize_str(m, mm))
                                                        for (n, v, mm) in self.refinement_view(fields['target'][1])]
            # unvalidated fields carry no constraints; the other validated field keeps exactly its own
            for k in ('before', 'after', 'count'):
                if fields[k][1]:
                    ctx.violation(e, base + '/leak', 'fields without validators carry no constraints', True, wit, 'field %s has %s' % (k, [r[0] for r in fields[k][1]]))
            e.cover('other-field-clean')
            ov = self.refinement_view(fields['other'][1])
            if [x[0] for x in ov] != ['max']:
                ctx.violation(e, base + '/other-field', 'a constraint is never attached to a different field', True, wit, 'field other has %s' % [x[0] for x in ov])
            got = self.refinement_view(fields['target'][1])
            # every expected constraint present with the right number and message
            for (nm, num, msg) in expected:
                hits = [g for g in got if g[0] == nm]
                if len(hits) != 1:
                    ctx.violation(e, base + '/missing:%s' % nm, 'declared constraint is enforced', True, wit, show)
                    continue
                g = hits[0]
                if num is not None:
                    okn = self.check_number(e, g[1], num)
                    ctx.violation(e, base + '/value:%s' % nm, 'constraint carries the declared number', z_not(okn) if not isinstance(okn, bool) else not okn, wit, show)
                if msg is not None:
                    if g[2] is None:
                        ctx.violation(e, base + '/message-missing:%s' % nm, 'declared message is attached', True, wit, show)
                    else:
                        okm = V.str_eq(g[2], msg)
                        ctx.violation(e, base + '/message:%s' % nm, 'message reproduced character for character', z_not(okm) if not isinstance(okm, bool) else not okm, wit,
                                      lambda m, g=g, msg=msg: 'message %r expected %r' % (PL.concretize_str(m, g[2]), PL.concretize_str(m, msg)))
                elif g[2] is not None:
                    ctx.violation(e, base + '/message-spurious:%s' % nm, 'no message unless declared', True, wit, show)
            for g in got:
                if not any(g[0] == x[0] for x in expected):
                    ctx.violation(e, base + '/spurious:%s' % g[0], 'no constraint that was not declared', True, wit, show)
            return (proj, 'ok')

        def end(e, outcome):
            if outcome[0] == 'panic':
                m = e.get_model()
                pj = getattr(e, 'last_project', None)
                ctx.violation(e, 'C11/%s/panic' % kind, 'analysis does not panic', True,
                              lambda m: C.witness_of(pj, m, dict(mode='zod', panic=outcome[1].msg)) if pj is not None else dict(panic=outcome[1].msg), outcome[1].msg)
                return
            if outcome[0] != 'ok':
                return
            proj, st = outcome[1]
            m = e.get_model()
            ctx.sample(dict(scenario=name, holes={k: PL.concretize_str(m, v) for k, v in proj.holes.items()},
                            tokens={k: ' '.join(PL.token_text(m, t) for t in v) for k, v in proj.token_holes.items()}, status=st), 2)
            if ctx.rng.random() < 0.02:
                ctx.validated += 1
                w = C.witness_of(proj, m)
                rc, outs, err, _ = PL.run_native(w['files'], w['config'])
                mine = PL.concretize_str(m, Str(tuple(c for c in run_text(proj, e, I).cs if not isinstance(c, Opaque)))) if False else None
                if rc != 0 and 'panicked' not in err:
                    ctx.mismatches.append(dict(op='generate', holes=w['holes'], rc=rc, err=err[-200:]))

        eng.explore(body, end)
        ctx.finish_engine(eng)

    def replay(self, f):
        w = f['witness']
        if 'files' not in w:
            return False
        rc, outs, err, _ = PL.run_native(w['files'], w['config'])
        kind = f['key'].rsplit('/', 1)[1]
        if kind == 'panic':
            return 'panicked' in err
        eng = H.E.Engine()
        V.set_engine(eng)
        try:
            fields = self.read_fields({k: Str(v) for k, v in outs.items()})
        except (TS.Reject, KeyError):
            return kind == 'unreadable'
        if kind == 'unreadable':
            return False
        got = self.refinement_view(fields['target'][1])
        exp = w['expected']
        if kind == 'leak':
            return any(fields[k][1] for k in ('before', 'after', 'count'))
        if kind == 'other-field':
            return [x[0] for x in self.refinement_view(fields['other'][1])] != ['max']
        what, _, nm = kind.partition(':')
        hits = [g for g in got if g[0] == nm]
        ex = [x for x in exp if x[0] == nm]
        if what == 'missing':
            return len(hits) != 1
        if what == 'spurious':
            return len(hits) >= 1 and not ex
        if not hits or not ex:
            return False
        g = hits[0]
        if what == 'value':
            node = g[1]
            txt = None
            if node is not None and node.kind == 'Num':
                txt = node.text.py()
            elif node is not None and node.kind == 'Unary' and node.arg.kind == 'Num':
                txt = '-' + node.arg.text.py()
            try:
                return txt is None or float(txt) != float(ex[0][1])
            except (TypeError, ValueError):
                return True
        if what == 'message':
            return g[2] is None or g[2].py() != ex[0][2]
        if what == 'message-missing':
            return g[2] is None
        if what == 'message-spurious':
            return g[2] is not None
        return False

    def mutants(self):
        def max_dropped(prog):
            fd = M.find_fn(prog, 'ZodSchemaBuilder::apply_length_validator')
            return fd is not None and M.replace_str_lit(fd, '.min({}).max({})', '.min({})')

        def url_as_email(prog):
            fd = M.find_fn(prog, 'ZodSchemaBuilder::apply_string_validators')
            return fd is not None and M.replace_str_lit(fd, '.url()', '.email()')

        def no_escape(prog):
            fd = M.find_fn(prog, 'escape_js_string')
            return fd is not None and M.replace_str_lit(fd, '\\"', '"')
        return [('length-max-dropped', max_dropped), ('url-rendered-as-email', url_as_email), ('message-quote-not-escaped', no_escape)]

    quick_mutants = 2


def run_text(proj, e, I):
    return Str('')


if __name__ == '__main__':
    sys.exit(H.main(C11()))
