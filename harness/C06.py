"""C06 -- property keys and enum literals equal the names serde uses on the wire (DESIGN 4/C06)."""
import sys

from rsx import harness as H, values as V, interp as IP, sym, pipeline as PL, mutate as M
from rsx.values import Str, deref
from rsx.engine import Inconclusive, PathAbort, z_and, z_or, z_not
from rsx.readers import ts as TS
from harness import common as C
from harness import shapes as S

CMD = '#[tauri::command]\npub fn '
RULES = [None, 'lowercase', 'UPPERCASE', 'PascalCase', 'camelCase', 'snake_case', 'SCREAMING_SNAKE_CASE', 'kebab-case', 'SCREAMING-KEBAB-CASE']

# attribute patterns: (name, attribute text, has rename, skipped, alphabet of S or None)
PATH_ALPHA = 'abcdefghijklmnopqrstuvwxyz_:'
FIELD_PATTERNS = [
    ('none', '', False, False, None),
    ('rename', '#[serde(rename = "HOLE_s")]', True, False, 'printable'),
    ('skip', '#[serde(skip)]', False, True, None),
    ('skip_serializing_if', '#[serde(skip_serializing_if = "HOLE_s")]', False, False, PATH_ALPHA),
    ('default', '#[serde(default)]', False, False, None),
    ('rename,default', '#[serde(rename = "HOLE_s", default)]', True, False, 'printable'),
    ('default,rename', '#[serde(default, rename = "HOLE_s")]', True, False, 'printable'),
    ('default|rename', '#[serde(default)]\n    #[serde(rename = "HOLE_s")]', True, False, 'printable'),
    ('alias', '#[serde(alias = "HOLE_s")]', False, False, 'printable'),
    ('skip_deserializing', '#[serde(skip_deserializing)]', False, False, None),
    ('default=path', '#[serde(default = "HOLE_s")]', False, False, PATH_ALPHA),
    ('rename,skip_serializing_if', '#[serde(rename = "HOLE_s", skip_serializing_if = "Option::is_none")]', True, False, 'printable'),
    ('skip,default', '#[serde(skip, default)]', False, True, None),
    ('rename|skip_serializing_if', '#[serde(rename = "HOLE_s")]\n    #[serde(skip_serializing_if = "Option::is_none")]', True, False, 'printable'),
    # an item carrying a value *in front of* the item that matters (a walker that stops at the first item it does not model loses the rest)
    ('skip_serializing_if,rename', '#[serde(skip_serializing_if = "Option::is_none", rename = "HOLE_s")]', True, False, 'printable'),
    ('default=path,skip', '#[serde(default = "make_default", skip)]', False, True, None),
    ('alias,rename', '#[serde(alias = "old_name", rename = "HOLE_s")]', True, False, 'printable'),
    ('alias,alias,skip', '#[serde(alias = "a", alias = "b", skip)]', False, True, None),
]
VARIANT_PATTERNS = [
    ('none', '', False, False, None),
    ('rename', '#[serde(rename = "HOLE_s")]', True, False, 'printable'),
    ('alias', '#[serde(alias = "HOLE_s")]', False, False, 'printable'),
    ('skip', '#[serde(skip)]', False, True, None),
    ('alias,rename', '#[serde(alias = "Old", rename = "HOLE_s")]', True, False, 'printable'),
    ('rename,alias', '#[serde(rename = "HOLE_s", alias = "Old")]', True, False, 'printable'),
    ('alias,skip', '#[serde(alias = "Old", skip)]', False, True, None),
]


class C06(C.PipelineCheck):
    id = 'C06'
    title = 'Property keys and enum literals equal the names serde uses on the wire'
    required_covers = ('field:renamed', 'field:rule', 'field:skipped', 'variant:rule', 'variant:renamed', 'read:none', 'read:zod')
    extra = None

    def bounds(self, tier):
        q = tier != 'thorough'
        return {'container': 'rename_all in {none + the 8 serde conventions}',
                'item': 'struct field (ident [a-z_][a-z0-9_]*) or enum unit variant (ident [A-Z][A-Za-z0-9]*), identifier lengths %s' % ('1,2,4' if q else '1..6'),
                'attributes': '%d field patterns / %d variant patterns (rename, skip, skip_serializing_if, default, alias, skip_deserializing, combinations in either '
                              'order and in separate attributes); the attribute string S is symbolic, %s characters (printable ASCII for rename/alias, [a-z_:] for function paths)' % (
                                  len(FIELD_PATTERNS), len(VARIANT_PATTERNS), '0..3' if q else '0..5'),
                'reference': 'serde_derive %s internals/case.rs (apply_to_field / apply_to_variant) executed by the same engine; rename wins; only `skip` removes a field'}

    def outside(self):
        return ['rename(serialize = ..)/(deserialize = ..) forms', 'raw string literals in attributes', 'container-level rename, flatten, tag',
                'default_field_case other than its default (snake_case)', 'non-unit enum variants']

    def assumptions(self):
        return ['serde semantics reference: field-level rename wins over rename_all; rename_all uses the field rule for struct fields and the variant rule for '
                'enum variants; skip_serializing_if/default/alias/skip_deserializing do not change the serialized name or presence',
                'escape of attribute string literals in source: only \\" and \\\\ (other escape spellings are outside the bound)']

    def prepare(self, prog, tier):
        # oracle program: serde_derive's own case.rs from the cargo registry (version pinned by Cargo.lock)
        reg = H.registry_dir()
        lock = open(H.os.path.join(H.REPO, 'Cargo.lock')).read()
        ver = H._locked_version(lock, 'serde_derive')
        self.oracle_prog = IP.Program()
        self.oracle_prog.load([H.os.path.join(reg, 'serde_derive-%s' % ver, 'src', 'internals', 'case.rs')], None, 'serde_case')

    def scenarios(self, tier):
        for j in self.container_scenarios(tier):
            yield j
        q = tier != 'thorough'
        lens = (1, 3) if q else (1, 2, 3, 4, 5, 6)
        slens = (0, 1, 2) if q else (0, 1, 2, 3, 4)
        for ra in RULES:
            full = (not q) or ra in (None, 'camelCase')
            for pat in FIELD_PATTERNS:
                if not full and pat[0] not in ('none', 'rename', 'skip', 'alias', 'skip_serializing_if,rename', 'default=path,skip'):
                    continue
                # attribute values that are function paths need 4 characters to spell `skip`
                sl = slens if pat[4] != PATH_ALPHA else ((4,) if q else (1, 4, 6))
                yield ('field/%s/%s' % (ra, pat[0]), dict(kind='field', ra=ra, pat=pat, lens=lens if pat[0] in ('none', 'rename') else lens[:1],
                                                          slens=sl if pat[4] else (0,)))
            for pat in VARIANT_PATTERNS:
                vl = (1, 2, 4) if pat[0] == 'none' and q else lens
                vs = slens if pat[4] else (0,)
                if 'alias' in pat[0] and not q:
                    # the alias text never reaches the output: a long symbolic alias only multiplies token-printing paths
                    vl, vs = (1, 2, 4), tuple(x for x in vs if x <= 2)
                yield ('variant/%s/%s' % (ra, pat[0]), dict(kind='variant', ra=ra, pat=pat, lens=vl, slens=vs))

    def container_scenarios(self, tier):
        q = tier != 'thorough'
        for ra in RULES:
            if ra is None:
                continue
            for cs in (1, 2, 3, 4, 5):
                if q and ra not in ('camelCase', 'snake_case', 'SCREAMING-KEBAB-CASE') and cs not in (1, 5):
                    continue
                yield ('field/%s/none@container%d' % (ra, cs), dict(kind='field', ra=ra, pat=FIELD_PATTERNS[0], lens=(3,), slens=(0,), cstyle=cs))
                yield ('variant/%s/none@container%d' % (ra, cs), dict(kind='variant', ra=ra, pat=VARIANT_PATTERNS[0], lens=(4,), slens=(0,), cstyle=cs))

    def mutant_scenarios(self, tier, name):
        for j in self.scenarios('quick'):
            if j[0] in ('field/camelCase/none', 'field/None/rename', 'field/kebab-case/skip', 'variant/UPPERCASE/rename', 'field/camelCase/rename,default'):
                yield j

    def template(self, p):
        ra = '#[serde(rename_all = "%s")]\n' % p['ra'] if p['ra'] else ''
        if p['ra'] and p.get('cstyle'):
            # the container rule next to / after other container attributes, in one #[serde(..)] or several
            ra = ['#[serde(deny_unknown_fields)]\n#[serde(rename_all = "%s")]\n', '#[serde(rename_all = "%s", deny_unknown_fields)]\n',
                  '#[serde(deny_unknown_fields, rename_all = "%s")]\n', '#[serde(rename_all = "%s")]\n#[serde(deny_unknown_fields)]\n',
                  '#[serde(rename = "Other")]\n#[serde(rename_all = "%s")]\n'][p['cstyle'] - 1] % p['ra']
        attrs = p['pat'][1]
        if p['kind'] == 'field':
            return (C.HEADER + '#[derive(Serialize, Deserialize)]\n' + ra + 'pub struct Foo {\n    ' + attrs + '\n    pub HOLE_f: Option<i32>,\n    pub keep: bool,\n}\n' +
                    CMD + 'cmd(x: Foo) -> i32 { 0 }\n')
        return (C.HEADER + '#[derive(Serialize, Deserialize)]\n' + ra + 'pub enum Kind {\n    ' + attrs + '\n    HOLE_f,\n    Keep,\n}\n' + CMD + 'cmd(x: Kind) -> i32 { 0 }\n')

    # -- reference ---------------------------------------------------------------------------------
    def expected_name(self, OI, p, ident, s):
        name, attrs, has_rename, skipped, _ = p['pat']
        if skipped:
            return None
        if has_rename:
            return s
        if p['ra'] is None:
            return ident
        rule = deref(OI.call_path('RenameRule::from_str', [Str(p['ra'])])).vals[0]
        fn = 'RenameRule::apply_to_field' if p['kind'] == 'field' else 'RenameRule::apply_to_variant'
        return deref(OI.call_path(fn, [ident], rule))

    def expected_keep(self, OI, p):
        if p['ra'] is None:
            return Str('keep') if p['kind'] == 'field' else Str('Keep')
        rule = deref(OI.call_path('RenameRule::from_str', [Str(p['ra'])])).vals[0]
        if p['kind'] == 'field':
            return deref(OI.call_path('RenameRule::apply_to_field', [Str('keep')], rule))
        return deref(OI.call_path('RenameRule::apply_to_variant', [Str('Keep')], rule))

    # -- reading the output ------------------------------------------------------------------------
    @staticmethod
    def read_names(kind, mode, outputs):
        mod = TS.parse_module(outputs['types.ts'], 'types.ts')

        def find(k, name):
            for it in mod.items:
                if it.kind == k and it.name.py() == name:
                    return it
            return None
        if kind == 'field':
            if mode == 'none':
                it = find('Interface', 'Foo')
                if it is None:
                    raise TS.Reject('interface Foo not found', 0, '', 'module')
                return [m.key.text for m in it.members if m.kind == 'Prop']
            it = find('Const', 'FooSchema')
            if it is None:
                raise TS.Reject('FooSchema not found', 0, '', 'module')
            sh = S.zod_shape(it.init)
            if sh[0] != 'object':
                raise TS.Reject('FooSchema is not z.object', 0, '', 'expr')
            return [k for k, _ in sh[1]]
        if mode == 'none':
            it = find('TypeAlias', 'Kind')
            if it is None:
                raise TS.Reject('type Kind not found', 0, '', 'module')
            t = it.type
            alts = t.alts if t.kind == 'Union' else [t]
            if not all(a.kind == 'LitType' for a in alts):
                raise TS.Reject('enum alias is not a union of string literals', 0, '', 'type')
            return [a.value for a in alts]
        it = find('Const', 'KindSchema')
        if it is None:
            raise TS.Reject('KindSchema not found', 0, '', 'module')
        sh = S.zod_shape(it.init)
        if sh[0] != 'enum':
            raise TS.Reject('KindSchema is not z.enum', 0, '', 'expr')
        return list(sh[1])

    def run_scenario(self, ctx, name, p):
        I = IP.Interp(ctx.prog)
        OI = IP.Interp(self.oracle_prog)
        eng = ctx.engine(max_paths=80000, max_seconds=1500)
        eng.order_mode = 'insertion'
        pat = p['pat']

        def body(e):
            mode = ('none', 'zod')[e.choose(2)]
            n = p['lens'][e.choose(len(p['lens']))]
            if p['kind'] == 'field':
                ident = C.sym_ident('f', n)
            else:
                ident = C.sym_type_ident('f', n)
            holes = {'f': ident}
            s = None
            if pat[4]:
                k = p['slens'][e.choose(len(p['slens']))]
                s = sym.sym_str('s', k, pat[4])
                holes['s'] = s
            proj = PL.Project({'src/main.rs': self.template(p)}, holes, {'validation_library': mode})
            run = PL.run_model(I, proj)
            if run.result.var != 'Ok':
                return (mode, proj, 'error')
            exp_item = self.expected_name(OI, p, ident, s)
            exp_keep = self.expected_keep(OI, p)
            expected = ([exp_item] if exp_item is not None else []) + [exp_keep]
            e.cover('%s:%s' % (p['kind'], 'skipped' if exp_item is None else ('renamed' if pat[2] else 'rule')))
            base = 'C06/%s/%s/%s/%s' % (p['kind'], mode, p['ra'], pat[0])
            wit = lambda m, proj=proj, mode=mode: C.witness_of(proj, m, dict(mode=mode, kind=p['kind'], ra=p['ra'], pattern=pat[0],
                                                                              expected=[PL.concretize_str(m, x) for x in expected]))
            try:
                got = self.read_names(p['kind'], mode, run.outputs)
                e.cover('read:' + mode)
            except TS.Reject as r:
                ctx.violation(e, base + '/unreadable', 'declaration can be read back', True, wit, 'cannot read names: %s' % r.what)
                return (mode, proj, 'unreadable')
            if len(got) != len(expected):
                ctx.violation(e, base + '/presence', 'field present iff not #[serde(skip)]', True, wit,
                              lambda m: 'got %s expected %s' % ([PL.concretize_str(m, x) for x in got], [PL.concretize_str(m, x) for x in expected]))
                return (mode, proj, 'presence')
            ok = z_and(*[V.str_eq(a, b) for a, b in zip(got, expected)])
            ctx.violation(e, base + '/name', 'emitted name equals the serde wire name', z_not(ok) if not isinstance(ok, bool) else (not ok), wit,
                          lambda m: 'got %s expected %s' % ([PL.concretize_str(m, x) for x in got], [PL.concretize_str(m, x) for x in expected]))
            return (mode, proj, 'ok')

        def end(e, outcome):
            if outcome[0] == 'panic':
                e.cover('panic-path')
                return
            if outcome[0] != 'ok':
                return
            mode, proj, st = outcome[1]
            m = e.get_model()
            ctx.sample(dict(scenario=name, mode=mode, holes={k: PL.concretize_str(m, v) for k, v in proj.holes.items()}, status=st), 2)
            if ctx.rng.random() < 0.01:
                ctx.validated += 1
                w = C.witness_of(proj, m)
                rc, outs, err, _ = PL.run_native(w['files'], w['config'])
                if rc != 0 and st != 'error':
                    ctx.mismatches.append(dict(op='generate', holes=w['holes'], rc=rc, err=err[-200:]))

        eng.explore(body, end)
        ctx.finish_engine(eng)

    def replay(self, f):
        w = f['witness']
        rc, outs, err, _ = PL.run_native(w['files'], w['config'])
        eng = H.E.Engine()
        V.set_engine(eng)
        outputs = {k: Str(v) for k, v in outs.items()}
        kind = f['key'].rsplit('/', 1)[1]
        try:
            got = [x.py() for x in self.read_names(w['kind'], w['mode'], outputs)]
        except (TS.Reject, KeyError):
            return kind == 'unreadable'
        if kind == 'unreadable':
            return False
        return got != w['expected']

    def mutants(self):
        def rename_all_wins(prog):
            fd = M.find_fn(prog, 'NamingContext::compute_field_name')
            if fd is None:
                return False
            # swap the first two branches' conditions' roles: drop the explicit-rename branch
            st = fd.body['stmts']
            for s in st:
                if s['_'] == 'Stmt::Expr' and s['0']['_'] == 'Expr::If':
                    eb = s['0']['else_branch']
                    if eb['_'] == 'Some':
                        s['0'] = eb['0']['1']
                        return True
            return False

        def skip_never(prog):
            fd = M.find_fn(prog, 'SerdeParser::parse_field_serde_attrs')
            return fd is not None and M.replace_str_lit(fd, 'skip', 'skipp')
        return [('rename_all-wins-over-rename', rename_all_wins), ('skip-never-detected', skip_never)]

    quick_mutants = 2


if __name__ == '__main__':
    sys.exit(H.main(C06()))
