"""C02 -- generated modules are closed: every name resolves, none is declared twice (DESIGN 4/C02)."""
import sys

from rsx import harness as H, values as V, interp as IP, sym, pipeline as PL, mutate as M
from rsx.values import Str, deref
from rsx.engine import Inconclusive, PathAbort, z_and, z_or, z_not
from rsx.readers import ts as TS
from harness import common as C
from harness import shapes as S
from harness import tsresolve as R
from harness.C05 import CTX, QUICK_CTX, skeleton

CMD = '#[tauri::command]\npub fn '
SITES = ('param', 'return', 'field', 'channel', 'payload')


def project_src(site, ty, kind_decl):
    """a project in which every named type is defined; `ty` mentions HOLE_a (a struct or an enum, per kind_decl)"""
    src = C.HEADER + kind_decl
    if site == 'param':
        src += CMD + 'cmd(x: %s) -> i32 { 0 }\n' % ty
    elif site == 'return':
        src += CMD + 'cmd(y: i32) -> %s { todo!() }\n' % ty
    elif site == 'field':
        src += '#[derive(Serialize, Deserialize)]\npub struct Bar { pub f: %s }\n' % ty + CMD + 'cmd(x: Bar) -> Bar { todo!() }\n'
    elif site == 'channel':
        src += CMD + 'cmd(n: i32, ch: tauri::ipc::Channel<%s>) -> i32 { 0 }\n' % ty
    else:
        src += CMD + 'cmd(app: tauri::AppHandle, v: %s) { app.emit("evt", v).unwrap(); }\n' % ty
    return src


STRUCT_DECL = '#[derive(Serialize, Deserialize)]\npub struct HOLE_a { pub v: i32 }\n'
ENUM_DECL = '#[derive(Serialize, Deserialize)]\npub enum HOLE_a { One, Two }\n'


def role_of(chain):
    """the part of a constructor chain that decides how a nested name is qualified: the outermost map/tuple
    constructor (everything below it shares its fate), else the whole chain.  Keeps the keys of deeper chains
    (thorough tier) equal to those of the depth-1 chain that already fails for the same reason."""
    for c in chain:
        if c.startswith(('tup', 'hmap', 'bmap')):
            return c
    return '+'.join(chain) or '-'


class C02(C.PipelineCheck):
    id = 'C02'
    title = 'Generated modules are closed: every name resolves, none is declared twice'
    required_covers = ('resolved:types.ts', 'resolved:commands.ts', 'resolved:events.ts', 'index-checked', 'decl:struct', 'decl:enum', 'mapped', 'dup-event-types')

    def bounds(self, tier):
        q = tier != 'thorough'
        return {'projects': 'one project-defined serde type (struct or unit enum) with a symbolic name of 3..5 characters [A-Z][A-Za-z0-9]*, placed under every '
                            'chain of <=%d constructor contexts from {%s} at each of the five sites; all named types are defined or mapped' % (
                                1 if q else 2, ', '.join(QUICK_CTX)),
                'extras': 'the same event emitted from two sites; two commands sharing a type; a type-mapped name (Uuid, DateTime<Utc>) at every context; channel-only and parameterless commands',
                'modes': 'none and zod'}

    def outside(self):
        return ['type names that coincide with TypeScript globals (Array, Record, Promise, ...)', 'more than two emit sites', 'generic user types',
                'names referenced but not defined in the project (the property\'s precondition)']

    def assumptions(self):
        return ['resolution rules of the oracle: a type reference resolves to a declaration in the same module, an imported binding, a type parameter or a TS built-in; '
                '`types.X` in commands.ts/events.ts resolves iff types.ts exports X (interface/type alias for type positions, const for value positions)']

    def scenarios(self, tier):
        q = tier != 'thorough'
        chains = [()] + [(a,) for a in QUICK_CTX]
        if not q:
            chains += [(a, b) for a in QUICK_CTX for b in QUICK_CTX]
        for site in SITES:
            for decl in ('struct', 'enum'):
                yield ('%s/%s' % (site, decl), dict(kind='ctx', site=site, decl=decl, chains=chains))
        for site in SITES:
            yield ('mapped/%s' % site, dict(kind='mapped', site=site, chains=[()] + [(a,) for a in QUICK_CTX]))
        yield ('shared', dict(kind='shared'))
        yield ('dup-event', dict(kind='dup-event'))
        yield ('dup-event-types', dict(kind='dup-event-types'))
        yield ('minimal', dict(kind='minimal'))

    def mutant_scenarios(self, tier, name):
        for j in self.scenarios('quick'):
            if j[0] in ('return/struct', 'payload/struct', 'param/enum', 'minimal', 'dup-event'):
                yield j

    # -- the closure oracle ------------------------------------------------------------------------
    def check_closed(self, ctx, e, base, wit, outputs, expect_files):
        mods = {}
        for fname in sorted(outputs):
            if not fname.endswith('.ts'):
                continue
            try:
                mods[fname] = TS.parse_module(outputs[fname], fname)
            except TS.Reject as r:
                ctx.violation(e, base + '/unreadable:' + fname, 'module can be parsed', True, wit, r.what)
                return
        if 'types.ts' not in mods or 'index.ts' not in mods:
            ctx.violation(e, base + '/missing-file', 'types.ts and index.ts are written', True, wit, str(sorted(mods)))
            return
        ttypes, tvalues, tall = R.exports(mods['types.ts'])
        # 1. no exported name twice (per module)
        for fname, mod in mods.items():
            _, _, all_ = R.exports(mod)
            for i in range(len(all_)):
                for j in range(i + 1, len(all_)):
                    # an interface/type and a const may share a name (type and value namespaces)
                    if all_[i][0] != all_[j][0]:
                        continue
                    same = V.str_eq(all_[i][1], all_[j][1])
                    ctx.violation(e, base + '/duplicate-export:' + fname, 'no module declares the same exported name twice', same, wit,
                                  lambda m, a=all_[i][1]: 'duplicate export %s' % PL.concretize_str(m, a))
        # 2. references resolve
        for fname, mod in mods.items():
            if fname == 'index.ts':
                continue
            inames, stars = R.imports(mod)
            mtypes, mvalues, _ = R.exports(mod)
            e.cover('resolved:' + fname)
            for it in mod.items:
                tps = list(getattr(it, 'tparams', []) or [])
                for ref in R.type_refs(it):
                    parts = ref.parts
                    head = parts[0]
                    if len(parts) >= 2 and any(e.decide(V.str_eq(head, s)) for s in stars):
                        if fname != 'types.ts' and e.decide(V.str_eq(head, Str('types'))):
                            target = parts[1]
                            pool = tvalues if ref.kind == 'TypeOf' else ttypes
                            ok = R.any_eq(target, pool)
                            ctx.violation(e, base + '/unresolved:%s' % fname, 'types.X names an export of types.ts', z_not(ok) if not isinstance(ok, bool) else not ok, wit,
                                          lambda m, t=target, k=ref.kind: '%s types.%s is not exported by types.ts' % (k, PL.concretize_str(m, t)))
                        continue
                    if len(parts) >= 2 and e.decide(V.str_eq(head, Str('z'))):
                        continue
                    pool = (mvalues + inames) if ref.kind == 'TypeOf' else (mtypes + inames + tps + [Str(x) for x in R.BUILTIN_TYPES])
                    ok = R.any_eq(head, pool)
                    ctx.violation(e, base + '/unresolved:%s' % fname, 'every referenced name resolves', z_not(ok) if not isinstance(ok, bool) else not ok, wit,
                                  lambda m, t=head, k=ref.kind: '%s %s does not resolve in %s' % (k, PL.concretize_str(m, t), fname))
                # value references through the types namespace (types.XParamsSchema.safeParse)
                if it.kind == 'Function' and fname != 'types.ts':
                    for (root, prop, pos) in R.value_ids(it.body):
                        if prop is not None and e.decide(V.str_eq(root, Str('types'))):
                            ok = R.any_eq(prop, tvalues)
                            ctx.violation(e, base + '/unresolved:%s' % fname, 'types.X used as a value names a const exported by types.ts',
                                          z_not(ok) if not isinstance(ok, bool) else not ok, wit,
                                          lambda m, t=prop: 'value types.%s is not exported by types.ts' % PL.concretize_str(m, t))
                if it.kind == 'Const' and fname == 'types.ts':
                    # schema constants referenced on right-hand sides must be declared (order is C09's business)
                    for (root, prop, pos) in R.value_ids(it.init):
                        if len(root.cs) > 6 and e.decide(V.str_eq(Str(root.cs[-6:]), Str('Schema'))):
                            ok = R.any_eq(root, mvalues)
                            ctx.violation(e, base + '/unresolved:%s' % fname, 'schema constants referenced in types.ts are declared there',
                                          z_not(ok) if not isinstance(ok, bool) else not ok, wit,
                                          lambda m, t=root: 'schema %s is not declared' % PL.concretize_str(m, t))
        # 3. index.ts re-exports exactly the files written by this run
        srcs = sorted(it.source.py() for it in mods['index.ts'].items if it.kind == 'ExportStar')
        want = sorted('./' + f[:-3] for f in mods if f != 'index.ts')
        e.cover('index-checked')
        if srcs != want:
            ctx.violation(e, base + '/index', 'index.ts re-exports exactly the generated files', True, wit, 'index exports %s, files %s' % (srcs, want))

    def run_scenario(self, ctx, name, p):
        I = IP.Interp(ctx.prog)
        eng = ctx.engine(max_paths=60000, max_seconds=1500)
        eng.order_mode = 'insertion'
        kind = p['kind']

        def body(e):
            mode = ('none', 'zod')[e.choose(2)]
            holes = {}
            cfg = {'validation_library': mode}
            files = {}
            tag = kind
            if kind in ('ctx', 'mapped'):
                chain = p['chains'][e.choose(len(p['chains']))]
                site = p['site']
                if site == 'channel' and chain and chain[0] == 'ref':
                    raise PathAbort()
                if kind == 'ctx':
                    n = (3, 4, 5)[e.choose(3)]
                    a = C.sym_type_ident('a', n)
                    for w in ('Vec', 'Bar', 'Box', 'Map', 'Set', 'Date', 'Self', 'Array', 'Error', 'Some', 'None', 'State', 'Event'):
                        if len(w) == n:
                            e.assume(z_not(V.str_eq(a, Str(w))))
                    holes['a'] = a
                    ty = S.rust_text(skeleton(chain, ('leaf', 'a')))
                    files['src/main.rs'] = project_src(site, ty, STRUCT_DECL if p['decl'] == 'struct' else ENUM_DECL)
                    e.cover('decl:' + p['decl'])
                    tag = '%s:%s/%s' % (site, role_of(chain), p['decl'])
                else:
                    src_name, tgt = (('Uuid', 'string'), ('DateTime<Utc>', 'string'), ('Decimal', 'number'))[e.choose(3)]
                    cfg['type_mappings'] = {src_name: tgt}
                    ty = S.rust_text(skeleton(chain, ('prim', src_name)))
                    files['src/main.rs'] = project_src(site, ty, '')
                    e.cover('mapped')
                    tag = 'mapped:%s:%s' % (site, role_of(chain))
            elif kind == 'shared':
                files['src/main.rs'] = (C.HEADER + '#[derive(Serialize, Deserialize)]\npub struct Item { pub id: i32, pub kind: Kind, pub inner: Option<Box2> }\n'
                                        '#[derive(Serialize, Deserialize)]\npub enum Kind { A, B }\n#[derive(Serialize, Deserialize)]\npub struct Box2 { pub items: Vec<Item> }\n' +
                                        CMD + 'one(a: Item) -> Vec<Item> { todo!() }\n' + CMD + 'two(b: Item, k: Kind) -> Option<Kind> { todo!() }\n' +
                                        CMD + 'three() {}\n' + CMD + 'four(ch: tauri::ipc::Channel<Item>) {}\n')
                files['src/other.rs'] = CMD + 'five(app: tauri::AppHandle, i: Item) -> Result<Kind, String> { app.emit("item", i).unwrap(); todo!() }\n'
            elif kind == 'dup-event':
                files['src/main.rs'] = (C.HEADER + '#[derive(Serialize, Deserialize, Clone)]\npub struct Note { pub t: String }\n' + CMD +
                                        'a(app: tauri::AppHandle, n: Note) { app.emit("note", n.clone()).unwrap(); if true { app.emit("note", n).unwrap(); } }\n' + CMD +
                                        'b(window: tauri::Window) { window.emit("note", Note { t: String::new() }).unwrap(); window.emit("x-y", 1).unwrap(); window.emit("x_y", 2).unwrap(); }\n')
            elif kind == 'dup-event-types':
                # one event name emitted with different payload types (a struct that only the event reaches, a helper call, another
                # struct), in either order and in one or two files: whatever the listener names must be declared
                first = e.choose(3)
                sites = ['app.emit("job", Progress { stage: Stage::A }).unwrap();', 'app.emit("job", load_progress(1)).unwrap();',
                         'app.emit("job", Failure { why: String::new() }).unwrap();']
                order = sites[first:] + sites[:first]
                decls = ('#[derive(Serialize, Deserialize, Clone)]\npub struct Progress { pub stage: Stage }\n#[derive(Serialize, Deserialize, Clone)]\npub enum Stage { A, B }\n'
                         '#[derive(Serialize, Deserialize, Clone)]\npub struct Failure { pub why: String }\n')
                two_files = e.choose(2) == 1
                files['src/main.rs'] = C.HEADER + decls + CMD + 'a(app: tauri::AppHandle) { %s }\n' % order[0] + ('' if two_files else CMD + 'b(app: tauri::AppHandle) { %s %s }\n' % (order[1], order[2]))
                if two_files:
                    files['src/zeta.rs'] = CMD + 'b(app: tauri::AppHandle) { %s %s }\n' % (order[1], order[2])
                e.cover('dup-event-types')
            else:
                files['src/main.rs'] = C.HEADER + CMD + 'only() {}\n'
            proj = PL.Project(files, holes, cfg)
            run = PL.run_model(I, proj)
            if run.result.var != 'Ok':
                return (mode, proj, 'error')
            base = 'C02/%s/%s' % (tag, mode)
            wit = lambda m, proj=proj, mode=mode: C.witness_of(proj, m, dict(mode=mode))
            self.check_closed(ctx, e, base, wit, run.outputs, None)
            return (mode, proj, 'ok')

        def end(e, outcome):
            if outcome[0] == 'panic':
                e.cover('panic-path')
                return
            if outcome[0] != 'ok':
                return
            mode, proj, st = outcome[1]
            m = e.get_model()
            ctx.sample(dict(scenario=name, mode=mode, holes={k: PL.concretize_str(m, v) for k, v in proj.holes.items()}, status=st), 2)

        eng.explore(body, end)
        ctx.finish_engine(eng)

    def replay(self, f):
        w = f['witness']
        rc, outs, err, _ = PL.run_native(w['files'], w['config'])
        eng = H.E.Engine()
        V.set_engine(eng)
        outputs = {k: Str(v) for k, v in outs.items()}

        class Ctx:
            hits = []

            def violation(self, e, key, ob, cond, wit, detail=''):
                if cond is True or (not isinstance(cond, bool) and eng.feasible(cond)):
                    self.hits.append(key)
                    return True
                return False
        c = Ctx()
        c.hits = []
        base = f['key'].rsplit('/', 1)[0]

        def body(e):
            self.check_closed(c, e, base, None, outputs, None)
        eng.explore(body, None)
        return f['key'] in c.hits

    def mutants(self):
        def no_prefix(prog):
            fd = M.find_fn(prog, 'add_types_prefix')
            return fd is not None and M.replace_str_lit(fd, 'types.{}', 'typez.{}')

        def index_skips_events(prog):
            fd = M.find_fn(prog, 'FileWriter::write_typescript_file')
            return fd is not None and M.drop_method_call_stmt(fd, 'push')
        return [('types-prefix-misspelt', no_prefix), ('generated-files-not-recorded', index_skips_events)]

    quick_mutants = 2


if __name__ == '__main__':
    sys.exit(H.main(C02()))
