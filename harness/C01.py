"""C01 -- every generated file is syntactically valid TypeScript (DESIGN 4/C01)."""
import sys
import z3

from rsx import harness as H, values as V, interp as IP, sym, pipeline as PL, mutate as M
from rsx.values import Str
from rsx.engine import Inconclusive, PathAbort
from rsx.readers import ts as TS
from harness import common as C

CMD = '#[tauri::command]\npub fn '
BASE_TYPES = ['String', '&str', 'i32', 'u64', 'f64', 'bool', '()', 'Foo']
CTORS = ['Option<{}>', 'Vec<{}>', 'HashSet<{}>', 'HashMap<String, {}>', 'HashMap<{}, i32>', 'BTreeMap<String, {}>',
         '({}, i32)', '(i32, {})', 'Result<{}, String>', 'Result<{}>', '&{}', 'BTreeSet<{}>', '({}, {}, {})']
FOO = '#[derive(Serialize, Deserialize)]\npub struct Foo { pub a: i32 }\n'


def type_exprs(depth, quick):
    """Rust type expressions over the README table up to the given nesting depth"""
    lv = list(BASE_TYPES)
    out = list(lv)
    ctors = CTORS if not quick else CTORS[:11]
    for d in range(depth):
        nxt = []
        seeds = lv if d == 0 else (lv if not quick else lv[::7])
        for c in ctors:
            for t in seeds:
                if c == '&{}' and t.startswith('&'):
                    continue
                nxt.append(c.replace('{}', t))
        out += nxt
        lv = nxt
    seen = set()
    res = []
    for t in out:
        if t not in seen:
            seen.add(t)
            res.append(t)
    return res


class C01(C.PipelineCheck):
    id = 'C01'
    title = 'Every generated file is syntactically valid TypeScript'
    required_covers = ('parsed:types.ts', 'parsed:commands.ts', 'parsed:events.ts', 'parsed:index.ts')

    def bounds(self, tier):
        q = tier != 'thorough'
        return {
            'names': 'one symbolic dimension per scenario: command name, parameter name, struct name, field name, enum variant '
                     'name (idents of exactly 1..%d chars), serde rename value and rename_all x field (strings <=%d printable ASCII), '
                     'event name <=%d chars over [A-Za-z0-9_/:-], validator message <=%d chars UTF-8 mode (ASCII + representative set R), '
                     'type-mapping target <=%d chars' % ((6, 3, 4, 3, 3) if q else (8, 5, 6, 4, 4)),
            'types': 'all README type expressions of nesting depth <=%s at the five sites (parameter, return, field, channel, event payload), '
                     'plus raw identifiers and ::-qualified paths' % ('1 (depth 2 sampled 1/7)' if q else '2'),
            'modes': 'none and zod',
        }

    def outside(self):
        return ['TypeScript outside the subset the templates can emit', 'the text->AST step (syn::parse_file)',
                'two or more symbolic dimensions interacting in one file', 'names longer than the bounds', 'nesting depth > 2']

    def assumptions(self):
        return ['TS-subset reader (rsx/readers/ts.py) is the syntactic oracle: ECMAScript 2023 reserved words in strict mode, '
                'TypeScript declaration-name restrictions, string-literal and property-key grammar',
                'symbolic identifiers are assumed not to be Rust keywords (they would not parse as plain identifiers)']

    # -- scenario table --------------------------------------------------------------------------
    def scenarios(self, tier):
        q = tier != 'thorough'
        nid = 6 if q else 8
        for n in range(1, nid + 1):
            yield ('cmd-name/%d' % n, dict(kind='ident', hole='cmd', n=n,
                                           tpl=C.HEADER + CMD + 'HOLE_cmd(x: i32) -> i32 { 0 }\n'))
            yield ('param-name/%d' % n, dict(kind='ident', hole='p', n=n,
                                             tpl=C.HEADER + CMD + 'cmd(HOLE_p: i32, other: Option<String>) -> i32 { 0 }\n'))
            yield ('field-name/%d' % n, dict(kind='ident', hole='f', n=n,
                                             tpl=C.HEADER + '#[derive(Serialize, Deserialize)]\npub struct Foo { pub HOLE_f: i32 }\n' + CMD + 'cmd(x: Foo) -> i32 { 0 }\n'))
        for n in range(1, (5 if q else 7) + 1):
            yield ('struct-name/%d' % n, dict(kind='tident', hole='s', n=n,
                                              tpl=C.HEADER + '#[derive(Serialize, Deserialize)]\npub struct HOLE_s { pub a: i32 }\n' + CMD + 'cmd(x: HOLE_s) -> Vec<HOLE_s> { todo!() }\n'))
            yield ('variant-name/%d' % n, dict(kind='tident', hole='v', n=n,
                                               tpl=C.HEADER + '#[derive(Serialize, Deserialize)]\npub enum Kind { HOLE_v, Other }\n' + CMD + 'cmd(x: Kind) -> i32 { 0 }\n'))
        for n in range(0, (3 if q else 5) + 1):
            yield ('field-rename/%d' % n, dict(kind='str', hole='r', n=n, alphabet='printable',
                                               tpl=C.HEADER + '#[derive(Serialize, Deserialize)]\npub struct Foo { #[serde(rename = "HOLE_r")] pub a: i32, pub b: bool }\n' + CMD + 'cmd(x: Foo) -> i32 { 0 }\n'))
            yield ('variant-rename/%d' % n, dict(kind='str', hole='r', n=n, alphabet='printable',
                                                 tpl=C.HEADER + '#[derive(Serialize, Deserialize)]\npub enum Kind { #[serde(rename = "HOLE_r")] A, B }\n' + CMD + 'cmd(x: Kind) -> i32 { 0 }\n'))
        # rename values outside ASCII: letters, symbols, numerics that are not identifier characters (superscripts), spaces
        for n in ((1, 2) if q else (1, 2, 3)):
            yield ('field-rename-utf8/%d' % n, dict(kind='utf8', hole='r', n=n,
                                                    tpl=C.HEADER + '#[derive(Serialize, Deserialize)]\npub struct Foo { #[serde(rename = "HOLE_r")] pub a: i32, pub b: bool }\n' + CMD + 'cmd(x: Foo) -> i32 { 0 }\n'))
            yield ('variant-rename-utf8/%d' % n, dict(kind='utf8', hole='r', n=n,
                                                      tpl=C.HEADER + '#[derive(Serialize, Deserialize)]\npub enum Kind { #[serde(rename = "HOLE_r")] A, B }\n' + CMD + 'cmd(x: Kind) -> i32 { 0 }\n'))
        for ra in ('lowercase', 'UPPERCASE', 'PascalCase', 'camelCase', 'snake_case', 'SCREAMING_SNAKE_CASE', 'kebab-case', 'SCREAMING-KEBAB-CASE'):
            for n in (1, 3) if q else (1, 2, 3, 4, 5):
                yield ('rename-all/%s/%d' % (ra, n), dict(kind='ident', hole='f', n=n,
                                                          tpl=C.HEADER + '#[derive(Serialize, Deserialize)]\n#[serde(rename_all = "%s")]\npub struct Foo { pub HOLE_f: i32 }\n' % ra + CMD + 'cmd(x: Foo) -> i32 { 0 }\n'))
                yield ('rename-all-enum/%s/%d' % (ra, n), dict(kind='tident', hole='v', n=n,
                                                               tpl=C.HEADER + '#[derive(Serialize, Deserialize)]\n#[serde(rename_all = "%s")]\npub enum Kind { HOLE_v, Zed }\n' % ra + CMD + 'cmd(x: Kind) -> i32 { 0 }\n'))
        for n in range(1, (4 if q else 6) + 1):
            yield ('event-name/%d' % n, dict(kind='str', hole='e', n=n, alphabet=C.EVENT_ALPHABET,
                                             tpl=C.HEADER + CMD + 'cmd(app: tauri::AppHandle) { app.emit("HOLE_e", 1).unwrap(); }\n'))
        for n in range(0, (3 if q else 4) + 1):
            yield ('validator-message/%d' % n, dict(kind='utf8', hole='m', n=n, modes=('zod',),
                                                    tpl=C.HEADER + '#[derive(Serialize, Deserialize)]\npub struct Foo { #[validate(length(min = 1, max = 5, message = "HOLE_m"))] pub a: String }\n' + CMD + 'cmd(x: Foo) -> i32 { 0 }\n'))
        # a message on every validator that can carry one (the tool may ignore it, but must not emit it unescaped)
        for vform in ('email(message = "HOLE_m")', 'url(message = "HOLE_m")', 'range(min = 1, message = "HOLE_m")', 'length(equal = 3, message = "HOLE_m")',
                      'custom(function = "f", message = "HOLE_m")', 'email, length(min = 1, message = "HOLE_m")'):
            for n in ((1, 2) if q else (1, 2, 3)):
                yield ('validator-message-on/%s/%d' % (vform.split('(')[0].split(',')[0], n), dict(kind='utf8', hole='m', n=n, modes=('zod',),
                       tpl=C.HEADER + '#[derive(Serialize, Deserialize)]\npub struct Foo { #[validate(%s)] pub a: String, pub n: i32 }\n' % vform + CMD + 'cmd(x: Foo) -> i32 { 0 }\n'))
        for tgt in ('string', 'number', 'boolean'):
            for src_name, use in (('Uuid', 'Uuid'), ('PathBuf', 'PathBuf'), ('DateTime<Utc>', 'DateTime<Utc>')):
                yield ('mapping/%s/%s' % (tgt, src_name), dict(kind='concrete', config={'type_mappings': {src_name: tgt}},
                       tpl=C.HEADER + '#[derive(Serialize, Deserialize)]\npub struct Foo { pub id: %s, pub o: Option<%s> }\n' % (use, use) + CMD +
                       'cmd(app: tauri::AppHandle, x: %s, y: Foo, ch: tauri::ipc::Channel<%s>) -> Vec<%s> { app.emit("e", x).unwrap(); todo!() }\n' % (use, use, use)))
        for case in ('camelCase', 'snake_case', 'PascalCase', 'SCREAMING_SNAKE_CASE', 'kebab-case', 'SCREAMING-KEBAB-CASE', 'lowercase', 'UPPERCASE', 'bogus'):
            for n in (2, 4):
                yield ('param-case/%s/%d' % (case, n), dict(kind='ident', hole='p', n=n, config={'default_parameter_case': case},
                                                            tpl=C.HEADER + CMD + 'cmd(HOLE_p: i32) -> i32 { 0 }\n'))
                yield ('field-case/%s/%d' % (case, n), dict(kind='ident', hole='f', n=n, config={'default_field_case': case},
                                                            tpl=C.HEADER + '#[derive(Serialize, Deserialize)]\npub struct Foo { pub HOLE_f: i32 }\n' + CMD + 'cmd(x: Foo) -> i32 { 0 }\n'))
        # concrete type expressions at the five sites
        exprs = type_exprs(2, q)
        chunk = 12
        for site in ('param', 'return', 'field', 'channel', 'payload'):
            for i in range(0, len(exprs), chunk):
                yield ('types/%s/%d' % (site, i // chunk), dict(kind='types', site=site, exprs=exprs[i:i + chunk]))
        yield ('types/exotic', dict(kind='types', site='param', exprs=['std::path::PathBuf', 'Vec<std::string::String>', 'Option<crate::Foo>', "&'static str"]))
        yield ('types/exotic-field', dict(kind='types', site='field', exprs=['std::path::PathBuf', 'Option<crate::Foo>', 'Vec<std::string::String>']))
        yield ('raw-idents', dict(kind='concrete', tpl=C.HEADER + '#[derive(Serialize, Deserialize)]\npub struct Foo { pub r#type: i32, pub r#match: String }\n' + CMD + 'r#try(r#in: Foo, r#fn: i32) -> i32 { 0 }\n'))
        yield ('no-events-no-structs', dict(kind='concrete', tpl=C.HEADER + CMD + 'a() {}\n' + CMD + 'b(x: i32) -> String { todo!() }\n'))

    def mutant_scenarios(self, tier, name):
        for j in self.scenarios('quick'):
            if j[0].startswith('validator-message/2') or j[0].startswith('cmd-name/3') or j[0].startswith('field-rename/2'):
                yield j

    # -- running ---------------------------------------------------------------------------------
    def make_project(self, p, idx=None):
        """returns list of (label, project) for a scenario (types scenarios expand to several)"""
        k = p['kind']
        if k == 'types':
            out = []
            for t in p['exprs']:
                out.append((t, self.type_project(p['site'], t)))
            return out
        holes = {}
        if k == 'concrete':
            return [(None, PL.Project({'src/main.rs': p['tpl']}, {}, dict(p.get('config', {}))))]
        if k == 'ident':
            holes[p['hole']] = C.sym_ident(p['hole'], p['n'])
        elif k == 'tident':
            holes[p['hole']] = C.sym_type_ident(p['hole'], p['n'])
        elif k == 'str':
            holes[p['hole']] = sym.sym_str(p['hole'], p['n'], p.get('alphabet', 'printable'))
        elif k == 'utf8':
            holes[p['hole']] = sym.sym_str_utf8(p['hole'], p['n'])
        cfg = dict(p.get('config', {}))
        if p.get('mapping'):
            cfg['type_mappings'] = {p['mapping']: holes[p['hole']]}
        return [(None, PL.Project({'src/main.rs': p['tpl']}, holes, cfg))]

    @staticmethod
    def type_project(site, t):
        if site == 'param':
            src = C.HEADER + FOO + CMD + 'cmd(x: %s) -> i32 { 0 }\n' % t
        elif site == 'return':
            src = C.HEADER + FOO + CMD + 'cmd(y: Foo) -> %s { todo!() }\n' % t
        elif site == 'field':
            src = C.HEADER + FOO + '#[derive(Serialize, Deserialize)]\npub struct Bar { pub f: %s }\n' % t + CMD + 'cmd(x: Bar) -> i32 { 0 }\n'
        elif site == 'channel':
            src = C.HEADER + FOO + CMD + 'cmd(ch: tauri::ipc::Channel<%s>) -> i32 { 0 }\n' % t
        else:
            src = C.HEADER + FOO + CMD + 'cmd(app: tauri::AppHandle, v: %s) { app.emit("evt", v).unwrap(); }\n' % t
        return PL.Project({'src/main.rs': src}, {}, {})

    def run_scenario(self, ctx, name, p):
        I = IP.Interp(ctx.prog)
        eng = ctx.engine(max_paths=60000, max_seconds=1500)
        eng.order_mode = 'insertion'
        modes = p.get('modes', self.modes)
        dim = name.split('/')[0] + ('/' + name.split('/')[1] if name.startswith(('rename-all', 'param-case', 'field-case', 'types')) else '')

        def body(e):
            mode = modes[e.choose(len(modes))]
            projs = self.make_project(p)
            label, proj = projs[e.choose(len(projs))]
            proj.config['validation_library'] = mode
            run = PL.run_model(I, proj)
            res = run.result
            if res.var != 'Ok':
                return ('err', mode, proj, label, None)
            for fname in sorted(run.outputs):
                if not fname.endswith('.ts'):
                    continue
                text = run.outputs[fname]
                try:
                    TS.parse_module(text, fname)
                    e.cover('parsed:' + fname)
                except TS.Reject as r:
                    key = 'C01/%s/%s/%s@%s' % (mode, fname, r.label, dim)
                    ctx.violation(e, key, 'generated file parses as a TypeScript module', True,
                                  lambda m, proj=proj, fname=fname, r=r, mode=mode, label=label: C.witness_of(proj, m, dict(file=fname, what=r.what, role=r.label, mode=mode, label=label)),
                                  lambda m, r=r, text=text: 'reject "%s" after %r' % (r.what, PL.concretize_str(m, Str(text.cs[max(0, r.pos - 40):r.pos + 12]))))
            return ('ok', mode, proj, label, run)

        def end(e, outcome):
            if outcome[0] == 'panic':
                # panics belong to C15; they are recorded here only as "no output to check"
                e.cover('panic-path')
                return
            if outcome[0] != 'ok':
                return
            st, mode, proj, label, run = outcome[1]
            if run is not None:
                m = e.get_model()
                ctx.sample(dict(scenario=name, mode=mode, holes={k: PL.concretize_str(m, v) for k, v in proj.holes.items()}, label=label,
                                files=sorted(run.outputs)), 2)
                # translator validation against the native CLI on a sample of paths
                if ctx.rng.random() < (0.03 if ctx.tier == 'quick' else 0.02):
                    self.validate(ctx, e, m, proj, mode, run)

        eng.explore(body, end)
        ctx.finish_engine(eng)

    def validate(self, ctx, e, m, proj, mode, run):
        w = C.witness_of(proj, m)
        rc, outs, err, _ = PL.run_native(w['files'], w['config'])
        ctx.validated += 1
        for fname, text in run.outputs.items():
            mine = PL.concretize_str(m, Str(tuple(c for c in text.cs)))
            mine = PL.TS_LINE.sub('Generated at: <ts>', mine.replace('<timestamp>', '<ts>'))
            theirs = outs.get(fname)
            if theirs is None or sorted(mine.split('\n\n')) != sorted(theirs.split('\n\n')):
                ctx.mismatches.append(dict(op='generate', file=fname, mode=mode, holes=w['holes'], model=mine[-400:], native=(theirs or '')[-400:], rc=rc, err=err[-200:]))
                return

    def replay(self, f):
        w = f['witness']
        rc, outs, err, _ = PL.run_native(w['files'], w['config'])
        text = outs.get(w['file'])
        if text is None:
            return False
        eng = H.E.Engine()
        V.set_engine(eng)
        try:
            TS.parse_module(Str(text), w['file'])
        except TS.Reject as r:
            return r.label == w['role']
        return False

    def mutants(self):
        def no_escape(prog):
            fd = M.find_fn(prog, 'escape_js_string')
            return fd is not None and M.replace_str_lit(fd, '\\"', '"')

        def no_digit_prefix(prog):
            fd = M.find_fn(prog, 'to_ts_identifier')
            return fd is not None and M.drop_method_call_stmt(fd, 'insert')

        def key_always_bare(prog):
            fd = M.find_fn(prog, 'ts_property_key')
            return fd is not None and M.replace_str_lit(fd, '"{}"', '{}')
        return [('identifier-digit-prefix-dropped', no_digit_prefix), ('escape_js_string-no-quote-escape', no_escape),
                ('property-key-never-quoted', key_always_bare)]

    quick_mutants = 2


if __name__ == '__main__':
    sys.exit(H.main(C01()))
