"""C20 -- dependency ordering routines are correct on every graph (DESIGN 4/C20)."""
import itertools
import json
import z3

from rsx import harness as H, values as V, interp as IP, mutate as M, sym
from rsx.values import Str, Struct, Enum, Vec, HMap, HSet, deref
from rsx.engine import Inconclusive

NAMES = ['A', 'B', 'C', 'D']


def reach(adj, src):
    seen = set()
    st = [src]
    while st:
        x = st.pop()
        for y in adj.get(x, ()):
            if y not in seen:
                seen.add(y)
                st.append(y)
    return seen


class C20(H.Check):
    id = 'C20'
    title = 'Dependency ordering routines are correct on every graph'
    required_covers = ('topo:cyclic', 'topo:acyclic', 'order:cyclic', 'order:acyclic', 'topo:missing-dep-node')

    def bounds(self, tier):
        if tier == 'thorough':
            return {'topological_sort_types': 'all digraphs on 3 labelled nodes incl. self-loops (512) x all non-empty requested subsets, '
                                              'plus all digraphs on 4 nodes with out-degree <= 2 x requested subsets; dependency targets '
                                              'may be names with no entry in the map; every iteration order of every HashSet/HashMap',
                    'resolve_build_order': 'all digraphs on <=3 nodes incl. self-loops, one optional duplicate edge, isolated nodes, all iteration orders'}
        return {'topological_sort_types': 'all digraphs on 3 labelled nodes incl. self-loops (512 graphs) x all 7 non-empty requested subsets; '
                                          'every iteration order of every HashSet/HashMap',
                'resolve_build_order': 'all digraphs on 3 nodes incl. self-loops with nodes added explicitly (all or none); all digraphs on 2 nodes '
                                       'with any prefix of nodes explicit and one optional duplicate edge; all iteration orders of the node set and in-degree map'}

    def outside(self):
        return ['graphs with more than 4 nodes (the property text mentions random graphs up to 12)', 'n = 4 with out-degree 3-4',
                'more than one duplicate edge in the resolver']

    def assumptions(self):
        return ['HashMap/HashSet iteration order is modelled as an arbitrary permutation chosen per iteration',
                'String hashing/equality is structural (no SipHash collisions)']

    # -- scenarios --
    def scenarios(self, tier):
        n = 3
        # one scenario per (routine, adjacency row of node 0, requested subset) to spread over cores
        for row0 in range(1 << n):
            for req in range(1, 1 << n):
                yield ('topo3/r0=%d/req=%d' % (row0, req), dict(kind='topo', n=n, row0=row0, req=req, maxdeg=n))
        for row0 in range(1 << n):
            yield ('order3/r0=%d' % row0, dict(kind='order', n=n, row0=row0, variants=(tier == 'thorough')))
        for row0 in range(4):
            yield ('order2/r0=%d' % row0, dict(kind='order', n=2, row0=row0, variants=True))
        if tier == 'thorough':
            n = 4
            for row0 in range(1 << n):
                if bin(row0).count('1') > 2:
                    continue
                for req in range(1, 1 << n):
                    yield ('topo4/r0=%d/req=%d' % (row0, req), dict(kind='topo', n=n, row0=row0, req=req, maxdeg=2))

    def mutant_scenarios(self, tier, name):
        for j in self.scenarios('quick'):
            if name.startswith('topo') and j[1]['kind'] == 'topo' and j[1]['req'] == 7:
                yield j
            if name.startswith('order') and j[1]['kind'] == 'order' and j[1]['n'] == 2:
                yield j

    def run_scenario(self, ctx, name, p):
        if p['kind'] == 'topo':
            self.run_topo(ctx, p)
        else:
            self.run_order(ctx, p)

    # -- topological_sort_types --
    def run_topo(self, ctx, p):
        n = p['n']
        names = NAMES[:n]
        I = IP.Interp(ctx.prog)
        eng = ctx.engine(max_paths=400000)
        nat = H.Native.get()

        def body(e):
            # graph: rows are symbolic bit-vectors decided by the solver (row 0 fixed by the scenario)
            adj = {}
            for i in range(n):
                if i == 0:
                    bits = p['row0']
                else:
                    bits = 0
                    for j in range(n):
                        b = e.fresh_bool('e_%d_%d' % (i, j))
                        if e.decide(b):
                            bits |= 1 << j
                if bin(bits).count('1') > p['maxdeg']:
                    raise H.PathAbort()
                adj[names[i]] = [names[j] for j in range(n) if bits >> j & 1]
            # a node with no outgoing edge may be absent from the map altogether (missing-dependency node)
            g = I.call_path('TypeDependencyGraph::new', [])
            present = {}
            for x in names:
                if adj[x] or e.choose(2) == 0:
                    present[x] = True
                    I.call_path('TypeDependencyGraph::add_dependencies',
                                [Str(x), HSet([Str(y) for y in adj[x]])], g)
                else:
                    e.cover('topo:missing-dep-node')
            req = [names[j] for j in range(n) if p['req'] >> j & 1]
            order_before = e.pos
            res = I.call_path('TypeDependencyGraph::topological_sort_types', [HSet([Str(x) for x in req])], g)
            out = [deref(x).py() for x in res.v]
            return adj, req, out

        def end(e, outcome):
            if outcome[0] == 'panic':
                ctx.violation(e, 'C20/topo/panic', 'no panic', True, lambda m: {'panic': outcome[1].msg}, outcome[1].msg)
                return
            adj, req, out = outcome[1]
            cyc = any(x in reach(adj, x) for x in adj)
            e.cover('topo:cyclic' if cyc else 'topo:acyclic')
            want = set(req)
            for x in req:
                want |= reach(adj, x)
            w = lambda m: dict(deps=adj, requested=req, got=out)
            ctx.sample(dict(routine='topological_sort_types', deps=adj, requested=req, result=out), 4)
            if len(out) != len(set(out)):
                ctx.violation(e, 'C20/topo/duplicate', 'each type exactly once', True, w, 'duplicate in %s' % out)
            if set(out) != want:
                ctx.violation(e, 'C20/topo/closure', 'result = requested + transitive dependencies', True, w,
                              'got %s want %s' % (sorted(out), sorted(want)))
            pos = {x: i for i, x in enumerate(out)}
            for v_, ds in adj.items():
                for u in ds:
                    if u in pos and v_ in pos and u != v_ and v_ not in reach(adj, u):
                        if not pos[u] < pos[v_]:
                            ctx.violation(e, 'C20/topo/order', 'dependency before dependent (no common cycle)', True, w,
                                          '%s depends on %s but order is %s' % (v_, u, out))
            # validation against the native build (sampled)
            if ctx.rng.random() < (0.02 if ctx.tier == 'quick' else 0.01):
                deps = {k: v for k, v in adj.items()}
                r = nat.call('toposort', deps=deps, requested=req, repeats=300)
                ctx.validated += 1
                if 'ok' not in r or out not in r['ok']:
                    r2 = nat.call('toposort', deps=deps, requested=req, repeats=5000)
                    if 'ok' not in r2 or out not in r2['ok']:
                        ctx.mismatches.append(dict(op='toposort', deps=deps, requested=req, model=out, native=r2))

        eng.explore(body, end)
        ctx.finish_engine(eng)

    # -- resolve_build_order --
    def run_order(self, ctx, p):
        n = p['n']
        names = [x.lower() for x in NAMES[:n]]
        I = IP.Interp(ctx.prog)
        eng = ctx.engine(max_paths=400000)
        nat = H.Native.get()

        def node(x):
            return Struct('DependencyNode', {'name': Str(x), 'path': Str(''),
                                             'node_type': Enum('DependencyNodeType', 'Struct', [])})

        def body(e):
            edges = []
            for i in range(n):
                for j in range(n):
                    if i == 0:
                        on = bool(p['row0'] >> j & 1)
                    else:
                        on = e.decide(e.fresh_bool('e_%d_%d' % (i, j)))
                    if on:
                        edges.append((names[i], names[j]))
            dup = None
            if p['variants']:
                k = e.choose(n + 1)          # number of nodes added explicitly (others only via edges)
                if edges and e.choose(2) == 1:
                    dup = edges[e.choose(len(edges))]
            else:
                k = n if e.choose(2) == 0 else 0
            explicit = names[:k]
            r = I.call_path('DependencyResolver::new', [])
            for x in explicit:
                I.call_path('DependencyResolver::add_node', [node(x)], r)
            for (a, b) in edges + ([dup] if dup else []):
                d = Struct('Dependency', {'from': node(a), 'to': node(b),
                                          'dependency_type': Enum('DependencyType', 'Direct', [])})
                I.call_path('DependencyResolver::add_dependency', [d], r)
            res = deref(I.call_path('DependencyResolver::resolve_build_order', [], r))
            allnodes = sorted(set(explicit) | {x for e_ in edges for x in e_})
            if res.var == 'Ok':
                out = ('ok', [deref(deref(x).f['name']).py() for x in deref(res.vals[0]).v])
            else:
                ev = deref(res.vals[0])
                out = ('err', ev.var)
            return allnodes, edges + ([dup] if dup else []), out

        def end(e, outcome):
            if outcome[0] == 'panic':
                ctx.violation(e, 'C20/order/panic', 'no panic', True, lambda m: {'panic': outcome[1].msg}, outcome[1].msg)
                return
            nodes, edges, out = outcome[1]
            adj = {}
            for a, b in edges:
                adj.setdefault(a, []).append(b)
            cyc = any(x in reach(adj, x) for x in nodes)
            e.cover('order:cyclic' if cyc else 'order:acyclic')
            w = lambda m: dict(nodes=nodes, edges=edges, got=out)
            ctx.sample(dict(routine='resolve_build_order', nodes=nodes, edges=edges, result=out), 3)
            if cyc:
                if out != ('err', 'CircularDependency'):
                    ctx.violation(e, 'C20/order/cycle-not-reported', 'CircularDependency iff cyclic', True, w, str(out))
            else:
                if out[0] != 'ok':
                    ctx.violation(e, 'C20/order/spurious-error', 'Ok iff acyclic', True, w, str(out))
                else:
                    o = out[1]
                    if sorted(o) != nodes:
                        ctx.violation(e, 'C20/order/nodes', 'every node exactly once', True, w, str(out))
                    pos = {x: i for i, x in enumerate(o)}
                    for a, b in edges:
                        if a in pos and b in pos and not pos[b] < pos[a]:
                            ctx.violation(e, 'C20/order/order', 'dependency (to) before dependent (from)', True, w, str(out))
            if ctx.rng.random() < 0.02:
                r = nat.call('build_order', nodes=nodes, edges=[list(x) for x in edges], repeats=300)
                ctx.validated += 1
                mine = {'ok': out[1]} if out[0] == 'ok' else {'err': 'circular'}
                if 'ok' not in r or mine not in r['ok']:
                    r2 = nat.call('build_order', nodes=nodes, edges=[list(x) for x in edges], repeats=5000)
                    if 'ok' not in r2 or mine not in r2['ok']:
                        ctx.mismatches.append(dict(op='build_order', nodes=nodes, edges=edges, model=mine, native=r2))

        eng.explore(body, end)
        ctx.finish_engine(eng)

    # -- replay --
    def replay(self, f):
        nat = H.Native.get()
        w = f['witness']
        if f['key'].startswith('C20/topo'):
            r = nat.call('toposort', deps=w['deps'], requested=w['requested'], repeats=3000)
            if 'panic' in r:
                return 'panic' in f['key']
            outs = r.get('ok', [])
            return w.get('got') in outs
        r = nat.call('build_order', nodes=w['nodes'], edges=[list(x) for x in w['edges']], repeats=3000)
        if 'panic' in r:
            return 'panic' in f['key']
        got = w['got']
        mine = {'ok': got[1]} if got[0] == 'ok' else {'err': 'circular'}
        return mine in r.get('ok', [])

    # -- mutants --
    def mutants(self):
        def topo_preorder(prog):
            fd = M.find_fn(prog, 'TypeDependencyGraph::topological_visit')
            return fd is not None and M.move_last_stmt_to(fd, 2)

        def order_degree(prog):
            fd = M.find_fn(prog, 'DependencyResolver::resolve_build_order')
            return fd is not None and M.swap_binop(fd, 'Eq', 'Ne', 0)

        def topo_no_visited(prog):
            fd = M.find_fn(prog, 'TypeDependencyGraph::topological_visit')
            return fd is not None and M.drop_method_call_stmt(fd, 'insert', 1)

        def order_len(prog):
            fd = M.find_fn(prog, 'DependencyResolver::resolve_build_order')
            return fd is not None and M.swap_binop(fd, 'Ne', 'Gt', 0)
        return [('topo:push-before-deps', topo_preorder), ('order:queue-init-nonzero-degree', order_degree),
                ('topo:drop-visited-insert', topo_no_visited), ('order:len-check-weakened', order_len)]

    quick_mutants = 2


if __name__ == '__main__':
    import sys
    sys.exit(H.main(C20()))
