"""C17 -- a failed run is never remembered as up to date.

Histories  [good run on P0 ->] obstacle placed -> run on P (fails part-way) -> obstacle removed ->
non-forced recovery run, executed symbolically on both run paths.  The fault is a world state, not an
oracle: the path of exactly one file the run writes is occupied by a directory (so that write fails with
EISDIR), or a component of the output path is a regular file (the output path is unusable).  Which file
is obstructed is a nondeterministic choice explored exhaustively, i.e. every crash point of the write
sequence types.ts, commands.ts, [events.ts], index.ts, [dependency-graph.txt, .dot], .typecache."""
import sys

from rsx import harness as H, values as V, interp as IP, sym, pipeline as PL, mutate as M
from rsx.values import Str, deref
from rsx.engine import Inconclusive, PathAbort, z_and, z_or, z_not
from rsx.models import fs as FS
from harness import common as C
from harness import fsx as X

P0 = ('use serde::{Serialize, Deserialize};\n#[derive(Serialize, Deserialize)]\npub struct User { pub id: i32 }\n'
      '#[tauri::command]\npub fn get_user(id: i32) -> User { todo!() }\n')
P1 = ('use serde::{Serialize, Deserialize};\n#[derive(Serialize, Deserialize)]\npub struct User { pub id: i32, pub name: HOLE_t }\n'
      '#[derive(Serialize, Deserialize)]\npub struct Progress { pub done: u32 }\n'
      '#[tauri::command]\npub fn get_user(id: i32) -> User { todo!() }\n'
      '#[tauri::command]\npub fn HOLE_c(app: tauri::AppHandle, flag: bool) -> Result<(), String> {\n    app.emit("progress", Progress { done: 1 }).unwrap();\n    Ok(())\n}\n')
WRITTEN = ['types.ts', 'commands.ts', 'events.ts', 'index.ts', 'dependency-graph.txt', 'dependency-graph.dot', '.typecache']
PRIMS = ['String', 'bool', 'u32', 'f64']


class C17(H.Check):
    id = 'C17'
    title = 'A failed run is never remembered as up to date'
    required_covers = ('fault:types.ts', 'fault:commands.ts', 'fault:events.ts', 'fault:index.ts', 'fault:dependency-graph.txt', 'fault:dependency-graph.dot',
                       'fault:.typecache', 'fault:output-path', 'phase:first', 'phase:after-edit', 'failed-run', 'recovered')

    def bounds(self, tier):
        return {'faults': 'one obstacle per history: a directory occupying <output>/<f> for each f in %s, or a regular file occupying a component of a not yet existing output path' % WRITTEN,
                'histories': 'fault in a first run, and in the run after an output-changing edit of a project that was generated successfully; then the obstacle is removed and a '
                             'non-forced run follows; compared with a fresh generation into an empty directory',
                'paths': 'CLI generate and build script; both validation modes; dependency graph on (so that every file of the write sequence exists)',
                'project': 'two commands, two structs, one event; one command name (4 chars) and one field type (over %s) symbolic' % PRIMS}

    def outside(self):
        return ['faults other than a failing create/write (short writes, ENOSPC after partial content, crashes of the process itself)', 'two or more simultaneous faults',
                'read faults on sources or configuration']

    def assumptions(self):
        return ['writing to a path occupied by a directory fails and changes nothing; creating a directory below a regular file fails (rsx/models/fs.py)',
                'a failed run reports failure == the entry function returns Err (main turns that into exit status 1)']

    def scenarios(self, tier):
        for path in ('cli', 'build'):
            for phase in ('first', 'after-edit'):
                for f in WRITTEN + ['output-path']:
                    yield ('%s/%s/%s' % (path, phase, f), dict(path=path, phase=phase, fault=f))

    def mutant_scenarios(self, tier, name):
        for j in self.scenarios('quick'):
            if j[1]['fault'] in ('index.ts', 'dependency-graph.dot', 'commands.ts') and j[1]['phase'] == 'first':
                yield j

    def run_scenario(self, ctx, name, p):
        I = IP.Interp(ctx.prog)
        eng = ctx.engine(max_paths=20000, max_seconds=900)
        path, phase, fault = p['path'], p['phase'], p['fault']

        def body(e):
            e.order_mode = 'insertion'
            mode = ('none', 'zod')[e.choose(2)]
            t = PRIMS[e.choose(len(PRIMS))] if ctx.tier == 'thorough' else PRIMS[e.choose(2)]
            cname = C.sym_ident('c', 4, first=C.IDENT_LOWER, rest=C.IDENT_LOWER)
            e.assume(z_not(V.str_eq(cname, Str('main'))))
            holes = {'c': cname, 't': Str(t)}
            fresh_out = fault == 'output-path'
            out_cfg, out_abs = ('../ui/gen/ts', '/w/app/ui/gen/ts') if fresh_out else (X.OUT_REL, X.OUT)
            tg = X.typegen_conf(outputPath=out_cfg, validationLibrary=mode, visualizeDeps=True)
            proj = PL.Project({'src/lib.rs': P1}, holes, {})
            proj0 = PL.Project({'src/lib.rs': P0}, {}, {})
            base = 'C17/%s/%s' % (path, phase)
            e.cover('phase:' + phase)
            e.cover('fault:' + fault)

            def wit(m):
                return dict(path=path, phase=phase, fault=fault, mode=mode, typegen=tg, files=proj.concrete_files(m)[0], files0={'src/lib.rs': P0},
                            out_rel=out_abs[len('/w/'):])

            # reference: a fresh generation of the final project into an empty directory
            ref = X.Box(I, proj, typegen=tg, out_exists=False, out_abs=out_abs)
            r = ref.run(path)
            if not X.is_ok(r):
                ctx.violation(e, base + '/reference-fails', 'a fault-free generation succeeds', True, wit, X.err_text(r))
                return ('err', None)
            want = {n.py(): c for n, c in ref.out_files()}

            box = X.Box(I, proj0 if phase == 'after-edit' else proj, typegen=tg, out_exists=not fresh_out, out_abs=out_abs)
            if phase == 'after-edit':
                if fresh_out:
                    pass        # the first run creates the output directory; the fault then hits a nested new directory: not expressible, skip
                r = box.run(path)
                if not X.is_ok(r):
                    return ('err', None)
                box.set_project(proj)
            # place the obstacle
            if fresh_out:
                if phase == 'after-edit':
                    # the output directory exists by now: make it unusable by replacing it with a regular file
                    for d in list(box.w.descendants(Str(out_abs))):
                        box.w.entries.remove(d)
                    box.w.entries.remove(box.w.find(Str(out_abs)))
                    box.w.add_file(out_abs, Str('i am a file'))
                    obstacle = out_abs
                else:
                    box.w.add_file('/w/app/ui', Str('i am a file'))
                    obstacle = '/w/app/ui'
            else:
                obstacle = out_abs + '/' + fault
                old = box.w.find(Str(obstacle))
                if old is not None:
                    box.w.entries.remove(old)
                box.w.add_dir(obstacle)
            r = box.run(path)
            eff = box.effects_since()
            failed = not X.is_ok(r)
            cache_written = any(op in ('create', 'overwrite') and FS.file_name(pp).py() == '.typecache' for op, pp, _ in eff)
            if failed:
                e.cover('failed-run')
            if fault != '.typecache' and not failed:
                ctx.violation(e, base + '/failure-not-reported', 'a run that could not write one of its files reports failure', True, wit,
                              'obstacle at %s, run returned Ok; effects %s' % (obstacle, [(op, FS.file_name(pp).py()) for op, pp, _ in eff]))
            if failed and cache_written:
                ctx.violation(e, base + '/cache-written-by-failed-run', 'a failing run does not write the cache record', True, wit,
                              'obstacle at %s; effects %s' % (obstacle, [(op, FS.file_name(pp).py()) for op, pp, _ in eff]))
            # the cache record is written after every file it vouches for
            names = [FS.file_name(pp).py() for op, pp, _ in eff if op in ('create', 'overwrite')]
            if '.typecache' in names and names.index('.typecache') != len(names) - 1:
                ctx.violation(e, base + '/cache-not-last', 'the cache record is the last file written by a run', True, wit, repr(names))
            # remove the obstacle, recover
            ob = box.w.find(Str(obstacle))
            for d in list(box.w.descendants(Str(obstacle))):
                box.w.entries.remove(d)
            box.w.entries.remove(ob)
            r = box.run(path)
            if not X.is_ok(r):
                ctx.violation(e, base + '/recovery-fails', 'once the obstacle is gone the next run succeeds', True, wit, X.err_text(r))
                return ('err', None)
            e.cover('recovered')
            have = {n.py(): c for n, c in box.out_files()}
            for n, c in want.items():
                if n == '.typecache':
                    continue
                if n not in have:
                    ctx.violation(e, base + '/recovery-stale', 'after recovery the output directory equals a fresh generation', True, wit, 'missing %s' % n)
                    continue
                eq = X.content_eq(have[n], c)
                ctx.violation(e, base + '/recovery-stale', 'after recovery the output directory equals a fresh generation', z_not(eq) if eq is not True and eq is not False else (not eq), wit,
                              'content of %s differs from a fresh generation' % n)
            return ('ok', fault)

        eng.explore(body, lambda e, o: ctx.sample(dict(scenario=name, outcome=str(o[1])[:60]), 1) if o[0] == 'ok' else None)
        ctx.finish_engine(eng)

    # ------------------------------------------------------------------------------------------
    def replay(self, f):
        w = f['witness']
        cls = f['key'].rsplit('/', 1)[1]
        run = ('build',) if w['path'] == 'build' else ('cli', [])
        out_rel = w['out_rel']
        fresh_out = w['fault'] == 'output-path'
        # fresh reference
        ref = X.native_history(X.project_steps(w['files'], w['typegen']) + [run])
        if cls == 'reference-fails':
            return ref[0]['rc'] != 0
        want = {k: v for k, v in ref[0]['snap'].items() if k.startswith(out_rel + '/') and v is not None and not k.endswith('.typecache')}
        steps = X.project_steps(w['files0'] if w['phase'] == 'after-edit' else w['files'], w['typegen'])
        if not fresh_out:
            steps.append(('mkdir', out_rel))
        if w['phase'] == 'after-edit':
            steps.append(run)
            steps += [('write', 'app/src-tauri/' + rel, src) for rel, src in w['files'].items()]
        if fresh_out:
            if w['phase'] == 'after-edit':
                steps += [('rm', out_rel), ('write', out_rel, 'i am a file')]
                obstacle = out_rel
            else:
                steps.append(('write', 'app/ui', 'i am a file'))
                obstacle = 'app/ui'
        else:
            obstacle = out_rel + '/' + w['fault']
            steps += [('rm', obstacle), ('mkdir', obstacle)]
        steps += [run, ('rm', obstacle), run]
        res = X.native_history(steps)
        faulty, rec = res[-2], res[-1]
        wrote = [rel.rsplit('/', 1)[1] for op, rel in faulty['effects'] if op == 'write']
        if cls == 'failure-not-reported':
            return faulty['rc'] == 0
        if cls == 'cache-written-by-failed-run':
            return faulty['rc'] != 0 and '.typecache' in wrote
        if cls == 'cache-not-last':
            return '.typecache' in wrote and wrote.index('.typecache') != len(wrote) - 1
        if cls == 'recovery-fails':
            return rec['rc'] != 0
        if cls == 'recovery-stale':
            have = rec['snap']
            return any(have.get(k) != v for k, v in want.items())
        return False

    def mutants(self):
        def cache_saved_before_generation(prog):
            # `let cache = GenerationCache::new(..)?; if let Err(e) = cache.save(..) {..}` moved in front of generate_models
            fd = M.find_fn(prog, 'run_generate')
            fb = M.find_fn(prog, 'BuildSystem::generate_bindings')
            ok = fd is not None and M.move_stmts(fd, M.local_named('cache'), 2, M.local_named('generated_files'))
            ok2 = fb is not None and M.move_stmts(fb, M.local_named('cache'), 2, M.local_named('generated_files'))
            return ok and ok2

        def write_error_swallowed(prog):
            fd = M.find_fn(prog, 'FileWriter::write_typescript_file')
            return fd is not None and M.drop_try(fd)
        return [('cache-saved-before-generation', cache_saved_before_generation), ('write-error-swallowed', write_error_swallowed)]

    quick_mutants = 2


if __name__ == '__main__':
    sys.exit(H.main(C17()))
