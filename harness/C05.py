"""C05 -- each emitted TypeScript type denotes the JSON shape serde produces (DESIGN 4/C05)."""
import sys

from rsx import harness as H, values as V, interp as IP, sym, pipeline as PL, mutate as M
from rsx.values import Str
from rsx.engine import Inconclusive, PathAbort
from rsx.readers import ts as TS
from harness import common as C
from harness import shapes as S

CMD = '#[tauri::command]\npub fn '
SITES = ('param', 'return', 'field', 'channel', 'payload')

# one-hole constructor contexts: name -> function(inner skeleton) -> skeleton
CTX = {
    'opt': lambda t: ('opt', t),
    'vec': lambda t: ('vec', t),
    'hset': lambda t: ('hset', t),
    'bset': lambda t: ('bset', t),
    'hmap-v': lambda t: ('hmap', ('prim', 'String'), t),
    'hmap-k': lambda t: ('hmap', t, ('prim', 'i32')),
    'bmap-v': lambda t: ('bmap', ('prim', 'String'), t),
    'tup2-0': lambda t: ('tuple', [t, ('prim', 'i32')]),
    'tup2-1': lambda t: ('tuple', [('prim', 'bool'), t]),
    'tup3-1': lambda t: ('tuple', [('prim', 'u8'), t, ('prim', 'String')]),
    'tup4-3': lambda t: ('tuple', [('prim', 'u8'), ('prim', 'bool'), ('prim', 'f64'), t]),
    'result': lambda t: ('result', t, ('prim', 'String')),
    'result-e': lambda t: ('result', ('prim', 'i32'), t),
    'result1': lambda t: ('result1', t),
    'ref': lambda t: ('ref', t),
}
QUICK_CTX = ['opt', 'vec', 'hset', 'hmap-v', 'hmap-k', 'tup2-0', 'tup2-1', 'result', 'result1', 'ref', 'bmap-v', 'bset', 'tup3-1']
LEAF_LENS = {'quick': (3, 4, 6), 'thorough': (2, 3, 4, 5, 6)}


def skeleton(ctx_names, leaf):
    t = leaf
    for n in reversed(ctx_names):
        t = CTX[n](t)
    return t


def erase(t):
    """skeleton with leaves erased (role key)"""
    return S.rust_text(t).replace('HOLE_t', '*').replace('HOLE_', '')


class C05(C.PipelineCheck):
    id = 'C05'
    title = 'Each emitted TypeScript type denotes the JSON shape serde produces'
    required_covers = ('site:param', 'site:return', 'site:field', 'site:channel', 'site:payload', 'leaf:num', 'leaf:str', 'leaf:ref', 'leaf:bool')

    def bounds(self, tier):
        q = tier != 'thorough'
        return {
            'skeletons': ('chains of <=2 constructor contexts from {%s} around one leaf: every single context, every context under each of {opt, vec, hmap-v, tup2-1, result}, '
                          'and Option / & under every context' % ', '.join(QUICK_CTX)) if q else
                         ('every chain of <=2 constructor contexts from {%s} around one leaf (depth <=2 exhaustively), depth 3 for one representative context per renderer class' % ', '.join(sorted(CTX))),
            'leaves': 'symbolic type name of %s characters [A-Za-z][A-Za-z0-9]* (so every numeric width, str, bool, String and custom names arise), plus the unit type' % (list(LEAF_LENS['quick' if q else 'thorough']),),
            'reading': 'TS types read from types.ts (Params/struct members), commands.ts (Promise<..>), events.ts (handler payload); in zod mode parameter and '
                       'field positions hold Zod schemas and are compared by C10, the TS positions (return, channel, payload) are compared here',
        }

    def outside(self):
        return ['nesting depth > 3', 'tuples of more than 4 elements', 'arrays/slices/Box/qualified paths (reported by C01)', 'two symbolic leaves in one type']

    def assumptions(self):
        return ['denotation of Rust types follows the README table (serde_json): Option<T>=T|null, Vec/HashSet/BTreeSet=array, maps=Record, tuples=fixed arrays, Result<T,E>=T, &T=T, ()=void',
                'TypeScript precedence: postfix [] binds tighter than | (A | null[] is A | (null[]))']

    def scenarios(self, tier):
        q = tier != 'thorough'
        ctxs = QUICK_CTX if q else sorted(CTX)
        if q:
            rep = ['opt', 'vec', 'hmap-v', 'tup2-1', 'result']
            chains = [()] + [(a,) for a in ctxs] + [(a, b) for a in rep for b in ctxs] + [(a, 'opt') for a in ctxs if a not in rep] + \
                     [(a, 'ref') for a in ctxs if a not in rep]
            # two Options separated by a composite: text-level shortcuts ("already nullable") show up only at this depth
            chains += [('opt', b, 'opt') for b in ('tup2-1', 'tup2-0', 'hmap-v', 'vec', 'result')]
        else:
            chains = [()] + [(a,) for a in ctxs] + [(a, b) for a in ctxs for b in ctxs]
        if not q:
            rep = ['opt', 'vec', 'hmap-v', 'tup2-1', 'result']
            chains += [(a, b, c) for a in rep for b in rep for c in rep]
        for site in SITES:
            group = {}
            for ch in chains:
                # a reference cannot wrap a reference at a leaf, and payload/param sites accept everything
                group.setdefault(ch[0] if ch else '-', []).append(ch)
            for g, lst in group.items():
                yield ('%s/%s' % (site, g), dict(site=site, chains=lst))
        for site in SITES:
            yield ('%s/unit' % site, dict(site=site, chains=[(), ('opt',), ('vec',), ('result',), ('tup2-0',)], unit=True))

    def mutant_scenarios(self, tier, name):
        for j in self.scenarios('quick'):
            if j[0] in ('param/vec', 'return/result', 'field/hmap-v', 'payload/-', 'channel/opt'):
                yield j

    @staticmethod
    def project(site, ty_text):
        foo = ''
        if site == 'param':
            src = CMD + 'cmd(x: %s) -> i32 { 0 }\n' % ty_text
        elif site == 'return':
            src = CMD + 'cmd(y: i32) -> %s { todo!() }\n' % ty_text
        elif site == 'field':
            src = '#[derive(Serialize, Deserialize)]\npub struct Bar { pub f: %s }\n' % ty_text + CMD + 'cmd(x: Bar) -> i32 { 0 }\n'
        elif site == 'channel':
            src = CMD + 'cmd(ch: tauri::ipc::Channel<%s>) -> i32 { 0 }\n' % ty_text
        else:
            src = CMD + 'cmd(app: tauri::AppHandle, v: %s) { app.emit("evt", v).unwrap(); }\n' % ty_text
        return C.HEADER + foo + src

    # -- extraction of the emitted type ----------------------------------------------------------
    @staticmethod
    def emitted(site, mode, outputs):
        """-> TS type AST of the site, or None when this mode emits a Zod schema there; raises TS.Reject"""
        def find(mod, kind, name):
            for it in mod.items:
                if it.kind == kind and it.name.py() == name:
                    return it
            return None
        if site in ('param', 'field', 'channel'):
            if mode == 'zod' and site in ('param', 'field'):
                return None
            mod = TS.parse_module(outputs['types.ts'], 'types.ts')
            it = find(mod, 'Interface', 'Bar' if site == 'field' else 'CmdParams')
            if it is None:
                raise TS.Reject('declaration not found', 0, '', 'module')
            key = {'param': 'x', 'field': 'f', 'channel': 'ch'}[site]
            for m in it.members:
                if m.kind == 'Prop' and m.key.text.py() == key:
                    t = m.type
                    if site == 'channel':
                        if t.kind != 'Ref' or t.parts[-1].py() != 'Channel' or len(t.args) != 1:
                            raise TS.Reject('channel member is not Channel<T>', 0, '', 'type')
                        return t.args[0]
                    return t
            raise TS.Reject('member not found', 0, '', 'property-key')
        if site == 'return':
            mod = TS.parse_module(outputs['commands.ts'], 'commands.ts')
            f = find(mod, 'Function', 'cmd')
            if f is None or f.ret is None or f.ret.kind != 'Ref' or f.ret.parts[-1].py() != 'Promise' or len(f.ret.args) != 1:
                raise TS.Reject('wrapper does not return Promise<T>', 0, '', 'type')
            return f.ret.args[0]
        mod = TS.parse_module(outputs['events.ts'], 'events.ts')
        f = find(mod, 'Function', 'onEvt')
        if f is None or not f.params or f.params[0].type is None or f.params[0].type.kind != 'FnType':
            raise TS.Reject('listener handler type not found', 0, '', 'type')
        return f.params[0].type.params[0].type

    def run_scenario(self, ctx, name, p):
        I = IP.Interp(ctx.prog)
        eng = ctx.engine(max_paths=80000, max_seconds=1500)
        eng.order_mode = 'insertion'
        site = p['site']
        lens = LEAF_LENS['quick' if ctx.tier != 'thorough' else 'thorough']
        memo = {}

        def check_one(e, mode, t, holes):
            """returns (ok, kind, got, want) for skeleton t under the current path"""
            proj = PL.Project({'src/main.rs': self.project(site, S.rust_text(t))}, holes, {'validation_library': mode})
            run = PL.run_model(I, proj)
            if run.result.var != 'Ok':
                return (True, 'error-result', None, None, proj)
            try:
                ast = self.emitted(site, mode, run.outputs)
            except TS.Reject as r:
                return (False, 'unreadable', r.what, None, proj)
            if ast is None:
                return (True, 'zod-position', None, None, proj)
            got = S.norm(S.ts_shape(ast))
            want = S.norm(S.denote(t, holes))
            eq = S.shape_eq(got, want)
            return (eq, 'mismatch', got, want, proj)

        def body(e):
            mode = ('none', 'zod')[e.choose(2)]
            chain = p['chains'][e.choose(len(p['chains']))]
            if p.get('unit'):
                leaf = ('unit',)
                holes = {}
            else:
                n = lens[e.choose(len(lens))]
                leaf = ('leaf', 't')
                cs = [sym.sym_char('t_0', C.UPPER + C.IDENT_LOWER)] + [sym.sym_char('t_%d' % i, C.UPPER + C.IDENT_LOWER + '0123456789') for i in range(1, n)]
                holes = {'t': Str(tuple(cs))}
                e.assume(PL.not_rust_keyword(holes['t']))
                # a leaf is a primitive of the README table or a user type (upper-case initial, not a TS global)
                prims = [w for w in S.NUMERIC + S.STRINGS + ['bool'] if len(w) == n]
                e.assume(V.z_or(V.z_and(cs[0] >= 65, cs[0] <= 90), *[V.str_eq(holes['t'], Str(w)) for w in prims]))
                for w in ('Array', 'Record', 'Promise', 'Map', 'Set', 'Date', 'Object', 'Number', 'Boolean', 'Symbol', 'Error', 'RegExp', 'JSON', 'Math'):
                    if len(w) == n:
                        e.assume(V.z_not(V.str_eq(holes['t'], Str(w))))
                # names the analyser treats as constructors/framework types are separate inputs, not leaves
                for w in ('Vec', 'Option', 'Result', 'HashMap', 'HashSet', 'BTreeMap', 'BTreeSet', 'Channel', 'State', 'Window', 'Box', 'Self'):
                    if len(w) == n:
                        e.assume(V.z_not(V.str_eq(holes['t'], Str(w))))
            t = skeleton(chain, leaf)
            if site == 'channel' and t[0] == 'ref':
                raise PathAbort()
            e.cover('site:' + site)
            ok, kind, got, want, proj = check_one(e, mode, t, holes)
            if want is not None and want[0] in ('num', 'str', 'bool', 'ref'):
                e.cover('leaf:' + want[0])
            if ok is True:
                return (mode, chain, proj, kind)
            viol = (not ok) if isinstance(ok, bool) else ok
            cond = V.z_not(ok) if not isinstance(ok, bool) else True
            # minimality: a failure is attributed to the smallest failing sub-skeleton
            if e.feasible(cond):
                e.assume(cond)
                culprit = chain
                for k in range(1, len(chain) + 1):
                    sub = chain[k:]
                    ok2, kind2, _, _, _ = check_one(e, mode, skeleton(sub, leaf), holes)
                    bad2 = (ok2 is False) or (not isinstance(ok2, bool) and e.feasible(V.z_not(ok2)))
                    if not bad2:
                        break
                    culprit = sub
                    if not isinstance(ok2, bool):
                        e.assume(V.z_not(ok2))
                # ... and from the inside: what hangs below the failing constructors does not matter
                for k in range(len(culprit) - 1, 0, -1):
                    sub = culprit[:k]
                    ok2, kind2, _, _, _ = check_one(e, mode, skeleton(sub, leaf), holes)
                    bad2 = (ok2 is False) or (not isinstance(ok2, bool) and e.feasible(V.z_not(ok2)))
                    if not bad2 or kind2 != kind:
                        break
                    culprit = sub
                    if not isinstance(ok2, bool):
                        e.assume(V.z_not(ok2))
                key = 'C05/%s/%s/%s:%s' % (site, mode, kind, erase(skeleton(culprit, leaf)))
                ctx.violation(e, key, 'emitted type denotes the serde JSON shape', True,
                              lambda m, proj=proj, mode=mode, t=t: C.witness_of(proj, m, dict(site=site, mode=mode, type=S.rust_text(t), kind=kind,
                                                                                             culprit=erase(skeleton(culprit, leaf)))),
                              lambda m: 'type %s: emitted %s, expected %s' % (PL.fill_text(S.rust_text(t), {k: PL.concretize_str(m, v) for k, v in holes.items()}),
                                                                             got if isinstance(got, str) else S.show(got, m), S.show(want, m) if want else '-'))
            return (mode, chain, proj, kind)

        def end(e, outcome):
            if outcome[0] == 'panic':
                e.cover('panic-path')
                return
            if outcome[0] != 'ok':
                return
            mode, chain, proj, kind = outcome[1]
            m = e.get_model()
            ctx.sample(dict(site=site, mode=mode, type=PL.fill_text(proj.files['src/main.rs'].split('\n')[-2], {k: PL.concretize_str(m, v) for k, v in proj.holes.items()})), 3)
            if ctx.rng.random() < 0.01:
                self.validate(ctx, e, m, proj, mode)

        eng.explore(body, end)
        ctx.finish_engine(eng)

    def validate(self, ctx, e, m, proj, mode):
        w = C.witness_of(proj, m)
        I = IP.Interp(ctx.prog)
        rc, outs, err, _ = PL.run_native(w['files'], w['config'])
        ctx.validated += 1
        # compare against a fresh concrete model run
        eng2 = H.E.Engine()
        old = V.ENG
        V.set_engine(eng2)
        try:
            res = {}

            def body(e2):
                eng2.order_mode = 'insertion'
                p2 = PL.Project(w['files'], {}, {'validation_library': mode})
                r = PL.run_model(I, p2)
                for k, t in r.outputs.items():
                    res[k] = PL.text_of(t)
            eng2.explore(body, None)
            for k, t in res.items():
                if t is not None and outs.get(k) is not None and sorted(t.split('\n\n')) != sorted(outs[k].split('\n\n')):
                    ctx.mismatches.append(dict(op='generate', file=k, mode=mode, holes=w['holes'], model=t[-300:], native=outs[k][-300:]))
                    break
        finally:
            V.set_engine(old)

    def replay(self, f):
        w = f['witness']
        rc, outs, err, _ = PL.run_native(w['files'], w['config'])
        eng = H.E.Engine()
        V.set_engine(eng)
        site, mode = w['site'], w['mode']
        outputs = {k: Str(v) for k, v in outs.items()}
        try:
            ast = self.emitted(site, mode, outputs)
        except (TS.Reject, KeyError):
            return w['kind'] == 'unreadable'
        if ast is None:
            return False
        if w['kind'] == 'unreadable':
            return False
        got = S.norm(S.ts_shape(ast))
        want = S.norm(S.denote(parse_rust_type(w['type'], w['holes']), {k: Str(v) for k, v in w['holes'].items()}))
        return S.shape_eq(got, want) is not True

    def mutants(self):
        def set_as_record(prog):
            fd = M.find_fn(prog, 'TypeVisitor::visit_set')
            return fd is not None and M.replace_str_lit(fd, '{}[]', 'Set<{}>')

        def result_keeps_err(prog):
            fd = M.find_fn(prog, 'TypeResolver::extract_result_ok_type')
            return fd is not None and M.replace_int_lit(fd, 7, 6)

        def u128_string(prog):
            fd = M.find_fn(prog, 'TypeResolver::map_to_target_primitive')
            return fd is not None and M.replace_str_lit(fd, 'u128', 'u129')
        return [('set-rendered-as-Set', set_as_record), ('u128-not-numeric', u128_string), ('result-prefix-off-by-one', result_keeps_err)]

    quick_mutants = 2


def parse_rust_type(text, holes):
    """inverse of shapes.rust_text for the skeleton grammar used by this harness (concrete replay)"""
    text = text.strip()

    def split_top(s):
        out, depth, cur = [], 0, ''
        for ch in s:
            if ch in '<(':
                depth += 1
            elif ch in '>)':
                depth -= 1
            if ch == ',' and depth == 0:
                out.append(cur.strip())
                cur = ''
            else:
                cur += ch
        if cur.strip():
            out.append(cur.strip())
        return out
    if text == '()':
        return ('unit',)
    if text.startswith('&'):
        return ('ref', parse_rust_type(text[1:], holes))
    if text.startswith('(') and text.endswith(')'):
        return ('tuple', [parse_rust_type(x, holes) for x in split_top(text[1:-1])])
    for pre, k in (('Option<', 'opt'), ('Vec<', 'vec'), ('HashSet<', 'hset'), ('BTreeSet<', 'bset')):
        if text.startswith(pre):
            return (k, parse_rust_type(text[len(pre):-1], holes))
    for pre, k in (('HashMap<', 'hmap'), ('BTreeMap<', 'bmap')):
        if text.startswith(pre):
            a = split_top(text[len(pre):-1])
            return (k, parse_rust_type(a[0], holes), parse_rust_type(a[1], holes))
    if text.startswith('Result<'):
        a = split_top(text[7:-1])
        if len(a) == 1:
            return ('result1', parse_rust_type(a[0], holes))
        return ('result', parse_rust_type(a[0], holes), parse_rust_type(a[1], holes))
    if text.startswith('HOLE_'):
        return ('leaf', text[5:])
    return ('prim', text)


if __name__ == '__main__':
    sys.exit(H.main(C05()))
