#!/usr/bin/env python3
"""regenerate MANIFEST.json from the table below"""
import json, os
ROOT = os.path.dirname(os.path.dirname(os.path.abspath(__file__)))
props = [json.loads(l) for l in open(os.path.join(ROOT, 'properties.jsonl'))]
TECH = 'bounded symbolic execution of the repository source (rsx interpreter over syn AST) decided by z3; counterexamples replayed natively'
NOTE = ('trusted: z3, syn front end (astdump), the rsx interpreter and its std/syn/fs library models (validated per sampled path '
        'against the natively compiled repository), the oracle in the harness; bounds and exclusions are in evidence.coverage.bounds/outside_bounds')
CLAIMED = {
    'C01': ('§4 C01', 'the whole generation path (analysis, contexts, Tera templates) is executed symbolically on projects with one symbolic dimension each '
            '(names, rename values, event names, validator messages) and on enumerated README type expressions; every written file is read by an independent '
            'TypeScript-subset reader whose reject states are counterexamples, replayed through the real CLI'),
    'C02': ('§4 C02', 'a project-defined type with a symbolic name is placed under every constructor context at every site (plus type-mapped names, shared types, '
            'repeated events); all four modules are parsed and every type/value reference is resolved against declarations, imports, type parameters and the '
            'exports of types.ts, name equalities decided by the solver; duplicate exports and index.ts re-exports are checked'),
    'C03': ('§4 C03', 'directory layouts with symbolic directory names / extensions, decoy files and directories, all WalkDir enumeration orders, symbolic attribute '
            'paths, nested items, unparsable files; the set of wrappers and their invoke names is compared with the ground-truth command set'),
    'C04': ('§4 C04', 'symbolic parameter names and a symbolic last path segment of the parameter type; keys of the Params declaration and of the object reaching '
            'invoke are compared with Tauri\'s naming (heck) and the injected-parameter list, both modes'),
    'C05': ('§4 C05', 'type skeletons (constructor chains of depth <=2, thorough 3) with a symbolic leaf type name at the five translation sites; the emitted '
            'TypeScript type is parsed with TypeScript precedence and its JSON shape compared with the serde denotation'),
    'C06': ('§4 C06', 'symbolic identifiers and attribute strings under every rename_all convention and %d attribute patterns; emitted keys/literals are compared '
            'with serde_derive\'s own case.rs executed by the same engine' % 18),
    'C07': ('§4 C07', 'type dependency graphs (11 shapes, each edge through 19 constructor contexts, 6 root sites, two files, decoys, error types) with a symbolic root '
            'type name; the set of declarations read from types.ts is compared with graph reachability, both modes, two container schedules'),
    'C09': ('§4 C09', 'acyclic type graphs under every iteration order of the hash containers inside topological_sort_types/topological_visit; the order of schema '
            'constants in the Zod types.ts is checked against the identifiers each right-hand side mentions'),
    'C12': ('§4 C12', 'emit/emit_to at 19 statement placements x 11 receiver forms, symbolic event names (single and pairs), symbolic receiver types, payload forms with '
            'symbolic leaf types; listeners are read back from events.ts and compared with the expected set, names, payload shapes and identifier uniqueness'),
    'C20': ('§4 C20', 'all digraphs on 3 nodes x all requested subsets x all iteration orders of every hash container (thorough: 4 nodes, out-degree<=2): '
            'result checked against graph ground truth; a counterexample is a concrete graph + order, replayed on the native build'),
}
CLAIMED.update({
    'C08': ('§4 C08', 'differential run histories on both run paths, executed symbolically over a modelled file system: generate P, apply one edit from each output-affecting '
            'class (30 source edits, 6 configuration edits, 2 standalone-file edits, 4 lost files; new names / rename strings / event names symbolic), run non-forced, compare the '
            'output directory with a fresh generation of the edited project; pairs and edit-revert-edit triples in the thorough tier; the cache hash is an injective '
            'uninterpreted function, so hash equality is decided as equality of the symbolic hash inputs'),
    'C10': ('§4 C10', 'type skeletons with symbolic leaf names at struct-field, parameter and event-payload sites in Zod mode; the emitted schema expression is read into the '
            'JSON-shape domain and compared with the serde denotation and with the TypeScript type emitted for the same site'),
    'C11': ('§4 C11', 'validator attribute token streams with symbolic numbers (sign, digits, underscores, suffixes, decimals) and symbolic message strings (quotes, escapes, '
            'delimiters, keywords, non-ASCII) run through the parser and the Zod templates; emitted constraint calls are read back and compared with the attribute'),
    'C13': ('§4 C13', 'a reference run (insertion order) against runs under every iteration order of the unordered containers in scope (AstCache, struct discovery, '
            'dependency graph, collectors) on multi-file projects; every generated file must be byte-identical apart from the timestamp'),
    'C14': ('§4 C14', 'run; run histories on both run paths with symbolic struct/command names, where the second run flips the iteration order of every unordered container and '
            'explores all orders inside the cache hash; the second run\'s effect log must be empty; --force x configured force x cache state (absent, matching, mismatching, '
            'corrupt) matrix decides regeneration'),
    'C15': ('§4 C15', 'the private string kernels (case conversion, identifier sanitising, type-string splitting, validator number/message parsing, event-name conversion) and '
            'the whole pipeline run on symbolic strings including multi-byte characters; any reachable RustPanic (slice on a non-boundary, unwrap, index) is a counterexample'),
    'C16': ('§4 C16', 'CLI generate, CLI init and the build script run symbolically over a modelled file system whose output directory holds a foreign entry with a symbolic '
            'name (file or directory); every logged effect must be mkdir towards the output directory, a write/remove of a reserved generated name inside it, or (init) the '
            'configuration file; the clean-up unit is additionally driven directly with names up to 13 (18) characters; violations are replayed under strace'),
    'C17': ('§4 C17', 'fault histories on both run paths: for each file of the write sequence (and for an unusable output path) an obstacle is placed so that exactly that write '
            'fails, in a first run and in the run after an output-changing edit; the run must fail, must not write the cache record, the record must be the last write of '
            'any run, and after removing the obstacle a non-forced run must reach the state of a fresh generation'),
    'C18': ('§4 C18', 'commands whose parameters/returns use type-mapped and built-in names under every constructor context, symbolic mapped names; the generated text is compared '
            'relationally with the run in which the mapped name is replaced by its target primitive'),
    'C19': ('§4 C19', 'save_to_tauri_config/from_tauri_config over symbolic JSON documents (symbolic keys long enough to be "plugins"/"typegen", symbolic strings and integers, nested '
            'values) and symbolic settings: every key path outside plugins.typegen keeps its value and the settings read back; run_generate/build script over all flag subsets x '
            'file settings x defaults with symbolic unsupported validation libraries: output location, scanned project, mode, verbosity and rejection-before-write; run_init likewise'),
})
NA = {}
# properties whose thorough tier is not registered (see DESIGN.md 9.6): the quick command is then the only one
NO_THOROUGH = set(l.strip() for l in open(os.path.join(ROOT, 'tools', 'no_thorough.txt')) if l.strip() and not l.startswith('#')) \
    if os.path.exists(os.path.join(ROOT, 'tools', 'no_thorough.txt')) else set()
checks = []
for pid, (ref, text) in sorted(CLAIMED.items()):
    checks.append({
        'property_id': pid,
        'quick_cmd': './check %s --tier quick' % pid,
        'thorough_cmd': './check %s --tier thorough' % pid,
        'evidence_file': 'evidence/%s.json' % pid,
        'replay_cmd_template': './check %s --replay {path}' % pid,
        'engine': 'rsx',
        'level_claimed': {'category': 'model_checking', 'text': text, 'design_ref': ref},
        'level_note': NOTE,
        'technique': TECH,
    })
na = []
for p in props:
    if p['id'] not in CLAIMED:
        na.append({'property_id': p['id'], 'reason': NA.get(p['id'], 'harness not built yet / does not yet pass its gates on the unchanged tree (DESIGN.md §3.10); no other technique substituted')})
for c in checks:
    if c['property_id'] in NO_THOROUGH:
        del c['thorough_cmd']
m = {
    'version': 1,
    'setup_cmd': './setup.sh',
    'hooks': {'guard': 'cargo feature `verif-hooks` of the tauri-typegen crate (off by default)',
              'enable': "native/Cargo.toml depends on /repo with features = [\"verif-hooks\"]; setup.sh and every check rebuild native/ (and the plain CLI binary, hooks off) from /repo's working tree",
              'baseline_off_cmd': 'cd /repo && cargo test --workspace --no-fail-fast --offline', 'source_commits': ['093fc51'], 'add_only': True},
    'engines': [{'name': 'rsx', 'path': 'rsx/', 'serves_properties': sorted(CLAIMED), 'kind_free_text': 'KLEE-style symbolic executor for the Rust subset of the repository (python + z3), front end tools/astdump (syn), native replay native/'}],
    'checks': checks,
    'not_applicable': na,
    'notes': 'exit codes: 0 property held within bounds (or only KNOWN-FINDING lines), 1 VIOLATION (replayed natively), 2 no verdict',
}
json.dump(m, open(os.path.join(ROOT, 'MANIFEST.json'), 'w'), indent=1)
print('claimed', sorted(CLAIMED), 'na', len(na))
