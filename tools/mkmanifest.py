#!/usr/bin/env python3
"""regenerate MANIFEST.json from the table below"""
import json, os
ROOT = os.path.dirname(os.path.dirname(os.path.abspath(__file__)))
props = [json.loads(l) for l in open(os.path.join(ROOT, 'properties.jsonl'))]
TECH = 'bounded symbolic execution of the repository source (rsx interpreter over syn AST) decided by z3; counterexamples replayed natively'
NOTE = ('trusted: z3, syn front end (astdump), the rsx interpreter and its std/syn/fs library models (validated per sampled path '
        'against the natively compiled repository), the oracle in the harness; bounds and exclusions are in evidence.coverage.bounds/outside_bounds')
CLAIMED = {
    'C01': ('§4 C01', 'the whole generation path (analysis, contexts, Tera templates) is executed symbolically on projects with one symbolic dimension each '
            '(names, rename values, event names, validator messages) and on enumerated README type expressions; every written file is read by an independent '
            'TypeScript-subset reader whose reject states are counterexamples, replayed through the real CLI'),
    'C02': ('§4 C02', 'a project-defined type with a symbolic name is placed under every constructor context at every site (plus type-mapped names, shared types, '
            'repeated events); all four modules are parsed and every type/value reference is resolved against declarations, imports, type parameters and the '
            'exports of types.ts, name equalities decided by the solver; duplicate exports and index.ts re-exports are checked'),
    'C03': ('§4 C03', 'directory layouts with symbolic directory names / extensions, decoy files and directories, all WalkDir enumeration orders, symbolic attribute '
            'paths, nested items, unparsable files; the set of wrappers and their invoke names is compared with the ground-truth command set'),
    'C04': ('§4 C04', 'symbolic parameter names and a symbolic last path segment of the parameter type; keys of the Params declaration and of the object reaching '
            'invoke are compared with Tauri\'s naming (heck) and the injected-parameter list, both modes'),
    'C05': ('§4 C05', 'type skeletons (constructor chains of depth <=2, thorough 3) with a symbolic leaf type name at the five translation sites; the emitted '
            'TypeScript type is parsed with TypeScript precedence and its JSON shape compared with the serde denotation'),
    'C06': ('§4 C06', 'symbolic identifiers and attribute strings under every rename_all convention and %d attribute patterns; emitted keys/literals are compared '
            'with serde_derive\'s own case.rs executed by the same engine' % 18),
    'C07': ('§4 C07', 'type dependency graphs (11 shapes, each edge through 19 constructor contexts, 6 root sites, two files, decoys, error types) with a symbolic root '
            'type name; the set of declarations read from types.ts is compared with graph reachability, both modes, two container schedules'),
    'C09': ('§4 C09', 'acyclic type graphs under every iteration order of the hash containers inside topological_sort_types/topological_visit; the order of schema '
            'constants in the Zod types.ts is checked against the identifiers each right-hand side mentions'),
    'C12': ('§4 C12', 'emit/emit_to at 19 statement placements x 11 receiver forms, symbolic event names (single and pairs), symbolic receiver types, payload forms with '
            'symbolic leaf types; listeners are read back from events.ts and compared with the expected set, names, payload shapes and identifier uniqueness'),
    'C20': ('§4 C20', 'all digraphs on 3 nodes x all requested subsets x all iteration orders of every hash container (thorough: 4 nodes, out-degree<=2): '
            'result checked against graph ground truth; a counterexample is a concrete graph + order, replayed on the native build'),
}
NA = {}
checks = []
for pid, (ref, text) in sorted(CLAIMED.items()):
    checks.append({
        'property_id': pid,
        'quick_cmd': './check %s --tier quick' % pid,
        'thorough_cmd': './check %s --tier thorough' % pid,
        'evidence_file': 'evidence/%s.json' % pid,
        'replay_cmd_template': './check %s --replay {path}' % pid,
        'engine': 'rsx',
        'level_claimed': {'category': 'model_checking', 'text': text, 'design_ref': ref},
        'level_note': NOTE,
        'technique': TECH,
    })
na = []
for p in props:
    if p['id'] not in CLAIMED:
        na.append({'property_id': p['id'], 'reason': NA.get(p['id'], 'harness not built yet / does not yet pass its gates on the unchanged tree (DESIGN.md §3.10); no other technique substituted')})
m = {
    'version': 1,
    'setup_cmd': './setup.sh',
    'hooks': {'guard': 'tauri_typegen_verif', 'enable': "RUSTFLAGS='--cfg tauri_typegen_verif' (set by setup.sh and by every check when it rebuilds native/)",
              'baseline_off_cmd': 'cd /repo && cargo test --workspace --no-fail-fast --offline', 'source_commits': [], 'add_only': True},
    'engines': [{'name': 'rsx', 'path': 'rsx/', 'serves_properties': sorted(CLAIMED), 'kind_free_text': 'KLEE-style symbolic executor for the Rust subset of the repository (python + z3), front end tools/astdump (syn), native replay native/'}],
    'checks': checks,
    'not_applicable': na,
    'notes': 'exit codes: 0 property held within bounds (or only KNOWN-FINDING lines), 1 VIOLATION (replayed natively), 2 no verdict',
}
json.dump(m, open(os.path.join(ROOT, 'MANIFEST.json'), 'w'), indent=1)
print('claimed', sorted(CLAIMED), 'na', len(na))
