#!/bin/bash
# run every claimed check at the given tier, one after the other; summary in /verif/.cache/run_all.<tier>.log
tier=${1:-quick}
cd /verif
log=.cache/run_all.$tier.log
: > $log
for id in $(python3 -c "import json;print(' '.join(c['property_id'] for c in json.load(open('MANIFEST.json'))['checks']))" 2>/dev/null || ls harness | grep -o '^C[0-9][0-9]' | sort -u); do
  s=$(date +%s)
  ./check $id --tier $tier > .cache/out.$id.$tier.log 2>&1; rc=$?
  echo "$id rc=$rc $(( $(date +%s) - s ))s $(tail -1 .cache/out.$id.$tier.log | cut -c1-160)" >> $log
done
echo DONE >> $log
