//! astdump: parse Rust source with `syn` and emit the complete syntax tree as JSON.
//!
//! The tree is produced from syn's own `Debug` output (feature `extra-traits`), so field and
//! variant names are exactly syn's; a small generic parser turns that text into JSON.  Before
//! printing, well-known macros are rewritten into ordinary call/match expressions so that an
//! interpreter can execute them, `#[cfg(test)]` items are dropped and every function gets a
//! synthetic `#[__span(line_start, line_end, byte_start, byte_end)]` attribute.
//!
//! Usage:
//!   astdump file <path>...        one JSON object per line: {"path":..,"ast":..}
//!   astdump serve                 JSON lines on stdin {"kind":"file|expr|type|item|stmts","src":..}
//!                                 -> JSON lines {"ok":ast} | {"err":msg}
use proc_macro2::TokenStream;
use serde_json::{json, Map, Value};
use std::io::{BufRead, Write};
use syn::parse::{Parse, ParseStream, Parser};
use syn::punctuated::Punctuated;
use syn::spanned::Spanned;
use syn::visit_mut::{self, VisitMut};
use syn::{parse_quote, Expr, Token};

// ---------------------------------------------------------------------------------------------
// macro rewriting
// ---------------------------------------------------------------------------------------------

struct Rewriter;

const CALL_MACROS: &[&str] = &[
    "format", "println", "eprintln", "print", "eprint", "write", "writeln", "panic", "assert",
    "assert_eq", "assert_ne", "debug_assert", "debug_assert_eq", "debug_assert_ne", "unreachable",
    "todo", "unimplemented", "vec", "env", "include_str", "concat", "template", "dbg",
];

struct MatchesBody {
    scrutinee: Expr,
    pat: syn::Pat,
    guard: Option<Expr>,
}
impl Parse for MatchesBody {
    fn parse(input: ParseStream) -> syn::Result<Self> {
        let scrutinee: Expr = input.parse()?;
        input.parse::<Token![,]>()?;
        let pat = syn::Pat::parse_multi_with_leading_vert(input)?;
        let guard = if input.peek(Token![if]) {
            input.parse::<Token![if]>()?;
            Some(input.parse::<Expr>()?)
        } else {
            None
        };
        let _ = input.parse::<Option<Token![,]>>()?;
        Ok(MatchesBody { scrutinee, pat, guard })
    }
}

enum VecBody {
    List(Punctuated<Expr, Token![,]>),
    Repeat(Expr, Expr),
}
impl Parse for VecBody {
    fn parse(input: ParseStream) -> syn::Result<Self> {
        if input.is_empty() {
            return Ok(VecBody::List(Punctuated::new()));
        }
        let first: Expr = input.parse()?;
        if input.peek(Token![;]) {
            input.parse::<Token![;]>()?;
            let n: Expr = input.parse()?;
            return Ok(VecBody::Repeat(first, n));
        }
        let mut p = Punctuated::new();
        p.push_value(first);
        while input.peek(Token![,]) {
            p.push_punct(input.parse()?);
            if input.is_empty() {
                break;
            }
            p.push_value(input.parse()?);
        }
        Ok(VecBody::List(p))
    }
}

/// json!() body -> expression tree of __json_* calls
fn json_value(input: ParseStream) -> syn::Result<Expr> {
    if input.peek(syn::token::Brace) {
        let content;
        syn::braced!(content in input);
        let mut pairs: Vec<Expr> = vec![];
        while !content.is_empty() {
            let key: Expr = if content.peek(syn::LitStr) {
                let l: syn::LitStr = content.parse()?;
                parse_quote!(#l)
            } else {
                content.parse()?
            };
            content.parse::<Token![:]>()?;
            let v = json_value(&content)?;
            pairs.push(parse_quote!((#key, #v)));
            if content.peek(Token![,]) {
                content.parse::<Token![,]>()?;
            }
        }
        Ok(parse_quote!(__json_object(#(#pairs),*)))
    } else if input.peek(syn::token::Bracket) {
        let content;
        syn::bracketed!(content in input);
        let mut items: Vec<Expr> = vec![];
        while !content.is_empty() {
            items.push(json_value(&content)?);
            if content.peek(Token![,]) {
                content.parse::<Token![,]>()?;
            }
        }
        Ok(parse_quote!(__json_array(#(#items),*)))
    } else if input.peek(syn::Ident) && input.fork().parse::<syn::Ident>()? == "null" {
        input.parse::<syn::Ident>()?;
        Ok(parse_quote!(__json_null()))
    } else {
        // expression up to the next top-level comma
        let mut ts = TokenStream::new();
        while !input.is_empty() && !input.peek(Token![,]) {
            let tt: proc_macro2::TokenTree = input.parse()?;
            ts.extend(std::iter::once(tt));
        }
        let e: Expr = syn::parse2(ts)?;
        Ok(parse_quote!(__json_value(#e)))
    }
}

fn rewrite_macro(mac: &syn::Macro) -> Option<Expr> {
    let name = mac.path.segments.last()?.ident.to_string();
    let tokens = mac.tokens.clone();
    if name == "matches" {
        let b: MatchesBody = syn::parse2(tokens).ok()?;
        let (s, p) = (b.scrutinee, b.pat);
        return Some(match b.guard {
            Some(g) => parse_quote!(match #s { #p if #g => true, _ => false }),
            None => parse_quote!(match #s { #p => true, _ => false }),
        });
    }
    if name == "vec" {
        let b: VecBody = syn::parse2(tokens).ok()?;
        return Some(match b {
            VecBody::List(p) => parse_quote!(__macro_vec(#p)),
            VecBody::Repeat(e, n) => parse_quote!(__macro_vec_repeat(#e, #n)),
        });
    }
    if name == "json" {
        let parser = |input: ParseStream| json_value(input);
        return parser.parse2(tokens).ok();
    }
    if CALL_MACROS.contains(&name.as_str()) {
        let parser = Punctuated::<Expr, Token![,]>::parse_terminated;
        let args = parser.parse2(tokens).ok()?;
        let f = syn::Ident::new(&format!("__macro_{}", name), mac.path.span());
        return Some(parse_quote!(#f(#args)));
    }
    None
}

fn is_cfg_test(attrs: &[syn::Attribute]) -> bool {
    attrs.iter().any(|a| {
        a.path().is_ident("cfg")
            && a.meta
                .require_list()
                .map(|l| {
                    let t = l.tokens.to_string();
                    // test-only code and the verification hooks are not part of the program under analysis
                    t.trim() == "test" || t.contains("verif-hooks")
                })
                .unwrap_or(false)
    })
}

fn span_attr<T: Spanned>(node: &T) -> syn::Attribute {
    let sp = node.span();
    let (ls, le) = (sp.start().line, sp.end().line);
    let br = sp.byte_range();
    let (bs, be) = (br.start, br.end);
    parse_quote!(#[__span(#ls, #le, #bs, #be)])
}

impl VisitMut for Rewriter {
    fn visit_expr_mut(&mut self, e: &mut Expr) {
        if let Expr::Macro(m) = e {
            if let Some(mut new) = rewrite_macro(&m.mac) {
                self.visit_expr_mut(&mut new);
                *e = new;
                return;
            }
        }
        visit_mut::visit_expr_mut(self, e);
    }
    fn visit_stmt_mut(&mut self, s: &mut syn::Stmt) {
        if let syn::Stmt::Macro(m) = s {
            if let Some(mut new) = rewrite_macro(&m.mac) {
                self.visit_expr_mut(&mut new);
                *s = syn::Stmt::Expr(new, m.semi_token);
                return;
            }
        }
        visit_mut::visit_stmt_mut(self, s);
    }
    fn visit_file_mut(&mut self, f: &mut syn::File) {
        f.items.retain(|i| !item_is_test(i));
        visit_mut::visit_file_mut(self, f);
    }
    fn visit_item_mod_mut(&mut self, m: &mut syn::ItemMod) {
        if let Some((_, items)) = &mut m.content {
            items.retain(|i| !item_is_test(i));
        }
        visit_mut::visit_item_mod_mut(self, m);
    }
    fn visit_item_impl_mut(&mut self, i: &mut syn::ItemImpl) {
        i.items.retain(|it| match it {
            syn::ImplItem::Fn(f) => !is_cfg_test(&f.attrs),
            _ => true,
        });
        visit_mut::visit_item_impl_mut(self, i);
    }
    fn visit_item_fn_mut(&mut self, f: &mut syn::ItemFn) {
        let a = span_attr(f);
        visit_mut::visit_item_fn_mut(self, f);
        f.attrs.push(a);
    }
    fn visit_impl_item_fn_mut(&mut self, f: &mut syn::ImplItemFn) {
        let a = span_attr(f);
        visit_mut::visit_impl_item_fn_mut(self, f);
        f.attrs.push(a);
    }
    fn visit_trait_item_fn_mut(&mut self, f: &mut syn::TraitItemFn) {
        let a = span_attr(f);
        visit_mut::visit_trait_item_fn_mut(self, f);
        f.attrs.push(a);
    }
}

fn item_is_test(i: &syn::Item) -> bool {
    match i {
        syn::Item::Mod(m) => is_cfg_test(&m.attrs),
        syn::Item::Fn(f) => is_cfg_test(&f.attrs),
        syn::Item::Impl(f) => is_cfg_test(&f.attrs),
        syn::Item::Use(f) => is_cfg_test(&f.attrs),
        syn::Item::Struct(f) => is_cfg_test(&f.attrs),
        _ => false,
    }
}

// ---------------------------------------------------------------------------------------------
// Debug text -> JSON
// ---------------------------------------------------------------------------------------------

struct P<'a> {
    s: &'a [u8],
    i: usize,
}

const PUNCT_UNITS: &[&str] = &["Comma", "PathSep", "Plus", "Or"];

impl<'a> P<'a> {
    fn ws(&mut self) {
        while self.i < self.s.len() && (self.s[self.i] == b' ' || self.s[self.i] == b'\n') {
            self.i += 1;
        }
    }
    fn peek(&self) -> u8 {
        if self.i < self.s.len() {
            self.s[self.i]
        } else {
            0
        }
    }
    fn eat(&mut self, c: u8) -> bool {
        self.ws();
        if self.peek() == c {
            self.i += 1;
            true
        } else {
            false
        }
    }
    fn expect(&mut self, c: u8) {
        if !self.eat(c) {
            let lo = self.i.saturating_sub(60);
            let hi = (self.i + 60).min(self.s.len());
            panic!(
                "debug-parse: expected '{}' at {} near ...{}...",
                c as char,
                self.i,
                String::from_utf8_lossy(&self.s[lo..hi])
            );
        }
    }
    fn name(&mut self) -> String {
        self.ws();
        let st = self.i;
        while self.i < self.s.len() {
            let c = self.s[self.i];
            if c.is_ascii_alphanumeric() || c == b'_' || c == b'#' || c >= 0x80 {
                self.i += 1;
            } else if c == b':' && self.i + 1 < self.s.len() && self.s[self.i + 1] == b':' {
                self.i += 2;
            } else {
                break;
            }
        }
        String::from_utf8_lossy(&self.s[st..self.i]).into_owned()
    }
    /// raw Rust literal source (string, raw string, byte string, char, number)
    fn raw_literal(&mut self) -> String {
        self.ws();
        let st = self.i;
        let s = self.s;
        // prefixes b, c, r, br, cr
        let mut j = self.i;
        while j < s.len() && (s[j] == b'b' || s[j] == b'c' || s[j] == b'r') && j - st < 2 {
            j += 1;
        }
        let mut hashes = 0;
        let mut k = j;
        while k < s.len() && s[k] == b'#' {
            hashes += 1;
            k += 1;
        }
        let is_raw = j > st && s[st..j].contains(&b'r') && k < s.len() && s[k] == b'"';
        if is_raw {
            // raw string: ends at '"' followed by `hashes` '#'
            let mut m = k + 1;
            loop {
                if s[m] == b'"' && s[m + 1..].len() >= hashes && s[m + 1..m + 1 + hashes].iter().all(|c| *c == b'#') {
                    self.i = m + 1 + hashes;
                    break;
                }
                m += 1;
            }
        } else if j < s.len() && (s[j] == b'"' || s[j] == b'\'') && hashes == 0 {
            let q = s[j];
            let mut m = j + 1;
            while s[m] != q {
                if s[m] == b'\\' {
                    m += 1;
                }
                m += 1;
            }
            self.i = m + 1;
        } else {
            // number / other: up to ' ', ',' or '}' (handles 1e-3, 0x10, 1.5f32, -1)
            let mut m = st;
            while m < s.len() && s[m] != b' ' && s[m] != b',' && s[m] != b'}' && s[m] != b')' {
                m += 1;
            }
            self.i = m;
        }
        String::from_utf8_lossy(&s[st..self.i]).into_owned()
    }

    fn value(&mut self, field: &str, owner: &str) -> Value {
        self.ws();
        // raw atoms determined by field name
        if field == "sym" {
            let n = self.name();
            return Value::String(n);
        }
        if (field == "token" && owner.starts_with("Lit::")) || (field == "lit" && owner == "Literal") {
            let src = self.raw_literal();
            return lit_json(&src);
        }
        let c = self.peek();
        if c == b'[' {
            return self.list();
        }
        if c == b'(' {
            self.i += 1;
            let mut m = Map::new();
            m.insert("_".into(), Value::String("()".into()));
            let mut n = 0;
            loop {
                self.ws();
                if self.eat(b')') {
                    break;
                }
                let v = self.value("", "");
                m.insert(n.to_string(), v);
                n += 1;
                self.eat(b',');
            }
            return Value::Object(m);
        }
        if c == b'\'' || c == b'"' {
            // char / string in std Debug notation
            let src = self.raw_literal();
            return match syn::parse_str::<syn::Lit>(&src) {
                Ok(syn::Lit::Char(c)) => Value::String(c.value().to_string()),
                Ok(syn::Lit::Str(s)) => Value::String(s.value()),
                _ => Value::String(src),
            };
        }
        if c.is_ascii_digit() || c == b'-' {
            let st = self.i;
            while self.i < self.s.len() && (self.s[self.i].is_ascii_digit() || self.s[self.i] == b'-') {
                self.i += 1;
            }
            let t = std::str::from_utf8(&self.s[st..self.i]).unwrap();
            return json!(t.parse::<i64>().unwrap_or(0));
        }
        let name = self.name();
        if name.is_empty() {
            let lo = self.i.saturating_sub(60);
            let hi = (self.i + 60).min(self.s.len());
            panic!("debug-parse: unexpected at {}: ...{}...", self.i, String::from_utf8_lossy(&self.s[lo..hi]));
        }
        if name == "true" {
            return Value::Bool(true);
        }
        if name == "false" {
            return Value::Bool(false);
        }
        if name == "bytes" {
            // span: bytes(a..b) -> dropped by caller; still parse
            self.expect(b'(');
            while self.peek() != b')' {
                self.i += 1;
            }
            self.i += 1;
            return Value::Null;
        }
        self.ws();
        let mut m = Map::new();
        m.insert("_".into(), Value::String(name.clone()));
        if name == "TokenStream" {
            self.ws();
            let l = self.list();
            m.insert("items".into(), l);
            return Value::Object(m);
        }
        match self.peek() {
            b'{' => {
                self.i += 1;
                loop {
                    self.ws();
                    if self.eat(b'}') {
                        break;
                    }
                    let f = self.name();
                    self.expect(b':');
                    let v = self.value(&f, &name);
                    let drop = f == "span"
                        || (f.ends_with("_token") && is_unit(&v))
                        || (f == "apostrophe");
                    if !drop {
                        m.insert(f, v);
                    }
                    self.eat(b',');
                }
            }
            b'(' => {
                self.i += 1;
                let mut n = 0;
                loop {
                    self.ws();
                    if self.eat(b')') {
                        break;
                    }
                    let v = self.value("", &name);
                    m.insert(n.to_string(), v);
                    n += 1;
                    self.eat(b',');
                }
            }
            _ => {}
        }
        Value::Object(m)
    }
    fn list(&mut self) -> Value {
        self.expect(b'[');
        let mut out = vec![];
        loop {
            self.ws();
            if self.eat(b']') {
                break;
            }
            let v = self.value("", "");
            let is_punct = match &v {
                Value::Object(m) => {
                    m.len() == 1 && m.get("_").and_then(|x| x.as_str()).map(|n| PUNCT_UNITS.contains(&n)).unwrap_or(false)
                }
                _ => false,
            };
            if !is_punct {
                out.push(v);
            }
            self.eat(b',');
        }
        Value::Array(out)
    }
}

fn is_unit(v: &Value) -> bool {
    matches!(v, Value::Object(m) if m.len() == 1)
}

fn lit_json(src: &str) -> Value {
    let mut m = Map::new();
    m.insert("_".into(), Value::String("#lit".into()));
    m.insert("src".into(), Value::String(src.to_string()));
    match syn::parse_str::<syn::Lit>(src) {
        Ok(syn::Lit::Str(s)) => {
            m.insert("kind".into(), "str".into());
            m.insert("value".into(), Value::String(s.value()));
        }
        Ok(syn::Lit::Char(c)) => {
            m.insert("kind".into(), "char".into());
            m.insert("value".into(), Value::String(c.value().to_string()));
        }
        Ok(syn::Lit::Int(i)) => {
            m.insert("kind".into(), "int".into());
            m.insert("digits".into(), Value::String(i.base10_digits().to_string()));
            m.insert("suffix".into(), Value::String(i.suffix().to_string()));
        }
        Ok(syn::Lit::Float(f)) => {
            m.insert("kind".into(), "float".into());
            m.insert("digits".into(), Value::String(f.base10_digits().to_string()));
            m.insert("suffix".into(), Value::String(f.suffix().to_string()));
        }
        Ok(syn::Lit::Bool(b)) => {
            m.insert("kind".into(), "bool".into());
            m.insert("value".into(), Value::Bool(b.value));
        }
        Ok(syn::Lit::Byte(b)) => {
            m.insert("kind".into(), "byte".into());
            m.insert("value".into(), json!(b.value()));
        }
        Ok(syn::Lit::ByteStr(b)) => {
            m.insert("kind".into(), "bytestr".into());
            m.insert("value".into(), json!(b.value()));
        }
        _ => {
            m.insert("kind".into(), "other".into());
        }
    }
    Value::Object(m)
}

fn debug_to_json(text: &str) -> Value {
    let mut p = P { s: text.as_bytes(), i: 0 };
    p.value("", "")
}

fn dump_file(src: &str) -> Result<Value, String> {
    let mut f = syn::parse_file(src).map_err(|e| e.to_string())?;
    Rewriter.visit_file_mut(&mut f);
    Ok(debug_to_json(&format!("{:?}", f)))
}

fn dump_snippet(kind: &str, src: &str) -> Result<Value, String> {
    match kind {
        "file" => dump_file(src),
        "file_data" => {
            // the analysed program as *data*: exactly what syn::parse_file returns (no rewriting)
            let f = syn::parse_file(src).map_err(|e| e.to_string())?;
            Ok(debug_to_json(&format!("{:?}", f)))
        }
        "expr_data" => {
            let e: Expr = syn::parse_str(src).map_err(|e| e.to_string())?;
            Ok(debug_to_json(&format!("{:?}", e)))
        }
        "item_data" => {
            let t: syn::Item = syn::parse_str(src).map_err(|e| e.to_string())?;
            Ok(debug_to_json(&format!("{:?}", t)))
        }
        "expr" => {
            let mut e: Expr = syn::parse_str(src).map_err(|e| e.to_string())?;
            Rewriter.visit_expr_mut(&mut e);
            Ok(debug_to_json(&format!("{:?}", e)))
        }
        "type" => {
            let t: syn::Type = syn::parse_str(src).map_err(|e| e.to_string())?;
            Ok(debug_to_json(&format!("{:?}", t)))
        }
        "item" => {
            let mut t: syn::Item = syn::parse_str(src).map_err(|e| e.to_string())?;
            Rewriter.visit_item_mut(&mut t);
            Ok(debug_to_json(&format!("{:?}", t)))
        }
        "tokens" => {
            let t: TokenStream = src.parse().map_err(|e: proc_macro2::LexError| e.to_string())?;
            Ok(json!({"debug": debug_to_json(&format!("{:?}", t)), "display": t.to_string()}))
        }
        _ => Err(format!("unknown kind {}", kind)),
    }
}

fn main() {
    let args: Vec<String> = std::env::args().collect();
    let out = std::io::stdout();
    let mut out = std::io::BufWriter::new(out.lock());
    match args.get(1).map(|s| s.as_str()) {
        Some("file") => {
            for p in &args[2..] {
                let src = std::fs::read_to_string(p).expect("read");
                match dump_file(&src) {
                    Ok(ast) => writeln!(out, "{}", json!({"path": p, "ast": ast})).unwrap(),
                    Err(e) => writeln!(out, "{}", json!({"path": p, "err": e})).unwrap(),
                }
            }
        }
        Some("serve") => {
            let stdin = std::io::stdin();
            for line in stdin.lock().lines() {
                let line = line.unwrap();
                if line.trim().is_empty() {
                    continue;
                }
                let req: Value = serde_json::from_str(&line).expect("json request");
                let kind = req["kind"].as_str().unwrap_or("file");
                let src = req["src"].as_str().unwrap_or("");
                let r = std::panic::catch_unwind(|| dump_snippet(kind, src));
                let resp = match r {
                    Ok(Ok(v)) => json!({"ok": v}),
                    Ok(Err(e)) => json!({"err": e}),
                    Err(_) => json!({"err": "panic in astdump"}),
                };
                writeln!(out, "{}", resp).unwrap();
                out.flush().unwrap();
            }
        }
        _ => {
            eprintln!("usage: astdump file <path>... | astdump serve");
            std::process::exit(2);
        }
    }
}
