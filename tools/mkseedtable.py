#!/usr/bin/env python3
"""regenerate the seed table of DESIGN.md (between the SEEDTABLE markers) from seeded/*/meta.json"""
import json, os, re
ROOT = os.path.dirname(os.path.dirname(os.path.abspath(__file__)))
rows = []
for d in sorted(os.listdir(os.path.join(ROOT, 'seeded'))):
    p = os.path.join(ROOT, 'seeded', d, 'meta.json')
    if not os.path.exists(p):
        continue
    m = json.load(open(p))
    det = m.get('detected_by') or {}
    keys = det.get('violation_keys') or []
    short = sorted(set(re.sub(r'^C\d\d/', '', k) for k in keys))[:2]
    res = {1: 'caught', 0: 'MISSED', 2: 'no verdict'}.get(det.get('exit_code'), 'not run')
    ch = m['change'].replace('|', '\\|')
    rows.append('| %s | %d | %s | %s%s |' % (d, m.get('round', 1), ch[:230] + ('…' if len(ch) > 230 else ''), res,
                                              (': `' + '`, `'.join(x.replace('|', '\\|') for x in short) + '`' + (' (+%d)' % (det.get('n_keys', 0) - len(short)) if det.get('n_keys', 0) > len(short) else '')) if short else ''))
table = '| seed | round | change | quick check of its property (repo head %s) |\n|---|---|---|---|\n' % (det.get('repo_head', '?')) + '\n'.join(rows) + '\n'
p = os.path.join(ROOT, 'DESIGN.md')
s = open(p).read()
a, b = '<!-- SEEDTABLE:BEGIN -->', '<!-- SEEDTABLE:END -->'
if a in s:
    s = s[:s.index(a) + len(a)] + '\n' + table + s[s.index(b):]
    open(p, 'w').write(s)
    print('table written:', len(rows), 'rows')
else:
    print(table)
