#!/usr/bin/env python3
"""write /verif/seeded/<id>/meta.json (static description; `detected_by` is filled by tools/seed_matrix.sh)"""
import json, os
ROOT = os.path.dirname(os.path.dirname(os.path.abspath(__file__)))
M = {
 'C01': ('the Zod-mode interface visitor renders Vec<Option<T>> as (T | null)[]; the untouched add_types_prefix post-processor then emits Promise<types.(T | null)[]>, which is not TypeScript',
         'Zod mode; a command *return* type with an Option directly inside Vec/HashSet of a project type'),
 'C02': ('custom type mappings are no longer applied below wrappers (Vec<Mapped>, Option<Mapped>) at interface sites in Zod mode, leaving types.<Mapped> references that resolve to nothing',
         'Zod mode; typeMappings entry for a foreign type used inside a wrapper in a command return / channel / event payload'),
 'C03': ('directory pruning with skip_current_dir fires on regular *files* named target/.git and thereby skips the remaining siblings of that directory',
         'a file (not directory) named target or .git next to .rs files that sort after it'),
 'C04': ('imported AppHandle<R>/WebviewWindow<R> (generic runtime parameter) are no longer recognised as injected parameters and leak into the Params type and invoke argument',
         'a command parameter typed AppHandle<R> / WebviewWindow<R> with the type imported (single path segment)'),
 'C05': ('references are stripped only at the outermost level of a type: Vec<&User>, HashMap<String, &T> keep the & inside the name',
         'a reference nested inside a container in a parameter/field/return type'),
 'C06': ('a field/variant #[serde(rename = "x")] equal to the Rust identifier is treated as absent, so the container rename_all is applied to it',
         'rename value identical to the identifier under a container rename_all that changes that identifier'),
 'C07': ('type names that appear in the error arm of a command Result are subtracted from the discovery seed set, so a type that is both an error type and used elsewhere is never declared',
         'a type used as E in Result<_, E> of one command and as parameter/field/Ok type elsewhere'),
 'C08': ('the cache hashes only structs reachable from commands (TypeCollector::collect_used_types), so editing an event-only payload struct keeps the hash and the stale types.ts is reported up to date',
         'a struct used only as event payload (or reachable only through one); edit its fields; non-forced re-run'),
 'C09': ('dependency edges to already-resolved types are dropped before being stored in the graph, so diamond/join shapes lose edges and a schema constant can precede its dependency',
         'Zod mode; two types sharing a dependency (diamond / join) with an unlucky visit order'),
 'C10': ('maps with numeric keys are rendered as z.map(z.number(), V) instead of z.record: JSON objects fail validation',
         'Zod mode; HashMap/BTreeMap with an integer or float key type in a struct field / parameter'),
 'C11': ('literal-suffix stripping truncates exponent literals (1e3 -> 1) in range(min/max)',
         'Zod mode; #[validate(range(min = 1e3))] style bounds'),
 'C12': ('emit calls are ignored when the receiver has a declared type outside a hard-coded allow-list (State-held handles, Emitter generics, wrappers)',
         'emit/emit_to on a receiver whose declared type is not AppHandle/Window/WebviewWindow/Webview'),
 'C13': ('the event parser symbol table is shared between the functions of a file, so payload inference depends on which function was visited first',
         'two functions in one file using the same variable name for payloads of different types'),
 'C14': ('the regenerate/skip decision uses the --force flag parameter instead of the merged configuration, so force: true in the configuration file is ignored on the CLI path',
         'CLI; configuration force: true, no --force, matching cache'),
 'C15': ('parse-error diagnostics slice the offending source line at the error *column* (chars) used as a byte offset: panics on multi-byte characters before the error position',
         'an unparsable .rs file whose error line contains a multi-byte character before the error column'),
 'C16': ('clean-up classifies <module>.<anything>.ts (types.test.ts, index.spec.ts) as generated and deletes it',
         'build-script path; a foreign file named <reserved stem>.<x>.ts in the output directory'),
 'C17': ('the cache record is written before the dependency graph files, so a failing graph write leaves a record that vouches for the run',
         'visualizeDeps on; the write of dependency-graph.txt/.dot fails'),
 'C18': ('generic or path-qualified mapped names are flattened before the mapping lookup in Zod schema positions and lose their mapping',
         'Zod mode; typeMappings for a name used with generic arguments or a path qualifier'),
 'C19': ('command-line flags are applied through GenerateConfig::merge, which ignores values equal to the built-in default, so the file wins over a flag asking for the default value',
         'file validationLibrary zod + --validation none (or the analogous project/output path combination)'),
 'C20': ('topological_visit short-circuits with Iterator::all after the first dependency that reports a cycle: remaining dependencies are never visited',
         'a node with a self loop or back edge listed before another dependency'),
}
for pid, (what, needs) in M.items():
    d = os.path.join(ROOT, 'seeded', pid)
    p = os.path.join(d, 'meta.json')
    old = json.load(open(p)) if os.path.exists(p) else {}
    conf = open(os.path.join(d, 'confirm.log')).read().split() if os.path.exists(os.path.join(d, 'confirm.log')) else []
    meta = {
        'property': pid,
        'change': what,
        'needs_to_manifest': needs,
        'files': sorted(set(l.split(' b/')[1].strip() for l in open(os.path.join(d, 'patch.diff')) if l.startswith('diff --git'))),
        'confirmed': {'how': 'tools/confirm_seed.sh in a scratch worktree of /repo HEAD: patch applies, cargo test --workspace passes with it, the demonstration fails with it and passes without it',
                      'log': 'confirm.log', 'result': ' '.join(conf)[:200]},
        'demo': sorted(os.listdir(os.path.join(d, 'demo'))) if os.path.isdir(os.path.join(d, 'demo')) else [],
        'produced_by': 'a fresh sub-agent given only the property text and its own scratch worktree; rebased onto later fix commits where the context moved (patch.orig.diff keeps the original when present)',
        'detected_by': old.get('detected_by', {}),
    }
    json.dump(meta, open(p, 'w'), indent=1)
print('ok')
