#!/bin/bash
# confirm a seeded change in a scratch worktree of /repo's current HEAD:
#   patch applies; test suite passes with it; demo fails with it and passes without it.
# usage: confirm_seed.sh <id> <dir with patch.diff and demo/>   -> writes /verif/seeded/<id>/
set -u
id=$1; src=$2
wt=/tmp/confirm-$id
out=/verif/seeded/$id
rm -rf $wt; git -C /repo worktree prune
git -C /repo worktree add -q --detach $wt HEAD || exit 3
export CARGO_NET_OFFLINE=true CARGO_TARGET_DIR=$wt/target
cd $wt
res() { echo "$1" | tee -a $wt/confirm.log; }
: > $wt/confirm.log
cargo build --quiet --offline --bin cargo-tauri-typegen 2>>$wt/confirm.log || { res "BUILD-CLEAN-FAILED"; }
cp target/debug/cargo-tauri-typegen $wt/bin.clean
if ! git apply --check $src/patch.diff 2>>$wt/confirm.log; then res "PATCH-DOES-NOT-APPLY"; git -C /repo worktree remove --force $wt; exit 2; fi
git apply $src/patch.diff
if cargo test --quiet --workspace --no-fail-fast --offline >$wt/test.log 2>&1; then res "TESTS-PASS-WITH-PATCH"; else res "TESTS-FAIL-WITH-PATCH"; tail -20 $wt/test.log >> $wt/confirm.log; fi
cargo build --quiet --offline --bin cargo-tauri-typegen 2>>$wt/confirm.log
cp target/debug/cargo-tauri-typegen $wt/bin.patched
if [ -x $src/demo/run.sh ] || [ -f $src/demo/run.sh ]; then
  (cd $src/demo && bash run.sh $wt/bin.patched >$wt/demo.patched.log 2>&1); rp=$?
  (cd $src/demo && bash run.sh $wt/bin.clean >$wt/demo.clean.log 2>&1); rc=$?
  res "DEMO patched=$rp clean=$rc"
elif ls $src/demo/*.rs >/dev/null 2>&1; then
  # demonstration is a Rust integration test: fails with the patch, passes without it
  t=$(basename $(ls $src/demo/*.rs | head -1) .rs)
  cp $src/demo/$t.rs tests/$t.rs
  if cargo test --quiet --offline --test $t >$wt/demo.patched.log 2>&1; then rp=0; else rp=1; fi
  git apply -R $src/patch.diff
  if cargo test --quiet --offline --test $t >$wt/demo.clean.log 2>&1; then rc=0; else rc=1; fi
  rm -f tests/$t.rs
  res "DEMO(test $t) patched=$rp clean=$rc"
else
  res "NO-DEMO-SCRIPT"; rp=-1; rc=-1
fi
mkdir -p $out
cp $src/patch.diff $out/patch.diff
if [ "$(readlink -f $src)" != "$(readlink -f $out)" ]; then rm -rf $out/demo; cp -r $src/demo $out/demo 2>/dev/null; fi
rm -rf $out/demo/target $out/demo/project/target
cp $src/notes.md $out/notes.md 2>/dev/null
cp $wt/confirm.log $out/confirm.log
git -C /repo worktree remove --force $wt
[ "$rp" = "1" ] && [ "$rc" = "0" ] && grep -q TESTS-PASS-WITH-PATCH $out/confirm.log && echo "CONFIRMED $id" || echo "NOT-CONFIRMED $id"
