#!/bin/bash
# apply each seeded change to /repo, run the check of its property (quick tier, mutants off), undo it;
# records the VIOLATION keys in seeded/<id>/meta.json (detected_by) and seeded/<id>/detect.log
cd /verif
ids=${@:-$(ls seeded | grep '^C[0-9][0-9][bcd]\?$')}
for id in $ids; do
  if ! git -C /repo diff --quiet; then echo "/repo is dirty, refusing"; exit 3; fi
  if ! git -C /repo apply /verif/seeded/$id/patch.diff 2>/dev/null; then echo "$id PATCH-DOES-NOT-APPLY"; continue; fi
  prop=${id:0:3}
  VERIF_NO_MUTANTS=1 timeout 3000 ./check $prop --tier quick > seeded/$id/detect.log 2>&1; rc=$?
  git -C /repo checkout -- .
  python3 - "$id" "$rc" <<'PY'
import json, re, sys, subprocess
pid, rc = sys.argv[1], int(sys.argv[2])
log = open('/verif/seeded/%s/detect.log' % pid).read()
keys = sorted(set(re.findall(r'^\s+key=(.*?) obligation=', log, re.M)))
p = '/verif/seeded/%s/meta.json' % pid
m = json.load(open(p)) if __import__('os').path.exists(p) else {'property': pid[:3]}
head = subprocess.run(['git', '-C', '/repo', 'rev-parse', '--short', 'HEAD'], stdout=subprocess.PIPE).stdout.decode().strip()
m['detected_by'] = {'check': './check %s --tier quick' % pid[:3], 'exit_code': rc, 'violation_keys': keys[:12], 'n_keys': len(keys), 'repo_head': head}
json.dump(m, open(p, 'w'), indent=1)
print(pid, 'rc=%d' % rc, 'keys=%d' % len(keys), keys[:3])
PY
  # keep the log small
  grep -v "^  slow" seeded/$id/detect.log | tail -40 > seeded/$id/detect.log.tmp; mv seeded/$id/detect.log.tmp seeded/$id/detect.log
done
# evidence files were rewritten by runs on a modified tree: the caller re-runs the checks on the clean tree afterwards
