#!/usr/bin/env python3
"""record the reproduced violations of the last run of a check as known findings (after manual triage!)
usage: accept_known.py Cxx [key-substring]"""
import json, os, sys, glob
ROOT = os.path.dirname(os.path.dirname(os.path.abspath(__file__)))
pid = sys.argv[1]
sub = sys.argv[2] if len(sys.argv) > 2 else ''
kf = os.path.join(ROOT, 'known_findings.json')
k = json.load(open(kf))
have = {(e['property'], e['key']) for e in k['known']}
ev = json.load(open(os.path.join(ROOT, 'evidence', pid + '.json')))
cur = set(ev['coverage'].get('violation_keys', []))
n = 0
for p in sorted(glob.glob(os.path.join(ROOT, 'replays', pid, '*.json'))):
    f = json.load(open(p))
    if f.get('key') not in cur or not f.get('reproduced') or sub not in f['key']:
        continue
    if (pid, f['key']) in have:
        continue
    w = f.get('witness', {})
    k['known'].append({'property': pid, 'key': f['key'], 'what': str(f.get('detail', ''))[:200],
                       'witness': {kk: w[kk] for kk in w if kk in ('holes', 'label', 'mode', 'file', 'config', 'deps', 'requested', 'type', 'site', 'input')}})
    n += 1
json.dump(k, open(kf, 'w'), indent=1, sort_keys=True)
print('added', n, 'known findings for', pid)
