#!/usr/bin/env python3-vt
"""translator validation: run a concrete project through (a) the native CLI and (b) the rsx interpreter
executing the repository's run path, and compare every generated file byte for byte (timestamp excepted).
usage: difftest.py <dir-or-file.rs> <none|zod>"""
import os, re, shutil, subprocess, sys, tempfile
sys.path.insert(0, os.path.dirname(os.path.dirname(os.path.abspath(__file__))))
from rsx import engine, values as V, interp, harness as H
from rsx.values import Str, deref
from rsx.models import fs as FS

CLI = os.path.join(H.CACHE, 'native', 'debug', 'cargo-tauri-typegen')
TS = re.compile(r'Generated at: .*')


def native(files, mode):
    d = tempfile.mkdtemp(prefix='vdiff')
    try:
        for rel, src in files.items():
            p = os.path.join(d, 'p', rel)
            os.makedirs(os.path.dirname(p), exist_ok=True)
            open(p, 'w').write(src)
        r = subprocess.run([CLI, 'tauri-typegen', 'generate', '-p', os.path.join(d, 'p'), '-o', os.path.join(d, 'out'), '-v', mode, '--force'],
                           cwd=d, stdout=subprocess.PIPE, stderr=subprocess.PIPE)
        out = {}
        od = os.path.join(d, 'out')
        if os.path.isdir(od):
            for f in sorted(os.listdir(od)):
                if f.endswith('.ts'):
                    out[f] = TS.sub('Generated at: <ts>', open(os.path.join(od, f)).read())
        return r.returncode, out, r.stderr.decode()[-500:]
    finally:
        shutil.rmtree(d)


def model(files, mode, prog=None, order='insertion'):
    P = prog or H.load_program()
    I = interp.Interp(P)
    E = engine.Engine()
    V.set_engine(E)
    E.order_mode = order
    A = interp.AstServer.get()
    res = {}

    def parse(content):
        try:
            return V.Ok(interp.syn_value(A.parse('file_data', content.py())))
        except ValueError as ex:
            return V.Err(V.Struct('syn::Error', {'msg': Str(str(ex)[:50])}))

    def body(e):
        w = FS.World()
        I.fs = w
        w.add_dir('/p')
        dirs = set()
        for rel, src in files.items():
            parts = rel.split('/')
            for k in range(1, len(parts)):
                dd = '/p/' + '/'.join(parts[:k])
                if dd not in dirs:
                    dirs.add(dd)
                    w.add_dir(dd)
            w.add_file('/p/' + rel, src)
        I.hooks['syn::parse_file'] = parse
        cfg = I.call_path('GenerateConfig::default', [])
        cfg.f['project_path'] = Str('/p')
        cfg.f['output_path'] = Str('/out')
        cfg.f['validation_library'] = Str(mode)
        r = I.call_path('generate_from_config', [cfg])
        return r, w

    def end(e, o):
        if o[0] != 'ok':
            res['err'] = repr(o)
            return
        r, w = o[1]
        for en in w.entries:
            if en[1] == 'file' and en[0].py().startswith('/out/'):
                txt = ''.join(chr(c) if isinstance(c, int) else '<ts>' for c in en[2].cs)
                res[en[0].py()[5:]] = txt
    E.explore(body, end)
    return res


def main():
    src, mode = sys.argv[1], sys.argv[2]
    if os.path.isdir(src):
        files = {}
        for dp, dn, fn in os.walk(src):
            for f in fn:
                if f.endswith('.rs'):
                    p = os.path.join(dp, f)
                    files[os.path.relpath(p, src)] = open(p).read()
    else:
        files = {'src/main.rs': open(src).read()}
    rc, nat, err = native(files, mode)
    mod = model(files, mode)
    ok = True
    for f in sorted(set(nat) | set(mod)):
        a, b = nat.get(f), mod.get(f)
        if a != b and a is not None and b is not None and sorted(a.split('\n\n')) == sorted(b.split('\n\n')):
            print('ORDER-ONLY difference in', f, '(hash iteration order)')
            continue
        if a != b:
            ok = False
            print('DIFF in', f)
            import difflib
            for l in difflib.unified_diff((a or '').splitlines(), (b or '').splitlines(), 'native', 'model', lineterm=''):
                print('  ' + l)
    print('native rc', rc, 'files', sorted(nat), 'MATCH' if ok else 'MISMATCH')
    return 0 if ok else 1


if __name__ == '__main__':
    sys.exit(main())
