//! verif-native: JSON-lines RPC into the natively compiled repository, used to validate the
//! symbolic interpreter path by path and to replay counterexamples.
use serde_json::{json, Value};
use std::collections::{HashMap, HashSet};
use std::io::{BufRead, Write};
use std::panic::{catch_unwind, AssertUnwindSafe};

mod ops;

fn main() {
    // `verif-native build-run`: the build-script entry point, run in the current directory (replay of
    // build-path histories); everything else is the JSON-lines RPC loop
    if std::env::args().nth(1).as_deref() == Some("build-run") {
        match tauri_typegen::BuildSystem::generate_at_build_time() {
            Ok(()) => std::process::exit(0),
            Err(e) => {
                eprintln!("Error: {}", e);
                std::process::exit(1);
            }
        }
    }
    std::panic::set_hook(Box::new(|_| {}));
    let stdin = std::io::stdin();
    let out = std::io::stdout();
    let mut out = out.lock();
    for line in stdin.lock().lines() {
        let line = line.unwrap();
        if line.trim().is_empty() {
            continue;
        }
        let req: Value = match serde_json::from_str(&line) {
            Ok(v) => v,
            Err(e) => {
                writeln!(out, "{}", json!({"err": format!("bad request: {}", e)})).unwrap();
                out.flush().unwrap();
                continue;
            }
        };
        let r = catch_unwind(AssertUnwindSafe(|| ops::dispatch(&req)));
        let resp = match r {
            Ok(Ok(v)) => json!({"ok": v}),
            Ok(Err(e)) => json!({"err": e}),
            Err(p) => {
                let msg = if let Some(s) = p.downcast_ref::<String>() {
                    s.clone()
                } else if let Some(s) = p.downcast_ref::<&str>() {
                    s.to_string()
                } else {
                    "panic".to_string()
                };
                json!({"panic": msg})
            }
        };
        writeln!(out, "{}", resp).unwrap();
        out.flush().unwrap();
    }
    let _ = (HashMap::<u8, u8>::new(), HashSet::<u8>::new());
}
