use serde_json::{json, Value};
use std::collections::{HashMap, HashSet};
use tauri_typegen::analysis::dependency_graph::TypeDependencyGraph;
use tauri_typegen::analysis::type_resolver::TypeResolver;
use tauri_typegen::build::dependency_resolver::{
    Dependency, DependencyError, DependencyNode, DependencyNodeType, DependencyType, DependencyResolver,
};

fn s(v: &Value, k: &str) -> String {
    v[k].as_str().unwrap_or("").to_string()
}

pub fn dispatch(req: &Value) -> Result<Value, String> {
    match req["op"].as_str().unwrap_or("") {
        "ping" => Ok(json!("pong")),
        "parse_type_structure" => {
            let r = TypeResolver::new();
            let t = r.parse_type_structure(&s(req, "arg"));
            Ok(serde_json::to_value(&t).map_err(|e| e.to_string())?)
        }
        "toposort" => {
            // {"deps": {"A": ["B"]}, "requested": ["A"], "repeats": n} -> list of distinct results
            let repeats = req["repeats"].as_u64().unwrap_or(1);
            let mut outs: Vec<Vec<String>> = vec![];
            for _ in 0..repeats {
                let mut g = TypeDependencyGraph::new();
                for (k, ds) in req["deps"].as_object().unwrap() {
                    let set: HashSet<String> = ds.as_array().unwrap().iter().map(|x| x.as_str().unwrap().to_string()).collect();
                    g.add_dependencies(k.clone(), set);
                }
                let rq: HashSet<String> = req["requested"].as_array().unwrap().iter().map(|x| x.as_str().unwrap().to_string()).collect();
                let r = g.topological_sort_types(&rq);
                if !outs.contains(&r) {
                    outs.push(r);
                }
            }
            Ok(json!(outs))
        }
        "build_order" => {
            // {"nodes": ["a"], "edges": [["from","to"]], "repeats": n}
            let repeats = req["repeats"].as_u64().unwrap_or(1);
            let mk = |n: &str| DependencyNode { name: n.to_string(), path: String::new(), node_type: DependencyNodeType::Struct };
            let mut outs: Vec<Value> = vec![];
            for _ in 0..repeats {
                let mut r = DependencyResolver::new();
                for n in req["nodes"].as_array().unwrap() {
                    r.add_node(mk(n.as_str().unwrap()));
                }
                for e in req["edges"].as_array().unwrap() {
                    r.add_dependency(Dependency {
                        from: mk(e[0].as_str().unwrap()),
                        to: mk(e[1].as_str().unwrap()),
                        dependency_type: DependencyType::Direct,
                    });
                }
                let v = match r.resolve_build_order() {
                    Ok(ns) => json!({"ok": ns.iter().map(|n| n.name.clone()).collect::<Vec<_>>()}),
                    Err(DependencyError::CircularDependency(_)) => json!({"err": "circular"}),
                    Err(e) => json!({"err": e.to_string()}),
                };
                if !outs.contains(&v) {
                    outs.push(v);
                }
            }
            Ok(json!(outs))
        }
        "config_roundtrip" => {
            // {"doc": <json>, "settings": <GenerateConfig as serde prints it>, "project_dir": "abc"}
            // -> {"saved": bool, "doc_after": <json|null>, "read_back": <GenerateConfig|null>, "error": str}
            use tauri_typegen::GenerateConfig;
            let dir = std::env::temp_dir().join(format!("verif-cfg-{}", std::process::id()));
            let _ = std::fs::remove_dir_all(&dir);
            std::fs::create_dir_all(dir.join(s(req, "project_dir"))).map_err(|e| e.to_string())?;
            let conf = dir.join("tauri.conf.json");
            std::fs::write(&conf, serde_json::to_string(&req["doc"]).unwrap()).map_err(|e| e.to_string())?;
            let old = std::env::current_dir().map_err(|e| e.to_string())?;
            std::env::set_current_dir(&dir).map_err(|e| e.to_string())?;
            let cfg: GenerateConfig = serde_json::from_value(req["settings"].clone()).map_err(|e| e.to_string())?;
            let saved = cfg.save_to_tauri_config(&conf);
            let after: Value = std::fs::read_to_string(&conf)
                .ok()
                .and_then(|t| serde_json::from_str(&t).ok())
                .unwrap_or(Value::Null);
            let rb = match GenerateConfig::from_tauri_config(&conf) {
                Ok(Some(c)) => serde_json::to_value(&c).unwrap(),
                _ => Value::Null,
            };
            let _ = std::env::set_current_dir(old);
            let _ = std::fs::remove_dir_all(&dir);
            Ok(json!({"saved": saved.is_ok(), "doc_after": after, "read_back": rb,
                      "error": saved.err().map(|e| e.to_string())}))
        }
        "kernel" => {
            // private string kernels, reached through the verif-hooks feature (or public API)
            use tauri_typegen::analysis::serde_parser::verif_hooks as sh;
            use tauri_typegen::analysis::type_resolver::verif_hooks as th;
            use tauri_typegen::analysis::validator_parser::verif_hooks as vh;
            use tauri_typegen::generators::base::template_context::verif_hooks as ch;
            use tauri_typegen::generators::base::template_context::NamingContext;
            use tauri_typegen::generators::base::templates::verif_hooks as gh;
            use tauri_typegen::generators::zod::schema_builder::verif_hooks as zh;
            let a = s(req, "arg");
            let out = match req["name"].as_str().unwrap_or("") {
                "parse_type_structure" => serde_json::to_value(TypeResolver::new().parse_type_structure(&a)).unwrap(),
                "extract_type_names" => {
                    let an = tauri_typegen::analysis::CommandAnalyzer::new();
                    let mut set = HashSet::new();
                    an.extract_type_names(&a, &mut set);
                    let mut v: Vec<String> = set.into_iter().collect();
                    v.sort();
                    json!(v)
                }
                "add_types_prefix" => json!(gh::add_types_prefix(&a)),
                "ts_property_key" => json!(gh::ts_property_key(&a)),
                "to_ts_identifier" => json!(ch::to_ts_identifier(&a)),
                "split_top_level_commas" => json!(th::split_top_level_commas(&a)),
                "serde parse_meta_items" => json!(sh::parse_meta_items(&a)),
                "validator split_top_level" => json!(vh::split_top_level(&a)),
                "validator named_arguments" => json!(vh::named_arguments(&a)),
                "parse_message_from_content" => json!(vh::parse_message_from_content(&a)),
                "parse_length_from_tokens" => json!(vh::parse_length_from_tokens(&a)),
                "parse_range_from_tokens" => json!(vh::parse_range_from_tokens(&a)),
                "escape_js_string" => json!(zh::escape_js_string(&a)),
                "event_name_to_function" => {
                    let cfg = tauri_typegen::GenerateConfig::default();
                    let c = tauri_typegen::generators::base::template_context::EventContext::new(&cfg);
                    json!(c.event_name_to_function(&a))
                }
                "compute_parameter_name" => {
                    let cfg = tauri_typegen::GenerateConfig::default();
                    let c = tauri_typegen::generators::base::template_context::CommandContext::new(&cfg);
                    json!([
                        c.compute_parameter_name(&a, &None, &None),
                        c.compute_function_name(&a, &None),
                        c.compute_type_name(&a, &None),
                        c.compute_field_name(&a, &None, &None)
                    ])
                }
                other => return Err(format!("unknown kernel {}", other)),
            };
            Ok(out)
        }
        "heck" => {
            use heck::{ToLowerCamelCase, ToSnakeCase};
            let a = s(req, "arg");
            Ok(json!({"camel": a.to_lower_camel_case(), "snake": a.to_snake_case()}))
        }
        "serde_case" => {
            // serde-rename-rule (the crate the repository links) on a field / variant name
            let rule = serde_rename_rule::RenameRule::from_rename_all_str(&s(req, "rule")).map_err(|_| "bad rule".to_string())?;
            let a = s(req, "arg");
            Ok(json!({"field": rule.apply_to_field(&a), "variant": rule.apply_to_variant(&a)}))
        }
        other => Err(format!("unknown op {}", other)),
    }
}

#[allow(dead_code)]
fn _unused(_: HashMap<u8, u8>) {}
