use serde_json::{json, Value};
use std::collections::{HashMap, HashSet};
use tauri_typegen::analysis::dependency_graph::TypeDependencyGraph;
use tauri_typegen::analysis::type_resolver::TypeResolver;
use tauri_typegen::build::dependency_resolver::{
    Dependency, DependencyError, DependencyNode, DependencyNodeType, DependencyType, DependencyResolver,
};

fn s(v: &Value, k: &str) -> String {
    v[k].as_str().unwrap_or("").to_string()
}

pub fn dispatch(req: &Value) -> Result<Value, String> {
    match req["op"].as_str().unwrap_or("") {
        "ping" => Ok(json!("pong")),
        "parse_type_structure" => {
            let r = TypeResolver::new();
            let t = r.parse_type_structure(&s(req, "arg"));
            Ok(serde_json::to_value(&t).map_err(|e| e.to_string())?)
        }
        "toposort" => {
            // {"deps": {"A": ["B"]}, "requested": ["A"], "repeats": n} -> list of distinct results
            let repeats = req["repeats"].as_u64().unwrap_or(1);
            let mut outs: Vec<Vec<String>> = vec![];
            for _ in 0..repeats {
                let mut g = TypeDependencyGraph::new();
                for (k, ds) in req["deps"].as_object().unwrap() {
                    let set: HashSet<String> = ds.as_array().unwrap().iter().map(|x| x.as_str().unwrap().to_string()).collect();
                    g.add_dependencies(k.clone(), set);
                }
                let rq: HashSet<String> = req["requested"].as_array().unwrap().iter().map(|x| x.as_str().unwrap().to_string()).collect();
                let r = g.topological_sort_types(&rq);
                if !outs.contains(&r) {
                    outs.push(r);
                }
            }
            Ok(json!(outs))
        }
        "build_order" => {
            // {"nodes": ["a"], "edges": [["from","to"]], "repeats": n}
            let repeats = req["repeats"].as_u64().unwrap_or(1);
            let mk = |n: &str| DependencyNode { name: n.to_string(), path: String::new(), node_type: DependencyNodeType::Struct };
            let mut outs: Vec<Value> = vec![];
            for _ in 0..repeats {
                let mut r = DependencyResolver::new();
                for n in req["nodes"].as_array().unwrap() {
                    r.add_node(mk(n.as_str().unwrap()));
                }
                for e in req["edges"].as_array().unwrap() {
                    r.add_dependency(Dependency {
                        from: mk(e[0].as_str().unwrap()),
                        to: mk(e[1].as_str().unwrap()),
                        dependency_type: DependencyType::Direct,
                    });
                }
                let v = match r.resolve_build_order() {
                    Ok(ns) => json!({"ok": ns.iter().map(|n| n.name.clone()).collect::<Vec<_>>()}),
                    Err(DependencyError::CircularDependency(_)) => json!({"err": "circular"}),
                    Err(e) => json!({"err": e.to_string()}),
                };
                if !outs.contains(&v) {
                    outs.push(v);
                }
            }
            Ok(json!(outs))
        }
        "heck" => {
            use heck::{ToLowerCamelCase, ToSnakeCase};
            let a = s(req, "arg");
            Ok(json!({"camel": a.to_lower_camel_case(), "snake": a.to_snake_case()}))
        }
        "serde_case" => {
            // serde-rename-rule (the crate the repository links) on a field / variant name
            let rule = serde_rename_rule::RenameRule::from_rename_all_str(&s(req, "rule")).map_err(|_| "bad rule".to_string())?;
            let a = s(req, "arg");
            Ok(json!({"field": rule.apply_to_field(&a), "variant": rule.apply_to_variant(&a)}))
        }
        other => Err(format!("unknown op {}", other)),
    }
}

#[allow(dead_code)]
fn _unused(_: HashMap<u8, u8>) {}
