#!/bin/sh
# Build the framework from files on disk only (offline): syn-based AST dumper and native RPC harness.
set -e
cd "$(dirname "$0")"
export CARGO_NET_OFFLINE=true
mkdir -p .cache evidence replays
cp /repo/Cargo.lock tools/astdump/Cargo.lock 2>/dev/null || true
cp /repo/Cargo.lock native/Cargo.lock 2>/dev/null || true
(cd tools/astdump && CARGO_TARGET_DIR=/verif/.cache/astdump cargo build --quiet)
(cd native && CARGO_TARGET_DIR=/verif/.cache/native cargo build --quiet)
(cd /repo && CARGO_TARGET_DIR=/verif/.cache/native cargo build --quiet --bin cargo-tauri-typegen)
python3-vt -c "import z3; print('z3', z3.get_version_string())"
echo setup ok
