"""rsx.builtins -- std library models: methods on str/String/char/ints/Option/Result/Vec/HashMap/
HashSet/iterators, associated functions, macros (format!, vec!, ...).  Hand-written semantics; the
only part of the encoding that is not regenerated from the repository's sources."""
import functools
import z3

from . import values as V
from . import strops as S
from . import iters as I
from . import fmt as F
from .engine import RustPanic, Inconclusive, PathAbort, is_sym, z_and, z_or, z_not
from .values import (Str, Ch, Struct, Enum, Vec, HMap, HSet, Ref, Closure, FnRef, PyFn, TypeVal, Float, Opaque,
                     Some, Ok, Err, mk_none, deref, deep_clone, sym_eq, is_some, is_none)
from .iters import Iter


def UIntC(n):
    from .interp import UInt
    return UInt(n)


def decide(c):
    return V.ENG.decide(c)


EXT_STRUCT_MODELS = {}     # struct type name -> module with call_method(interp, v, name, args, pl, hint, tf, ctx)
EXT_PATH_MODELS = []       # callables (interp, segs, args, hint, generics) -> value or NotImplemented


def type_name_of(v):
    if isinstance(v, (Struct, Enum)):
        return v.ty
    if isinstance(v, Str):
        return 'str'
    if isinstance(v, Ch):
        return 'char'
    return None


def type_aliases_of(v):
    if isinstance(v, Str):
        return ('String', 'T')
    if isinstance(v, (Struct, Enum)):
        return ()
    return ()


def eval_method_args(interp, rv, name, argnodes, env, ctx, hint):
    h = None
    if name in ('unwrap_or', 'unwrap_or_else', 'unwrap_or_default', 'or', 'or_else', 'get_or_insert_with'):
        h = hint
    return [interp.eval(a, env, ctx, h) for a in argnodes]


# ------------------------------------------------------------------------------------------------
# iteration
# ------------------------------------------------------------------------------------------------

def into_iter(interp, v, by_ref=True):
    v = deref(v)
    if isinstance(v, Iter):
        return v
    if isinstance(v, Vec):
        return I.from_list(_slots(v.v))
    if isinstance(v, HSet):
        if v.ordered:
            return I.from_list(sorted_values(interp, v.items))
        return I.unordered(v.items)
    if isinstance(v, HMap):
        if v.ordered:
            return I.from_list([(k, x) for k, x in sorted_pairs(interp, v.items)])
        return I.unordered([(kv[0], _pair_slot(kv)) for kv in v.items])
    if isinstance(v, Struct) and v.ty == 'Range':
        lo, hi = v.f['start'], v.f['end']
        if lo is None or hi is None or is_sym(lo) or is_sym(hi):
            raise Inconclusive('iteration over open/symbolic range')
        if v.f['closed']:
            hi = hi + 1
        wrap = UIntC if type(lo).__name__ == 'UInt' or type(hi).__name__ == 'UInt' else int
        return I.from_list([wrap(i) for i in range(int(lo), int(hi))])
    if isinstance(v, Enum) and v.ty == 'Option':
        return I.from_list(list(v.vals))
    if isinstance(v, Enum) and v.ty == 'Result':
        return I.from_list(list(v.vals) if v.var == 'Ok' else [])
    if isinstance(v, tuple):
        raise Inconclusive('iteration over tuple')
    if isinstance(v, Struct) and v.ty in EXT_STRUCT_MODELS:
        r = EXT_STRUCT_MODELS[v.ty].call_method(interp, v, 'into_iter', [], None, None, None, None)
        return into_iter(interp, r)
    raise Inconclusive('into_iter on %r' % (v,))


def _slots(lst):
    """elements of a list; immutable scalars become slot references so `for x in &mut v` can assign"""
    return list(lst)


def _pair_slot(kv):
    x = kv[1]
    if isinstance(x, (Str, int, bool, tuple)) or is_sym(x):
        def setter(nv, kv=kv):
            kv[1] = nv
        return Ref(lambda kv=kv: kv[1], setter)
    return x


def value_cmp(interp, a, b):
    """total order on values (Ord): returns -1/0/1, deciding on symbolic content"""
    a, b = deref(a), deref(b)
    if isinstance(a, Str) and isinstance(b, Str):
        if decide(V.str_eq(a, b)):
            return 0
        return -1 if decide(V.str_lt(a, b)) else 1
    if isinstance(a, Ch):
        a, b = a.c, b.c
    if isinstance(a, Float) or isinstance(b, Float):
        av = a.v if isinstance(a, Float) else a
        bv = b.v if isinstance(b, Float) else b
        if av is None or bv is None:
            raise Inconclusive('comparison of opaque floats')
        return -1 if av < bv else (0 if av == bv else 1)
    if isinstance(a, bool) and isinstance(b, bool):
        return (a > b) - (a < b)
    if isinstance(a, int) and isinstance(b, int):
        return -1 if a < b else (0 if a == b else 1)
    if is_sym(a) or is_sym(b):
        if decide(a == b):
            return 0
        return -1 if decide(a < b) else 1
    if isinstance(a, (tuple, list)) and isinstance(b, (tuple, list)):
        for x, y in zip(a, b):
            c = value_cmp(interp, x, y)
            if c:
                return c
        return (len(a) > len(b)) - (len(a) < len(b))
    if isinstance(a, Vec) and isinstance(b, Vec):
        return value_cmp(interp, a.v, b.v)
    if isinstance(a, Enum) and isinstance(b, Enum):
        if a.ty == 'Option':
            order = ['None', 'Some']
        elif a.ty == 'Result':
            order = ['Ok', 'Err']
        elif a.ty == 'Ordering':
            order = ['Less', 'Equal', 'Greater']
        elif a.ty in interp.prog.enums:
            order = [x['ident']['sym'] for x in interp.prog.enums[a.ty]['variants']]
        else:
            raise Inconclusive('Ord on enum %s' % a.ty)
        ia, ib = order.index(a.var), order.index(b.var)
        if ia != ib:
            return -1 if ia < ib else 1
        return value_cmp(interp, a.vals, b.vals)
    if isinstance(a, Struct) and isinstance(b, Struct):
        if a.ty in ('PathBuf', 'Path'):
            return value_cmp(interp, a.f['s'], b.f['s'])
        fd = interp.prog.methods.get((a.ty, 'cmp'))
        if fd is not None:
            o = interp.call_fn(fd, [b], a, a.ty)
            return {'Less': -1, 'Equal': 0, 'Greater': 1}[o.var]
        for k in a.f:
            c = value_cmp(interp, a.f[k], b.f[k])
            if c:
                return c
        return 0
    raise Inconclusive('Ord comparison of %r and %r' % (a, b))


def ordering(c):
    return Enum('Ordering', 'Less' if c < 0 else ('Equal' if c == 0 else 'Greater'), [])


def sorted_values(interp, items):
    return sorted(items, key=functools.cmp_to_key(lambda a, b: value_cmp(interp, a, b)))


def sorted_pairs(interp, items):
    return sorted(items, key=functools.cmp_to_key(lambda a, b: value_cmp(interp, a[0], b[0])))


def index(interp, base, idx):
    if isinstance(base, Str):
        if isinstance(idx, Struct) and idx.ty == 'Range':
            lo, hi = idx.f['start'], idx.f['end']
            if hi is not None and idx.f['closed']:
                hi = hi + 1
            return base.slice_bytes(lo, hi)
        raise Inconclusive('string index by %r' % (idx,))
    if isinstance(base, Vec):
        if isinstance(idx, Struct) and idx.ty == 'Range':
            n = len(base.v)
            lo = idx.f['start'] if idx.f['start'] is not None else 0
            hi = idx.f['end'] if idx.f['end'] is not None else n
            if idx.f['end'] is not None and idx.f['closed']:
                hi = hi + 1
            if is_sym(lo) or is_sym(hi):
                raise Inconclusive('symbolic slice bounds')
            if lo > hi:
                raise RustPanic('slice index starts at %d but ends at %d' % (lo, hi))
            if hi > n:
                raise RustPanic('range end index %d out of range for slice of length %d' % (hi, n))
            return Vec(base.v[lo:hi], base.kind)
        if is_sym(idx):
            raise Inconclusive('symbolic vector index')
        if idx < 0 or idx >= len(base.v):
            raise RustPanic('index out of bounds: the len is %d but the index is %d' % (len(base.v), idx))
        return base.v[idx]
    if isinstance(base, HMap):
        i = base.find(idx)
        if i < 0:
            raise RustPanic('HashMap index: key not found')
        return base.items[i][1]
    if isinstance(base, Struct) and base.ty in EXT_STRUCT_MODELS:
        return EXT_STRUCT_MODELS[base.ty].call_method(interp, base, 'index', [idx], None, None, None, None)
    raise Inconclusive('index on %r' % (base,))


def cast(interp, v, ty):
    if isinstance(v, Ch):
        v = v.c
        if ty == 'char':
            return Ch(v)
    if ty in ('usize', 'u64', 'u32', 'u16', 'u8', 'u128'):
        if isinstance(v, Float):
            if v.v is None:
                raise Inconclusive('cast of opaque float')
            return UIntC(max(0, int(v.v)))
        if isinstance(v, bool):
            return UIntC(int(v))
        if is_sym(v):
            return v
        bits = {'usize': 64, 'u64': 64, 'u32': 32, 'u16': 16, 'u8': 8, 'u128': 128}[ty]
        return UIntC(int(v) % (1 << bits))
    if ty in ('isize', 'i64', 'i32', 'i16', 'i8', 'i128'):
        if isinstance(v, Float):
            if v.v is None:
                raise Inconclusive('cast of opaque float')
            return int(v.v)
        if is_sym(v):
            return v
        return int(v)
    if ty in ('f64', 'f32'):
        if isinstance(v, Float):
            return v
        if is_sym(v):
            return Float(None, Opaque('int-as-f64', v))
        return Float(float(v), str(int(v)))
    if ty == 'char':
        return Ch(v)
    return v


# ------------------------------------------------------------------------------------------------
# macros
# ------------------------------------------------------------------------------------------------

def _fmt_from_nodes(interp, argnodes, env, ctx):
    if not argnodes:
        return Str('')
    first = argnodes[0]
    if first['_'] != 'Expr::Lit' or first['lit']['_'] != 'Lit::Str':
        raise Inconclusive('format string is not a literal')
    fmt = first['lit']['token']['value']
    args = []
    named = {}
    for a in argnodes[1:]:
        if a['_'] == 'Expr::Assign' and a['left']['_'] == 'Expr::Path':
            named[a['left']['path']['segments'][0]['ident']['sym']] = interp.eval(a['right'], env, ctx)
        else:
            args.append(interp.eval(a, env, ctx))

    def lookup(name):
        if name in named:
            return named[name]
        return env.get(name)
    return F.format_str(interp, fmt, args, lookup)


def call_macro(interp, name, argnodes, env, ctx, hint):
    if name == '__macro_format':
        return _fmt_from_nodes(interp, argnodes, env, ctx)
    if name in ('__macro_println', '__macro_eprintln', '__macro_print', '__macro_eprint', '__macro_dbg'):
        # output is not observable by any property; arguments are still evaluated (they may panic)
        if getattr(interp, 'eval_print_args', True):
            s = _fmt_from_nodes(interp, argnodes, env, ctx) if argnodes else Str('')
            sink = getattr(interp, 'stdout_sink', None)
            if sink is not None:
                sink(name, s)
        return ()
    if name in ('__macro_write', '__macro_writeln'):
        dest = deref(interp.eval(argnodes[0], env, ctx))
        s = _fmt_from_nodes(interp, argnodes[1:], env, ctx)
        if name == '__macro_writeln':
            s = s.concat(Str('\n'))
        if isinstance(dest, F.Formatter):
            dest.out = dest.out.concat(s)
            return Ok(())
        pl = interp.place(argnodes[0], env, ctx, autoderef=True)
        if pl is not None and isinstance(deref(pl.get()), Str):
            pl.set(deref(pl.get()).concat(s))
            return Ok(())
        if isinstance(dest, Struct) and dest.ty in EXT_STRUCT_MODELS:
            return EXT_STRUCT_MODELS[dest.ty].call_method(interp, dest, 'write_str', [s], None, None, None, ctx)
        raise Inconclusive('write! to %r' % (dest,))
    if name == '__macro_vec':
        return Vec([interp.eval(a, env, ctx) for a in argnodes])
    if name == '__macro_vec_repeat':
        x = interp.eval(argnodes[0], env, ctx)
        n = deref(interp.eval(argnodes[1], env, ctx))
        if is_sym(n):
            raise Inconclusive('vec![x; symbolic]')
        return Vec([deep_clone(x) for _ in range(n)])
    if name in ('__macro_panic', '__macro_unreachable', '__macro_todo', '__macro_unimplemented'):
        msg = name[8:]
        try:
            if argnodes:
                m = _fmt_from_nodes(interp, argnodes, env, ctx).py()
                if m is not None:
                    msg += ': ' + m
        except Inconclusive:
            pass
        raise RustPanic(msg)
    if name in ('__macro_assert', '__macro_debug_assert'):
        c = deref(interp.eval(argnodes[0], env, ctx))
        if not decide(c):
            raise RustPanic('assertion failed')
        return ()
    if name in ('__macro_assert_eq', '__macro_debug_assert_eq', '__macro_assert_ne', '__macro_debug_assert_ne'):
        a = interp.eval(argnodes[0], env, ctx)
        b = interp.eval(argnodes[1], env, ctx)
        c = sym_eq(deref(a), deref(b))
        if name.endswith('ne'):
            c = z_not(c)
        if not decide(c):
            raise RustPanic('assertion failed: left %s right' % ('!=' if name.endswith('eq') else '=='))
        return ()
    if name == '__macro_env':
        key = argnodes[0]['lit']['token']['value']
        h = interp.hooks.get('env!')
        if h is None:
            return Str('<env:%s>' % key)
        return h(key)
    if name in ('__macro_include_str', '__macro_concat'):
        h = interp.hooks.get(name)
        args = [interp.eval(a, env, ctx) for a in argnodes]
        if h is None:
            if name == '__macro_concat':
                out = Str('')
                for a in args:
                    out = out.concat(F.display(interp, a))
                return out
            raise Inconclusive('include_str! without hook')
        return h(*args)
    if name.startswith('__json_'):
        from .models import json as J
        return J.json_macro(interp, name, argnodes, env, ctx)
    h = interp.hooks.get(name)
    if h is not None:
        return h(interp, argnodes, env, ctx)
    raise Inconclusive('unsupported macro %s' % name)


# ------------------------------------------------------------------------------------------------
# associated functions / free functions of std
# ------------------------------------------------------------------------------------------------

def builtin_const(segs):
    t = tuple(segs[-2:])
    if t == ('usize', 'MAX') or t == ('u64', 'MAX'):
        return UIntC((1 << 64) - 1)
    if t == ('u32', 'MAX'):
        return UIntC((1 << 32) - 1)
    if t == ('i32', 'MAX'):
        return (1 << 31) - 1
    if t == ('i64', 'MAX'):
        return (1 << 63) - 1
    if t == ('f64', 'MAX'):
        return Float(1.7976931348623157e308)
    if t == ('f64', 'MIN'):
        return Float(-1.7976931348623157e308)
    if t == ('f64', 'INFINITY'):
        return Float(float('inf'))
    if t == ('f64', 'NEG_INFINITY'):
        return Float(float('-inf'))
    if t in (('Ordering', 'Less'), ('Ordering', 'Equal'), ('Ordering', 'Greater')):
        return Enum('Ordering', t[1], [])
    if t == ('Value', 'Null'):
        return Enum('Value', 'Null', [])
    if segs[-1] == 'MAIN_SEPARATOR':
        return Ch(ord('/'))
    return None


def new_collection(name, hint=None):
    if name in ('Vec', 'VecDeque', 'BinaryHeap'):
        return Vec([])
    if name == 'String':
        return Str('')
    if name == 'HashMap':
        return HMap([])
    if name == 'BTreeMap':
        return HMap([], True)
    if name == 'HashSet':
        return HSet([])
    if name == 'BTreeSet':
        return HSet([], True)
    return None


def call_builtin_path(interp, segs, args, hint, generics):
    name = segs[-1]
    ty = segs[-2] if len(segs) >= 2 else None
    for ext in EXT_PATH_MODELS:
        r = ext(interp, segs, args, hint, generics)
        if r is not NotImplemented:
            return r
    if ty is None:
        if name == 'Some':
            return Some(args[0])
        if name == 'Ok':
            return Ok(args[0])
        if name == 'Err':
            return Err(args[0])
        if name == 'Box':
            return args[0]
        if name == 'drop':
            return ()
        raise Inconclusive('unknown function %s' % name)
    if name in ('new', 'with_capacity') and new_collection(ty) is not None:
        return new_collection(ty)
    if ty in ('Box', 'Rc', 'Arc', 'RefCell', 'Cell', 'Mutex', 'RwLock', 'Cow') and name in ('new', 'from'):
        return args[0]
    if ty in ('Option',) and name in ('Some',):
        return Some(args[0])
    if ty == 'Default' and name == 'default' or (name == 'default' and ty in ('T',)):
        if hint is None:
            raise Inconclusive('Default::default() without type context')
        return interp.default_of_type(hint)
    if name == 'default':
        c = new_collection(ty)
        if c is not None:
            return c
        if ty in ('bool',):
            return False
        if ty in ('usize', 'u64', 'u32'):
            return UIntC(0)
        return interp.default_of_type(interp._named_type(ty))
    if ty in ('String', 'str') or (ty == 'ToString' and name == 'to_string') or (ty == 'ToOwned'):
        if name in ('from', 'to_string', 'to_owned', 'from_str', 'as_str', 'as_ref'):
            v = deref(args[0])
            if isinstance(v, Str):
                return Ok(v) if name == 'from_str' else v
            if isinstance(v, Ch):
                return Str((v.c,))
            return F.display(interp, v)
        if name == 'from_utf8':
            v = deref(args[0])
            if isinstance(v, Str):
                return Ok(v)
            if isinstance(v, Vec):
                try:
                    return Ok(Str(bytes(int(b) for b in v.v).decode('utf-8')))
                except Exception:
                    return Err(Struct('FromUtf8Error', {}))
        if name == 'from_utf8_lossy':
            v = deref(args[0])
            if isinstance(v, Str):
                return v
        if name == 'from_iter':
            return collect_into(interp, into_iter(interp, args[0]), 'String', None)
        if name in ('len', 'is_empty', 'trim', 'to_lowercase', 'to_uppercase', 'chars'):
            return call_method(interp, deref(args[0]), name, args[1:], None, hint, None, None)
    if ty == 'char':
        if name == 'from':
            v = deref(args[0])
            return v if isinstance(v, Ch) else Ch(v)
        if name in ('from_u32', 'from_digit'):
            v = deref(args[0])
            if name == 'from_digit':
                if is_sym(v) or v > 9:
                    raise Inconclusive('char::from_digit')
                return Some(Ch(48 + int(v)))
            return Some(Ch(v))
        # char::is_alphabetic etc. called as functions
        return call_method(interp, deref(args[0]), name, args[1:], None, hint, None, None)
    if ty in ('Vec', 'VecDeque', 'HashSet', 'BTreeSet', 'HashMap', 'BTreeMap') and name in ('from', 'from_iter'):
        return collect_into(interp, into_iter(interp, args[0]), ty, None)
    if ty in ('Iterator', 'IntoIterator'):
        return call_method(interp, deref(args[0]), name, args[1:], None, hint, None, None)
    if ty in ('Clone',) and name == 'clone':
        return deep_clone(args[0])
    if ty in ('From', 'Into') and name in ('from', 'into'):
        return args[0]
    if ty in ('usize', 'u64', 'u32', 'u8', 'i32', 'i64', 'u16', 'f64', 'isize') and name in ('from', 'try_from'):
        v = cast(interp, deref(args[0]), ty)
        return Ok(v) if name == 'try_from' else v
    if ty in ('usize', 'u64', 'u32', 'i32', 'i64', 'f64') and name in ('max', 'min', 'from_str'):
        if name == 'from_str':
            return call_method(interp, deref(args[0]), 'parse', [], None, None, [interp._named_type(ty)], None)
        return call_method(interp, deref(args[0]), name, args[1:], None, hint, None, None)
    if ty == 'iter' or (len(segs) >= 2 and segs[-2] == 'iter'):
        if name == 'once':
            return I.from_list([args[0]])
        if name == 'empty':
            return I.from_list([])
        if name == 'repeat':
            raise Inconclusive('iter::repeat')
    if ty == 'mem':
        if name == 'take':
            r = args[0]
            if isinstance(r, Ref):
                old = r.get()
                od = deref(old)
                if isinstance(od, Struct) and od.ty in interp.prog.structs:
                    r.set(interp.default_of_named(od.ty))      # a user struct: its (derived or written) Default
                elif isinstance(od, (Vec, HMap, HSet)):
                    r.set(type(od)([]) if not isinstance(od, Vec) else Vec([]))
                else:
                    r.set(_default_like(old))
                return old
            if isinstance(r, Struct) and r.ty in interp.prog.structs:
                # `&mut place` of a user struct evaluates to the place's own object: move its fields out, leave Default behind
                old = Struct(r.ty, dict(r.f))
                fresh = interp.default_of_named(r.ty)
                r.f.clear()
                r.f.update(fresh.f)
                return old
            old = deep_clone(r)
            _clear_in_place(r)
            return old
        if name == 'replace':
            r = args[0]
            if isinstance(r, Ref):
                old = r.get()
                r.set(args[1])
                return old
            raise Inconclusive('mem::replace on aggregate')
        if name == 'swap':
            a, b = args
            if isinstance(a, Ref) and isinstance(b, Ref):
                x, y = a.get(), b.get()
                a.set(y)
                b.set(x)
                return ()
            raise Inconclusive('mem::swap on aggregates')
        if name in ('drop', 'forget'):
            return ()
    if ty == 'cmp':
        if name == 'max':
            return args[0] if value_cmp(interp, args[0], args[1]) > 0 else args[1]
        if name == 'min':
            return args[0] if value_cmp(interp, args[0], args[1]) <= 0 else args[1]
    if ty == 'process' and name == 'exit':
        raise ProcessExit(deref(args[0]))
    if ty == 'fmt' and name == 'format':
        return args[0]
    raise Inconclusive('unknown path function %s' % '::'.join(segs))


class ProcessExit(Exception):
    def __init__(self, code):
        self.code = code


def _default_like(v):
    if isinstance(v, Str):
        return Str('')
    if isinstance(v, bool):
        return False
    if isinstance(v, int):
        return type(v)(0)
    if isinstance(v, Enum) and v.ty == 'Option':
        return mk_none()
    raise Inconclusive('mem::take of %r' % (v,))


def _clear_in_place(v):
    if isinstance(v, Vec):
        v.v = []
    elif isinstance(v, (HMap, HSet)):
        v.items = []
    else:
        raise Inconclusive('mem::take of %r' % (v,))


# ------------------------------------------------------------------------------------------------
# collect
# ------------------------------------------------------------------------------------------------

def collect_target(interp, hint, tf):
    t = None
    if tf:
        t = tf[0]
    elif hint is not None:
        t = hint
    if t is None:
        return (None, [])
    h, a = interp_type_head(interp, t)
    return (h, a)


def interp_type_head(interp, t):
    from .interp import type_head
    h, a = type_head(t)
    seen = 0
    while h in interp.prog.aliases and seen < 5:
        h, a = type_head(interp.prog.aliases[h])
        seen += 1
    return h, a


COLLECT_TARGETS = {'Vec', 'VecDeque', '[]', 'Box', 'String', 'HashSet', 'BTreeSet', 'HashMap', 'BTreeMap', 'Result', 'Option', 'PathBuf'}


def collect_into(interp, it, target, targs):
    if target in ('Vec', 'VecDeque', '[]', 'Box'):
        return Vec([_detach(x) for x in it])
    if target == 'String':
        it.canonical() if False else None
        out = []
        for x in it:
            x = deref(x)
            if isinstance(x, Ch):
                out.append(x.c)
            elif isinstance(x, Str):
                out.extend(x.cs)
            else:
                raise Inconclusive('collect::<String> of %r' % (x,))
        return Str(tuple(out))
    if target in ('HashSet', 'BTreeSet'):
        it.canonical()
        s = HSet([], target == 'BTreeSet')
        for x in it:
            x = _detach(x)
            if s.find(x) < 0:
                s.items.append(x)
        return s
    if target in ('HashMap', 'BTreeMap'):
        it.canonical()
        m = HMap([], target == 'BTreeMap')
        for kv in it:
            kv = deref(kv)
            k, x = _detach(kv[0]), _detach(kv[1])
            i = m.find(k)
            if i >= 0:
                m.items[i][1] = x
            else:
                m.items.append([k, x])
        return m
    if target == 'Result':
        inner_t, inner_a = (None, [])
        if targs:
            inner_t, inner_a = interp_type_head(interp, targs[0])
        vals = []
        for x in it:
            x = deref(x)
            if x.var == 'Err':
                return x
            vals.append(x.vals[0])
        if inner_t is None:
            inner_t = 'Vec'
        return Ok(collect_into(interp, I.from_list(vals), inner_t, inner_a))
    if target == 'Option':
        inner_t, inner_a = (None, [])
        if targs:
            inner_t, inner_a = interp_type_head(interp, targs[0])
        vals = []
        for x in it:
            x = deref(x)
            if x.var == 'None':
                return mk_none()
            vals.append(x.vals[0])
        return Some(collect_into(interp, I.from_list(vals), inner_t or 'Vec', inner_a))
    if target == 'PathBuf':
        from .models import fs as FS
        return FS.collect_pathbuf(interp, it)
    raise Inconclusive('collect() into unknown target %r' % (target,))


def _detach(x):
    if isinstance(x, Ref):
        return x.get()
    return x


# ------------------------------------------------------------------------------------------------
# methods
# ------------------------------------------------------------------------------------------------

def call_method(interp, v, name, args, pl, hint, tf, ctx):
    if isinstance(v, Str):
        f = STR_METHODS.get(name)
        if f is not None:
            return f(interp, v, args, pl, hint, tf)
        # a String used through AsRef<Path>
        r = _fs_model.PathModel.call_method(interp, _fs_model.mkpath(v), name, args, pl, hint, tf, ctx)
        if r is not NotImplemented:
            return r
    elif isinstance(v, Enum):
        if v.ty == 'Option':
            f = OPT_METHODS.get(name)
            if f is not None:
                return f(interp, v, args, pl, hint, tf)
        elif v.ty == 'Result':
            f = RES_METHODS.get(name)
            if f is not None:
                return f(interp, v, args, pl, hint, tf)
        elif v.ty == 'Ordering':
            f = ORD_METHODS.get(name)
            if f is not None:
                return f(interp, v, args, pl, hint, tf)
        elif v.ty == 'Value':
            r = _json_model.value_method(interp, v, name, args, pl, hint)
            if r is not NotImplemented:
                return r
        else:
            from .models import syn as _syn
            r = _syn.enum_method(interp, v, name, args)
            if r is not NotImplemented:
                return r
    elif isinstance(v, Vec):
        f = VEC_METHODS.get(name)
        if f is not None:
            return f(interp, v, args, pl, hint, tf)
    elif isinstance(v, Iter):
        if name == 'skip_current_dir' and hasattr(v, 'skip_current_dir'):
            v.skip_current_dir()
            return ()
        f = ITER_METHODS.get(name)
        if f is not None:
            return f(interp, v, args, pl, hint, tf)
    elif isinstance(v, HMap):
        f = MAP_METHODS.get(name)
        if f is not None:
            return f(interp, v, args, pl, hint, tf)
    elif isinstance(v, HSet):
        f = SET_METHODS.get(name)
        if f is not None:
            return f(interp, v, args, pl, hint, tf)
    elif isinstance(v, Ch):
        f = CHAR_METHODS.get(name)
        if f is not None:
            return f(interp, v, args, pl, hint, tf)
    elif isinstance(v, bool) or (is_sym(v) and z3.is_bool(v)):
        f = BOOL_METHODS.get(name)
        if f is not None:
            return f(interp, v, args, pl, hint, tf)
    elif isinstance(v, int) or is_sym(v):
        f = INT_METHODS.get(name)
        if f is not None:
            return f(interp, v, args, pl, hint, tf)
    elif isinstance(v, Float):
        f = FLOAT_METHODS.get(name)
        if f is not None:
            return f(interp, v, args, pl, hint, tf)
    elif isinstance(v, tuple):
        f = TUPLE_METHODS.get(name)
        if f is not None:
            return f(interp, v, args, pl, hint, tf)
    elif isinstance(v, Struct):
        mod = EXT_STRUCT_MODELS.get(v.ty)
        if mod is not None:
            r = mod.call_method(interp, v, name, args, pl, hint, tf, ctx)
            if r is not NotImplemented:
                return r
    elif isinstance(v, (Closure, FnRef, PyFn)):
        if name in ('call', 'call_mut', 'call_once'):
            return interp.call_value(v, list(deref(args[0])))
    elif isinstance(v, F.Formatter):
        if name == 'write_str':
            v.out = v.out.concat(deref(args[0]))
            return Ok(())
        if name == 'write_fmt':
            v.out = v.out.concat(deref(args[0]))
            return Ok(())
        if name == 'alternate':
            return v.alternate
    f = ANY_METHODS.get(name)
    if f is not None:
        return f(interp, v, args, pl, hint, tf)
    # derived trait methods on user types
    if isinstance(v, (Struct, Enum)):
        if name == 'eq':
            return sym_eq(v, deref(args[0]))
        if name == 'ne':
            return z_not(sym_eq(v, deref(args[0])))
        if name in ('cmp', 'partial_cmp'):
            o = ordering(value_cmp(interp, v, args[0]))
            return Some(o) if name == 'partial_cmp' else o
        if name == 'hash':
            return hash_value(interp, v, args[0])
    raise Inconclusive('unknown method %s on %s' % (name, describe(v)))


def describe(v):
    if isinstance(v, (Struct, Enum)):
        return v.ty
    return type(v).__name__


def _set(pl, v):
    if pl is not None:
        pl.set(v)


# ---- any ----------------------------------------------------------------------------------------

def m_clone(interp, v, args, pl, hint, tf):
    return deep_clone(v)


def m_ident(interp, v, args, pl, hint, tf):
    return v


def m_to_string(interp, v, args, pl, hint, tf):
    return F.display(interp, v)


def m_eq(interp, v, args, pl, hint, tf):
    return sym_eq(v, deref(args[0]))


def m_ne(interp, v, args, pl, hint, tf):
    return z_not(sym_eq(v, deref(args[0])))


def m_cmp(interp, v, args, pl, hint, tf):
    return ordering(value_cmp(interp, v, args[0]))


def m_partial_cmp(interp, v, args, pl, hint, tf):
    return Some(ordering(value_cmp(interp, v, args[0])))


def m_max(interp, v, args, pl, hint, tf):
    return v if value_cmp(interp, v, args[0]) > 0 else deref(args[0])


def m_min(interp, v, args, pl, hint, tf):
    return v if value_cmp(interp, v, args[0]) <= 0 else deref(args[0])


def m_hash(interp, v, args, pl, hint, tf):
    return hash_value(interp, v, args[0])


def hash_value(interp, v, hasher):
    h = deref(hasher)
    if isinstance(h, Struct) and h.ty == 'DefaultHasher':
        h.f['fed'].v.append(canon_for_hash(interp, v))
        return ()
    raise Inconclusive('hash into %r' % (h,))


def canon_for_hash(interp, v):
    """canonical structural form fed to the (injective, uninterpreted) hasher"""
    v = deref(v)
    if isinstance(v, (Struct, Enum)) and not isinstance(v, Enum) and (v.ty, 'Hash', 'hash') in interp.prog.methods:
        sub = Struct('DefaultHasher', {'fed': Vec([])})
        interp.call_fn(interp.prog.methods[(v.ty, 'Hash', 'hash')], [sub], v, v.ty)
        return ('custom', v.ty, tuple(sub.f['fed'].v))
    return v


ANY_METHODS = {
    'clone': m_clone, 'cloned': m_clone, 'to_owned': m_clone, 'into': m_ident, 'as_ref': m_ident, 'as_mut': m_ident,
    'borrow': m_ident, 'borrow_mut': m_ident, 'deref': m_ident, 'deref_mut': m_ident, 'to_string': m_to_string,
    'eq': m_eq, 'ne': m_ne, 'cmp': m_cmp, 'partial_cmp': m_partial_cmp, 'max': m_max, 'min': m_min,
    'hash': m_hash, 'try_into': lambda i, v, a, p, h, t: Ok(v), 'as_deref': m_ident, 'copied': m_clone,
    'lock': lambda i, v, a, p, h, t: Ok(v), 'read': lambda i, v, a, p, h, t: Ok(v),
    'write': lambda i, v, a, p, h, t: Ok(v), 'get_mut': m_ident, 'into_inner': m_ident, 'unwrap_or_clone': m_ident,
}


# ---- str ----------------------------------------------------------------------------------------

def _arg(args, i=0):
    return deref(args[i])


def s_len(interp, s, a, pl, h, tf):
    return UIntC(s.blen())


def s_push_str(interp, s, a, pl, h, tf):
    o = _arg(a)
    if not isinstance(o, Str):
        raise Inconclusive('push_str(%r)' % (o,))
    _set(pl, s.concat(o))
    return ()


def s_push(interp, s, a, pl, h, tf):
    c = _arg(a)
    _set(pl, Str(s.cs + (c.c,)))
    return ()


def s_pop(interp, s, a, pl, h, tf):
    if not s.cs:
        return mk_none()
    _set(pl, Str(s.cs[:-1]))
    return Some(Ch(s.cs[-1]))


def s_chars(interp, s, a, pl, h, tf):
    s._no_opaque('chars')
    return I.from_list([Ch(c) for c in s.cs])


def s_char_indices(interp, s, a, pl, h, tf):
    s._no_opaque('char_indices')
    o = s.offs()
    return I.from_list([(UIntC(o[i]), Ch(c)) for i, c in enumerate(s.cs)])


def _utf8_bytes(c):
    return list(chr(c).encode('utf-8'))


def s_bytes(interp, s, a, pl, h, tf):
    """str::bytes: symbolic one-byte characters stay symbolic (the byte is the code point); a symbolic wider character is
    split over the representative non-ASCII set (a path per member) and contributes its concrete UTF-8 bytes"""
    s._no_opaque('bytes')
    out = []
    for c in s.cs:
        if isinstance(c, int):
            out.extend(UIntC(b) for b in _utf8_bytes(c))
        elif V.cwidth(c) == 1:
            out.append(c)
        else:
            for r in V.R_CHARS:
                if V.utf8_width(r) == V.cwidth(c) and decide(c == r):
                    out.extend(UIntC(b) for b in _utf8_bytes(r))
                    break
            else:
                raise PathAbort()
    return I.from_list(out)


def s_as_bytes(interp, s, a, pl, h, tf):
    if any(not isinstance(c, int) for c in s.cs):
        return s       # treated as text by hashing / writing models
    return Vec([UIntC(b) for b in ''.join(map(chr, s.cs)).encode('utf-8')], 'bytes')


def s_parse(interp, s, a, pl, hint, tf):
    t = None
    if tf:
        t, _ = interp_type_head(interp, tf[0])
    elif hint is not None:
        hh, ha = interp_type_head(interp, hint)
        if hh == 'Result' and ha:
            t, _ = interp_type_head(interp, ha[0])
        else:
            t = hh
    if t is None:
        raise Inconclusive('parse() without target type')
    if t in ('u64', 'usize', 'u128'):
        return S.parse_uint(interp, s, 64)
    if t in ('u32', 'u16', 'u8'):
        return S.parse_uint(interp, s, int(t[1:]))
    if t in ('i64', 'isize', 'i32', 'i16', 'i8', 'i128'):
        return S.parse_int(interp, s, 64 if t in ('isize', 'i128') else int(t[1:]))
    if t in ('f64', 'f32'):
        return S.parse_float(interp, s)
    if t == 'bool':
        if decide(V.str_eq(s, Str('true'))):
            return Ok(True)
        if decide(V.str_eq(s, Str('false'))):
            return Ok(False)
        return Err(Struct('ParseBoolError', {}))
    if t == 'String':
        return Ok(s)
    if t == 'char':
        if len(s.cs) == 1:
            return Ok(Ch(s.cs[0]))
        return Err(Struct('ParseCharError', {}))
    fd = interp.prog.methods.get((t, 'from_str'))
    if fd is not None:
        return interp.call_fn(fd, [s], None, t)
    for ext in EXT_PATH_MODELS:
        r = ext(interp, [t, 'from_str'], [s], hint, None)
        if r is not NotImplemented:
            return r
    raise Inconclusive('parse::<%s>()' % t)


def s_get(interp, s, a, pl, h, tf):
    r = _arg(a)
    if isinstance(r, Struct) and r.ty == 'Range':
        lo, hi = r.f['start'], r.f['end']
        if hi is not None and r.f['closed']:
            hi = hi + 1
        try:
            return Some(s.slice_bytes(lo, hi))
        except RustPanic:
            return mk_none()
    raise Inconclusive('str::get(%r)' % (r,))


def s_is_char_boundary(interp, s, a, pl, h, tf):
    i = _arg(a)
    return i in s.offs()


def s_nth_char(s, i):
    return Some(Ch(s.cs[i])) if 0 <= i < len(s.cs) else mk_none()


def s_truncate(interp, s, a, pl, h, tf):
    n = _arg(a)
    if n < s.blen():
        _set(pl, s.slice_bytes(0, n))
    return ()


def s_insert(interp, s, a, pl, h, tf):
    i = s.char_index_of_byte(_arg(a, 0))
    c = _arg(a, 1)
    _set(pl, Str(s.cs[:i] + (c.c,) + s.cs[i:]))
    return ()


def s_insert_str(interp, s, a, pl, h, tf):
    i = s.char_index_of_byte(_arg(a, 0))
    o = _arg(a, 1)
    _set(pl, Str(s.cs[:i] + o.cs + s.cs[i:]))
    return ()


def s_remove(interp, s, a, pl, h, tf):
    i = s.char_index_of_byte(_arg(a, 0))
    if i >= len(s.cs):
        raise RustPanic('cannot remove a char from the end of a string')
    _set(pl, Str(s.cs[:i] + s.cs[i + 1:]))
    return Ch(s.cs[i])


def s_split_at(interp, s, a, pl, h, tf):
    i = _arg(a)
    return (s.slice_bytes(0, i), s.slice_bytes(i, None))


def s_eq_ignore_ascii_case(interp, s, a, pl, h, tf):
    o = _arg(a)
    return V.str_eq(S.s_map_chars(s, V.ascii_lower), S.s_map_chars(o, V.ascii_lower))


def s_extend(interp, s, a, pl, h, tf):
    add = collect_into(interp, into_iter(interp, a[0]), 'String', None)
    _set(pl, s.concat(add))
    return ()


def s_is_ascii(interp, s, a, pl, h, tf):
    return z_and(*[(c < 128) if not isinstance(c, Opaque) else True for c in s.cs])


def s_drain(interp, s, a, pl, h, tf):
    r = _arg(a)
    lo = r.f['start'] or 0
    hi = r.f['end'] if r.f['end'] is not None else s.blen()
    i, j = s.char_index_of_byte(lo), s.char_index_of_byte(hi)
    _set(pl, Str(s.cs[:i] + s.cs[j:]))
    return I.from_list([Ch(c) for c in s.cs[i:j]])


STR_METHODS = {
    'len': s_len,
    'is_empty': lambda i, s, a, p, h, t: len(s.cs) == 0,
    'as_str': m_ident, 'to_string': m_ident, 'to_owned': m_ident, 'clone': m_ident, 'into': m_ident,
    'as_ref': m_ident, 'borrow': m_ident, 'into_boxed_str': m_ident, 'into_string': m_ident, 'as_mut_str': m_ident,
    'to_str': lambda i, s, a, p, h, t: Some(s), 'display': m_ident, 'to_string_lossy': m_ident,
    'push_str': s_push_str, 'push': s_push, 'pop': s_pop,
    'clear': lambda i, s, a, p, h, t: _set(p, Str('')) or (),
    'chars': s_chars, 'char_indices': s_char_indices, 'bytes': s_bytes, 'as_bytes': s_as_bytes, 'into_bytes': s_as_bytes,
    'trim': lambda i, s, a, p, h, t: S.s_trim(i, s),
    'trim_start': lambda i, s, a, p, h, t: S.s_trim(i, s, True, False),
    'trim_end': lambda i, s, a, p, h, t: S.s_trim(i, s, False, True),
    'trim_left': lambda i, s, a, p, h, t: S.s_trim(i, s, True, False),
    'trim_right': lambda i, s, a, p, h, t: S.s_trim(i, s, False, True),
    'trim_matches': lambda i, s, a, p, h, t: S.s_trim_matches(i, s, a[0]),
    'trim_start_matches': lambda i, s, a, p, h, t: S.s_trim_matches(i, s, a[0], True, False),
    'trim_end_matches': lambda i, s, a, p, h, t: S.s_trim_matches(i, s, a[0], False, True),
    'trim_left_matches': lambda i, s, a, p, h, t: S.s_trim_matches(i, s, a[0], True, False),
    'trim_right_matches': lambda i, s, a, p, h, t: S.s_trim_matches(i, s, a[0], False, True),
    'starts_with': lambda i, s, a, p, h, t: S.s_starts_with(i, s, a[0]),
    'ends_with': lambda i, s, a, p, h, t: S.s_ends_with(i, s, a[0]),
    'strip_prefix': lambda i, s, a, p, h, t: S.s_strip_prefix(i, s, a[0]),
    'strip_suffix': lambda i, s, a, p, h, t: S.s_strip_suffix(i, s, a[0]),
    'find': lambda i, s, a, p, h, t: S.s_find(i, s, a[0]),
    'rfind': lambda i, s, a, p, h, t: S.s_find(i, s, a[0], True),
    'contains': lambda i, s, a, p, h, t: S.s_contains(i, s, a[0]),
    'split': lambda i, s, a, p, h, t: I.from_list(S.s_split(i, s, a[0])),
    'rsplit': lambda i, s, a, p, h, t: I.from_list(S.s_split(i, s, a[0], None, True)),
    'splitn': lambda i, s, a, p, h, t: I.from_list(S.s_split(i, s, a[1], _arg(a, 0))),
    'rsplitn': lambda i, s, a, p, h, t: I.from_list(S.s_split(i, s, a[1], _arg(a, 0), True)),
    'split_terminator': lambda i, s, a, p, h, t: I.from_list(S.s_split(i, s, a[0], terminator=True)),
    'split_inclusive': lambda i, s, a, p, h, t: I.from_list(S.s_split(i, s, a[0], inclusive=True)),
    'split_once': lambda i, s, a, p, h, t: S.s_split_once(i, s, a[0]),
    'rsplit_once': lambda i, s, a, p, h, t: S.s_split_once(i, s, a[0], True),
    'split_whitespace': lambda i, s, a, p, h, t: I.from_list(S.s_split_whitespace(i, s)),
    'split_ascii_whitespace': lambda i, s, a, p, h, t: I.from_list(S.s_split_whitespace(i, s)),
    'lines': lambda i, s, a, p, h, t: I.from_list(S.s_lines(i, s)),
    'replace': lambda i, s, a, p, h, t: S.s_replace(i, s, a[0], a[1]),
    'replacen': lambda i, s, a, p, h, t: S.s_replace(i, s, a[0], a[1], _arg(a, 2)),
    'matches': lambda i, s, a, p, h, t: I.from_list([Str('')] * S.s_matches_count(i, s, a[0])),
    'to_ascii_uppercase': lambda i, s, a, p, h, t: S.s_map_chars(s, V.ascii_upper),
    'to_ascii_lowercase': lambda i, s, a, p, h, t: S.s_map_chars(s, V.ascii_lower),
    'make_ascii_uppercase': lambda i, s, a, p, h, t: _set(p, S.s_map_chars(s, V.ascii_upper)) or (),
    'make_ascii_lowercase': lambda i, s, a, p, h, t: _set(p, S.s_map_chars(s, V.ascii_lower)) or (),
    'to_uppercase': lambda i, s, a, p, h, t: S.s_unicode_case(s, 'up'),
    'to_lowercase': lambda i, s, a, p, h, t: S.s_unicode_case(s, 'lo'),
    'repeat': lambda i, s, a, p, h, t: S.s_repeat(s, _arg(a)),
    'parse': s_parse, 'get': s_get, 'is_char_boundary': s_is_char_boundary,
    'truncate': s_truncate, 'insert': s_insert, 'insert_str': s_insert_str, 'remove': s_remove,
    'split_at': s_split_at, 'eq_ignore_ascii_case': s_eq_ignore_ascii_case, 'extend': s_extend,
    'is_ascii': s_is_ascii, 'drain': s_drain,
    'capacity': s_len, 'reserve': lambda i, s, a, p, h, t: (), 'shrink_to_fit': lambda i, s, a, p, h, t: (),
    'escape_debug': lambda i, s, a, p, h, t: Str(S.debug_escape(i, s).cs[1:-1]),
    'escape_default': lambda i, s, a, p, h, t: Str(S.debug_escape(i, s).cs[1:-1]),
    'eq': m_eq, 'ne': m_ne, 'cmp': m_cmp, 'partial_cmp': m_partial_cmp, 'hash': m_hash,
    'into_iter': s_chars,
}


# ---- char ---------------------------------------------------------------------------------------

def _cc(cls):
    return lambda i, c, a, p, h, t: V.char_class(c.c, cls)


def c_is_alphanumeric(i, c, a, p, h, t):
    return z_or(V.char_class(c.c, 'alpha'), V.char_class(c.c, 'num'))


def _ascii(pred):
    def f(i, c, a, p, h, t):
        x = c.c
        if is_sym(x):
            if V.cwidth(x) != 1:
                return False
            return pred(x, True)
        return x < 128 and pred(x, False)
    return f


def _rng(x, lo, hi, sym):
    return z3.And(x >= lo, x <= hi) if sym else (lo <= x <= hi)


CHAR_METHODS = {
    'is_whitespace': _cc('ws'), 'is_alphabetic': _cc('alpha'), 'is_uppercase': _cc('upper'),
    'is_lowercase': _cc('lower'), 'is_numeric': _cc('num'), 'is_alphanumeric': c_is_alphanumeric,
    'is_ascii': lambda i, c, a, p, h, t: (V.cwidth(c.c) == 1) if is_sym(c.c) else c.c < 128,
    'is_ascii_digit': _ascii(lambda x, s: _rng(x, 48, 57, s)),
    'is_digit': _ascii(lambda x, s: _rng(x, 48, 57, s)),
    'is_ascii_uppercase': _ascii(lambda x, s: _rng(x, 65, 90, s)),
    'is_ascii_lowercase': _ascii(lambda x, s: _rng(x, 97, 122, s)),
    'is_ascii_alphabetic': _ascii(lambda x, s: z_or(_rng(x, 65, 90, s), _rng(x, 97, 122, s))),
    'is_ascii_alphanumeric': _ascii(lambda x, s: z_or(_rng(x, 65, 90, s), _rng(x, 97, 122, s), _rng(x, 48, 57, s))),
    'is_ascii_whitespace': _ascii(lambda x, s: z_or(x == 32, x == 9, x == 10, x == 12, x == 13)),
    'is_ascii_punctuation': _ascii(lambda x, s: z_or(_rng(x, 33, 47, s), _rng(x, 58, 64, s), _rng(x, 91, 96, s), _rng(x, 123, 126, s))),
    'is_ascii_control': _ascii(lambda x, s: z_or(x < 32, x == 127)),
    'is_control': lambda i, c, a, p, h, t: z_or(c.c < 32, z_and(c.c >= 127, c.c < 160)),
    'to_ascii_uppercase': lambda i, c, a, p, h, t: Ch(V.ascii_upper(c.c)),
    'to_ascii_lowercase': lambda i, c, a, p, h, t: Ch(V.ascii_lower(c.c)),
    'to_uppercase': lambda i, c, a, p, h, t: I.from_list([Ch(x) for x in V.unicode_case(c.c, 'up')]),
    'to_lowercase': lambda i, c, a, p, h, t: I.from_list([Ch(x) for x in V.unicode_case(c.c, 'lo')]),
    'len_utf8': lambda i, c, a, p, h, t: UIntC(V.cwidth(c.c)),
    'to_string': lambda i, c, a, p, h, t: Str((c.c,)),
    'to_digit': lambda i, c, a, p, h, t: (Some(UIntC(c.c - 48)) if decide(_rng(c.c, 48, 57, is_sym(c.c))) else mk_none()),
    'eq_ignore_ascii_case': lambda i, c, a, p, h, t: V.char_eq(V.ascii_lower(c.c), V.ascii_lower(_arg(a).c)),
    'eq': m_eq, 'ne': m_ne, 'clone': m_ident, 'cmp': m_cmp, 'partial_cmp': m_partial_cmp,
}


# ---- numbers / bool -------------------------------------------------------------------------------

def i_checked_sub(i, v, a, p, h, t):
    o = _arg(a)
    if is_sym(v) or is_sym(o):
        if decide(v >= o):
            return Some(v - o)
        return mk_none()
    if int(v) - int(o) < 0 and type(v).__name__ == 'UInt':
        return mk_none()
    return Some(type(v)(int(v) - int(o)))


def i_saturating_sub(i, v, a, p, h, t):
    o = _arg(a)
    if is_sym(v) or is_sym(o):
        return z3.If(v >= o, v - o, 0)
    r = int(v) - int(o)
    if type(v).__name__ == 'UInt':
        return UIntC(max(0, r))
    return r


INT_METHODS = {
    'to_string': m_to_string, 'clone': m_ident, 'into': m_ident,
    'checked_sub': i_checked_sub, 'saturating_sub': i_saturating_sub,
    'checked_add': lambda i, v, a, p, h, t: Some(v + _arg(a)),
    'saturating_add': lambda i, v, a, p, h, t: v + _arg(a),
    'wrapping_add': lambda i, v, a, p, h, t: v + _arg(a),
    'checked_mul': lambda i, v, a, p, h, t: Some(v * _arg(a)),
    'pow': lambda i, v, a, p, h, t: type(v)(int(v) ** int(_arg(a))),
    'abs': lambda i, v, a, p, h, t: abs(v) if not is_sym(v) else z3.If(v >= 0, v, -v),
    'max': m_max, 'min': m_min, 'cmp': m_cmp, 'partial_cmp': m_partial_cmp, 'eq': m_eq, 'ne': m_ne, 'hash': m_hash,
    'is_ascii_digit': lambda i, v, a, p, h, t: _rng(v, 48, 57, is_sym(v)),
    'is_ascii_alphabetic': lambda i, v, a, p, h, t: z_or(_rng(v, 65, 90, is_sym(v)), _rng(v, 97, 122, is_sym(v))),
    'count_ones': lambda i, v, a, p, h, t: UIntC(bin(int(v)).count('1')),
    'unwrap_or_default': m_ident,
}

BOOL_METHODS = {
    'then': lambda i, v, a, p, h, t: (Some(i.call_value(a[0], [])) if decide(v) else mk_none()),
    'then_some': lambda i, v, a, p, h, t: (Some(a[0]) if decide(v) else mk_none()),
    'not': lambda i, v, a, p, h, t: z_not(v),
    'to_string': lambda i, v, a, p, h, t: (Str('true') if decide(v) else Str('false')),
    'clone': m_ident, 'eq': m_eq, 'ne': m_ne, 'hash': m_hash, 'cmp': m_cmp,
}


def f_concrete(v):
    if v.v is None:
        raise Inconclusive('arithmetic on opaque float')
    return v.v


FLOAT_METHODS = {
    'to_string': m_to_string, 'clone': m_ident, 'into': m_ident,
    'floor': lambda i, v, a, p, h, t: Float(float(__import__('math').floor(f_concrete(v)))),
    'ceil': lambda i, v, a, p, h, t: Float(float(__import__('math').ceil(f_concrete(v)))),
    'round': lambda i, v, a, p, h, t: Float(float(round(f_concrete(v)))),
    'abs': lambda i, v, a, p, h, t: Float(abs(f_concrete(v))),
    'fract': lambda i, v, a, p, h, t: Float(f_concrete(v) - int(f_concrete(v))),
    'is_nan': lambda i, v, a, p, h, t: (v.v != v.v) if v.v is not None else False,
    'is_finite': lambda i, v, a, p, h, t: (abs(v.v) != float('inf') and v.v == v.v) if v.v is not None else True,
    'is_infinite': lambda i, v, a, p, h, t: (abs(v.v) == float('inf')) if v.v is not None else False,
    'partial_cmp': m_partial_cmp, 'max': m_max, 'min': m_min, 'eq': m_eq,
}

TUPLE_METHODS = {'clone': m_clone, 'eq': m_eq, 'ne': m_ne, 'cmp': m_cmp, 'partial_cmp': m_partial_cmp, 'hash': m_hash,
                 'into': m_ident}

ORD_METHODS = {
    'reverse': lambda i, v, a, p, h, t: Enum('Ordering', {'Less': 'Greater', 'Greater': 'Less', 'Equal': 'Equal'}[v.var], []),
    'then': lambda i, v, a, p, h, t: (v if v.var != 'Equal' else _arg(a)),
    'then_with': lambda i, v, a, p, h, t: (v if v.var != 'Equal' else i.call_value(a[0], [])),
    'is_eq': lambda i, v, a, p, h, t: v.var == 'Equal', 'is_ne': lambda i, v, a, p, h, t: v.var != 'Equal',
    'is_lt': lambda i, v, a, p, h, t: v.var == 'Less', 'is_gt': lambda i, v, a, p, h, t: v.var == 'Greater',
    'is_le': lambda i, v, a, p, h, t: v.var != 'Greater', 'is_ge': lambda i, v, a, p, h, t: v.var != 'Less',
    'eq': m_eq, 'ne': m_ne, 'clone': m_ident,
}


class HasherModel:
    """std::hash::DefaultHasher: uninterpreted injective function of the fed sequence"""
    @staticmethod
    def call_method(interp, v, name, a, pl, hint, tf, ctx):
        if name == 'finish':
            return Opaque('hash', tuple(v.f['fed'].v))
        if name in ('write', 'write_u8', 'write_u32', 'write_u64', 'write_usize', 'write_str'):
            v.f['fed'].v.append(deref(a[0]))
            return ()
        return NotImplemented


EXT_STRUCT_MODELS['DefaultHasher'] = HasherModel


def _hasher_paths(interp, segs, args, hint, generics):
    if segs[-2:] == ['DefaultHasher', 'new'] or segs[-2:] == ['DefaultHasher', 'default']:
        return Struct('DefaultHasher', {'fed': Vec([])})
    return NotImplemented


EXT_PATH_MODELS.append(_hasher_paths)

OPT_METHODS = RES_METHODS = VEC_METHODS = ITER_METHODS = MAP_METHODS = SET_METHODS = {}
from . import builtins_coll  # noqa: E402  (fills the method tables above)
from .models import syn as _syn_model  # noqa: E402,F401
from .models import fs as _fs_model  # noqa: E402,F401
from .models import json as _json_model  # noqa: E402,F401
from .models import tera as _tera_model  # noqa: E402,F401
from .models import misc as _misc_model  # noqa: E402,F401
