"""rsx.sym -- constructors for symbolic inputs"""
import z3
from . import values as V
from .values import Str, Ch


def sym_char(name, alphabet='printable'):
    """fresh ASCII-mode symbolic char constrained to alphabet:
    'printable' (0x20..0x7e) | 'ascii' (0..127) | python str of allowed chars | list of (lo,hi) ranges"""
    e = V.ENG
    c = z3.Int(name)
    e.sym_names[name] = c
    if alphabet == 'printable':
        e.add_fact(z3.And(c >= 0x20, c <= 0x7e))
    elif alphabet == 'ascii':
        e.add_fact(z3.And(c >= 0, c <= 127))
    elif isinstance(alphabet, str):
        e.add_fact(z3.Or(*[c == ord(x) for x in sorted(set(alphabet))]))
    else:
        e.add_fact(z3.Or(*[z3.And(c >= lo, c <= hi) for lo, hi in alphabet]))
    return c


def sym_str(name, n, alphabet='printable'):
    return Str(tuple(sym_char('%s_%d' % (name, i), alphabet) for i in range(n)))


def sym_str_upto(name, maxlen, alphabet='printable', minlen=0):
    """symbolic string of nondeterministically chosen length in [minlen, maxlen]"""
    k = V.ENG.choose(maxlen - minlen + 1)
    return sym_str(name, minlen + k, alphabet)


def sym_char_utf8(name):
    """UTF-8 mode char: width class chosen nondeterministically; non-ASCII ranges over R_CHARS"""
    e = V.ENG
    w = 1 + e.choose(4)
    c = z3.Int(name)
    e.sym_names[name] = c
    e.char_width[c.get_id()] = w
    if w == 1:
        e.add_fact(z3.And(c >= 0x20, c <= 0x7e))
    else:
        ms = [r for r in V.R_CHARS if V.utf8_width(r) == w]
        e.add_fact(z3.Or(*[c == r for r in ms]))
    return c


def sym_str_utf8(name, n):
    return Str(tuple(sym_char_utf8('%s_%d' % (name, i)) for i in range(n)))


def concretize_str(model, s):
    """python str of a Str under a z3 model"""
    out = []
    for c in s.cs:
        if isinstance(c, int):
            out.append(chr(c))
        elif isinstance(c, V.Opaque):
            out.append('<%s>' % c.kind)
        else:
            v = model.eval(c, model_completion=True)
            out.append(chr(v.as_long()))
    return ''.join(out)
