"""rsx.builtins_coll -- Option / Result / Vec / iterator / HashMap / HashSet methods."""
import functools
import z3

from . import values as V
from . import iters as I
from . import builtins as B
from .engine import RustPanic, Inconclusive, is_sym, z_and, z_or, z_not
from .values import (Str, Ch, Struct, Enum, Vec, HMap, HSet, Ref, Closure, FnRef, PyFn, Float, Opaque,
                     Some, Ok, Err, mk_none, deref, deep_clone, sym_eq, is_some, is_none)
from .iters import Iter

decide = B.decide
_arg = B._arg
_set = B._set
UIntC = B.UIntC


def _inner_hint(h, head):
    if h is None:
        return None
    from .interp import type_head
    hh, ha = type_head(h)
    return ha[0] if hh == head and ha else None


def call(i, f, *args):
    return i.call_value(f, list(args))


# ---- Option -------------------------------------------------------------------------------------

def o_unwrap(i, v, a, p, h, t):
    if v.var == 'None':
        raise RustPanic('called `Option::unwrap()` on a `None` value')
    return v.vals[0]


def o_expect(i, v, a, p, h, t):
    if v.var == 'None':
        m = _arg(a).py() if isinstance(_arg(a), Str) else None
        raise RustPanic('expect failed: %s' % m)
    return v.vals[0]


def o_take(i, v, a, p, h, t):
    _set(p, mk_none())
    return v


def o_replace(i, v, a, p, h, t):
    _set(p, Some(a[0]))
    return v


def o_insert(i, v, a, p, h, t):
    _set(p, Some(a[0]))
    return a[0]


def o_get_or_insert_with(i, v, a, p, h, t):
    if v.var == 'None':
        x = call(i, a[0])
        nv = Some(x)
        _set(p, nv)
        return i._slot(nv.vals, 0)
    return i._slot(v.vals, 0)


def o_map_or(i, v, a, p, h, t):
    if v.var == 'None':
        return a[0]
    return call(i, a[1], v.vals[0])


def o_map_or_else(i, v, a, p, h, t):
    if v.var == 'None':
        return call(i, a[0])
    return call(i, a[1], v.vals[0])


def o_unwrap_or_default(i, v, a, p, h, t):
    if v.var == 'Some':
        return v.vals[0]
    if h is None:
        raise Inconclusive('unwrap_or_default without type context')
    return i.default_of_type(h)


def o_zip(i, v, a, p, h, t):
    o = _arg(a)
    if v.var == 'Some' and o.var == 'Some':
        return Some((v.vals[0], o.vals[0]))
    return mk_none()


def o_filter(i, v, a, p, h, t):
    if v.var == 'Some' and decide(deref(call(i, a[0], v.vals[0]))):
        return v
    return mk_none()


def o_is_some_and(i, v, a, p, h, t):
    if v.var == 'None':
        return False
    return deref(call(i, a[0], v.vals[0]))


def o_is_none_or(i, v, a, p, h, t):
    if v.var == 'None':
        return True
    return deref(call(i, a[0], v.vals[0]))


def o_as_mut(i, v, a, p, h, t):
    if v.var == 'None':
        return v
    return Some(i._slot(v.vals, 0))


def o_cloned(i, v, a, p, h, t):
    return deep_clone(v)


def o_flatten(i, v, a, p, h, t):
    if v.var == 'None':
        return v
    return deref(v.vals[0])


def o_xor(i, v, a, p, h, t):
    o = _arg(a)
    if v.var == 'Some' and o.var == 'None':
        return v
    if v.var == 'None' and o.var == 'Some':
        return o
    return mk_none()


B.OPT_METHODS = {
    'is_some': lambda i, v, a, p, h, t: v.var == 'Some',
    'is_none': lambda i, v, a, p, h, t: v.var == 'None',
    'unwrap': o_unwrap, 'expect': o_expect, 'unwrap_unchecked': o_unwrap,
    'unwrap_or': lambda i, v, a, p, h, t: v.vals[0] if v.var == 'Some' else a[0],
    'unwrap_or_else': lambda i, v, a, p, h, t: v.vals[0] if v.var == 'Some' else call(i, a[0]),
    'unwrap_or_default': o_unwrap_or_default,
    'map': lambda i, v, a, p, h, t: Some(i.call_value(a[0], [v.vals[0]], _inner_hint(h, 'Option'))) if v.var == 'Some' else v,
    'inspect': lambda i, v, a, p, h, t: (call(i, a[0], v.vals[0]), v)[1] if v.var == 'Some' else v,
    'and_then': lambda i, v, a, p, h, t: deref(call(i, a[0], v.vals[0])) if v.var == 'Some' else v,
    'and': lambda i, v, a, p, h, t: _arg(a) if v.var == 'Some' else v,
    'or': lambda i, v, a, p, h, t: v if v.var == 'Some' else _arg(a),
    'or_else': lambda i, v, a, p, h, t: v if v.var == 'Some' else deref(call(i, a[0])),
    'map_or': o_map_or, 'map_or_else': o_map_or_else,
    'ok_or': lambda i, v, a, p, h, t: Ok(v.vals[0]) if v.var == 'Some' else Err(a[0]),
    'ok_or_else': lambda i, v, a, p, h, t: Ok(v.vals[0]) if v.var == 'Some' else Err(call(i, a[0])),
    'take': o_take, 'replace': o_replace, 'insert': o_insert, 'get_or_insert_with': o_get_or_insert_with,
    'as_ref': B.m_ident, 'as_mut': o_as_mut, 'as_deref': B.m_ident, 'as_deref_mut': o_as_mut, 'as_slice': lambda i, v, a, p, h, t: Vec(list(v.vals)),
    'cloned': o_cloned, 'copied': o_cloned, 'clone': o_cloned,
    'iter': lambda i, v, a, p, h, t: I.from_list(list(v.vals)),
    'into_iter': lambda i, v, a, p, h, t: I.from_list(list(v.vals)),
    'iter_mut': lambda i, v, a, p, h, t: I.from_list([i._slot(v.vals, 0)] if v.vals else []),
    'filter': o_filter, 'zip': o_zip, 'flatten': o_flatten, 'xor': o_xor,
    'is_some_and': o_is_some_and, 'is_none_or': o_is_none_or,
    'transpose': lambda i, v, a, p, h, t: (Ok(mk_none()) if v.var == 'None' else
                                           (Ok(Some(deref(v.vals[0]).vals[0])) if deref(v.vals[0]).var == 'Ok' else deref(v.vals[0]))),
    'eq': B.m_eq, 'ne': B.m_ne, 'cmp': B.m_cmp, 'partial_cmp': B.m_partial_cmp, 'hash': B.m_hash,
    'into': B.m_ident, 'to_owned': o_cloned,
}


# ---- Result -------------------------------------------------------------------------------------

def r_unwrap(i, v, a, p, h, t):
    if v.var == 'Err':
        raise RustPanic('called `Result::unwrap()` on an `Err` value')
    return v.vals[0]


def r_expect(i, v, a, p, h, t):
    if v.var == 'Err':
        raise RustPanic('Result::expect failed')
    return v.vals[0]


def r_unwrap_err(i, v, a, p, h, t):
    if v.var == 'Ok':
        raise RustPanic('called `Result::unwrap_err()` on an `Ok` value')
    return v.vals[0]


def r_unwrap_or_default(i, v, a, p, h, t):
    if v.var == 'Ok':
        return v.vals[0]
    if h is None:
        raise Inconclusive('unwrap_or_default without type context')
    return i.default_of_type(h)


B.RES_METHODS = {
    'is_ok': lambda i, v, a, p, h, t: v.var == 'Ok',
    'is_err': lambda i, v, a, p, h, t: v.var == 'Err',
    'unwrap': r_unwrap, 'expect': r_expect, 'unwrap_err': r_unwrap_err, 'expect_err': r_unwrap_err,
    'unwrap_or': lambda i, v, a, p, h, t: v.vals[0] if v.var == 'Ok' else a[0],
    'unwrap_or_else': lambda i, v, a, p, h, t: v.vals[0] if v.var == 'Ok' else call(i, a[0], v.vals[0]),
    'unwrap_or_default': r_unwrap_or_default,
    'ok': lambda i, v, a, p, h, t: Some(v.vals[0]) if v.var == 'Ok' else mk_none(),
    'err': lambda i, v, a, p, h, t: Some(v.vals[0]) if v.var == 'Err' else mk_none(),
    'map': lambda i, v, a, p, h, t: Ok(call(i, a[0], v.vals[0])) if v.var == 'Ok' else v,
    'map_err': lambda i, v, a, p, h, t: Err(call(i, a[0], v.vals[0])) if v.var == 'Err' else v,
    'and_then': lambda i, v, a, p, h, t: deref(call(i, a[0], v.vals[0])) if v.var == 'Ok' else v,
    'or_else': lambda i, v, a, p, h, t: deref(call(i, a[0], v.vals[0])) if v.var == 'Err' else v,
    'and': lambda i, v, a, p, h, t: _arg(a) if v.var == 'Ok' else v,
    'or': lambda i, v, a, p, h, t: v if v.var == 'Ok' else _arg(a),
    'map_or': lambda i, v, a, p, h, t: a[0] if v.var == 'Err' else call(i, a[1], v.vals[0]),
    'map_or_else': lambda i, v, a, p, h, t: call(i, a[0], v.vals[0]) if v.var == 'Err' else call(i, a[1], v.vals[0]),
    'is_ok_and': lambda i, v, a, p, h, t: (v.var == 'Ok') and deref(call(i, a[0], v.vals[0])),
    'is_err_and': lambda i, v, a, p, h, t: (v.var == 'Err') and deref(call(i, a[0], v.vals[0])),
    'as_ref': B.m_ident, 'as_mut': B.m_ident, 'clone': B.m_clone, 'cloned': B.m_clone,
    'iter': lambda i, v, a, p, h, t: I.from_list(list(v.vals) if v.var == 'Ok' else []),
    'into_iter': lambda i, v, a, p, h, t: I.from_list(list(v.vals) if v.var == 'Ok' else []),
    'inspect_err': lambda i, v, a, p, h, t: (call(i, a[0], v.vals[0]), v)[1] if v.var == 'Err' else v,
    'inspect': lambda i, v, a, p, h, t: (call(i, a[0], v.vals[0]), v)[1] if v.var == 'Ok' else v,
    'transpose': lambda i, v, a, p, h, t: (Some(v) if v.var == 'Err' else
                                           (mk_none() if deref(v.vals[0]).var == 'None' else Some(Ok(deref(v.vals[0]).vals[0])))),
    'eq': B.m_eq, 'ne': B.m_ne, 'into': B.m_ident,
}


# ---- Vec / slices -----------------------------------------------------------------------------

def cmp_key(i, f=None):
    if f is None:
        return functools.cmp_to_key(lambda x, y: B.value_cmp(i, x, y))

    def c(x, y):
        o = deref(call(i, f, x, y))
        return {'Less': -1, 'Equal': 0, 'Greater': 1}[o.var]
    return functools.cmp_to_key(c)


def v_sort(i, v, a, p, h, t):
    v.v.sort(key=cmp_key(i))
    return ()


def v_sort_by(i, v, a, p, h, t):
    v.v.sort(key=cmp_key(i, a[0]))
    return ()


def v_sort_by_key(i, v, a, p, h, t):
    keys = [(call(i, a[0], x), x) for x in v.v]
    keys.sort(key=functools.cmp_to_key(lambda x, y: B.value_cmp(i, x[0], y[0])))
    v.v[:] = [x[1] for x in keys]
    return ()


def v_dedup(i, v, a, p, h, t):
    out = []
    for x in v.v:
        if out and decide(sym_eq(out[-1], x)):
            continue
        out.append(x)
    v.v[:] = out
    return ()


def v_dedup_by_key(i, v, a, p, h, t):
    out = []
    last = None
    for x in v.v:
        k = call(i, a[0], x)
        if out and decide(sym_eq(last, k)):
            continue
        out.append(x)
        last = k
    v.v[:] = out
    return ()


def v_contains(i, v, a, p, h, t):
    x = _arg(a)
    return z_or(*[sym_eq(deref(y), x) for y in v.v])


def v_retain(i, v, a, p, h, t):
    v.v[:] = [x for x in v.v if decide(deref(call(i, a[0], x)))]
    return ()


def v_remove(i, v, a, p, h, t):
    k = _arg(a)
    if k >= len(v.v):
        raise RustPanic('removal index (is %d) should be < len (is %d)' % (k, len(v.v)))
    return v.v.pop(k)


def v_insert(i, v, a, p, h, t):
    k = _arg(a, 0)
    if k > len(v.v):
        raise RustPanic('insertion index (is %d) should be <= len (is %d)' % (k, len(v.v)))
    v.v.insert(k, B._detach(a[1]))
    return ()


def v_swap(i, v, a, p, h, t):
    x, y = _arg(a, 0), _arg(a, 1)
    if x >= len(v.v) or y >= len(v.v):
        raise RustPanic('index out of bounds in swap')
    v.v[x], v.v[y] = v.v[y], v.v[x]
    return ()


def v_join(i, v, a, p, h, t):
    sep = _arg(a)
    if isinstance(sep, Ch):
        sep = Str((sep.c,))
    out = []
    for k, x in enumerate(v.v):
        x = deref(x)
        if k:
            out.extend(sep.cs)
        if isinstance(x, Str):
            out.extend(x.cs)
        elif isinstance(x, Vec):
            raise Inconclusive('join of nested vectors')
        else:
            raise Inconclusive('join of %r' % (x,))
    return Str(tuple(out))


def v_concat(i, v, a, p, h, t):
    if all(isinstance(deref(x), Str) for x in v.v):
        out = []
        for x in v.v:
            out.extend(deref(x).cs)
        return Str(tuple(out))
    out = []
    for x in v.v:
        out.extend(deref(x).v)
    return Vec(out)


def v_get(i, v, a, p, h, t):
    k = _arg(a)
    if isinstance(k, Struct) and k.ty == 'Range':
        try:
            return Some(B.index(i, v, k))
        except RustPanic:
            return mk_none()
    if is_sym(k):
        raise Inconclusive('symbolic index in get')
    if 0 <= k < len(v.v):
        return Some(v.v[k])
    return mk_none()


def v_get_mut(i, v, a, p, h, t):
    k = _arg(a)
    if 0 <= k < len(v.v):
        return Some(i._slot(v.v, k))
    return mk_none()


def v_extend(i, v, a, p, h, t):
    for x in B.into_iter(i, a[0]):
        v.v.append(B._detach(x))
    return ()


def v_drain(i, v, a, p, h, t):
    r = _arg(a)
    n = len(v.v)
    lo = r.f['start'] if r.f['start'] is not None else 0
    hi = r.f['end'] if r.f['end'] is not None else n
    if r.f['end'] is not None and r.f['closed']:
        hi += 1
    if lo > hi or hi > n:
        raise RustPanic('drain range out of bounds')
    out = v.v[lo:hi]
    del v.v[lo:hi]
    return I.from_list(out)


def v_split_first(i, v, a, p, h, t):
    if not v.v:
        return mk_none()
    return Some((v.v[0], Vec(v.v[1:])))


def v_split_last(i, v, a, p, h, t):
    if not v.v:
        return mk_none()
    return Some((v.v[-1], Vec(v.v[:-1])))


def v_windows(i, v, a, p, h, t):
    n = _arg(a)
    return I.from_list([Vec(v.v[k:k + n]) for k in range(0, len(v.v) - n + 1)])


def v_chunks(i, v, a, p, h, t):
    n = _arg(a)
    return I.from_list([Vec(v.v[k:k + n]) for k in range(0, len(v.v), n)])


def v_binary_search(i, v, a, p, h, t):
    x = _arg(a)
    for k, y in enumerate(v.v):
        c = B.value_cmp(i, y, x)
        if c == 0:
            return Ok(UIntC(k))
        if c > 0:
            return Err(UIntC(k))
    return Err(UIntC(len(v.v)))


def v_starts_with(i, v, a, p, h, t):
    o = _arg(a)
    if len(o.v) > len(v.v):
        return False
    return z_and(*[sym_eq(x, y) for x, y in zip(v.v, o.v)])


def v_iter_mut(i, v, a, p, h, t):
    return I.from_list([i._slot(v.v, k) for k in range(len(v.v))])


def v_truncate(i, v, a, p, h, t):
    del v.v[_arg(a):]
    return ()


def v_split_off(i, v, a, p, h, t):
    k = _arg(a)
    if k > len(v.v):
        raise RustPanic('split_off index out of bounds')
    out = v.v[k:]
    del v.v[k:]
    return Vec(out)


def v_to_vec(i, v, a, p, h, t):
    return Vec([deep_clone(x) for x in v.v])


def v_push(i, v, a, p, h, t):
    v.v.append(B._detach(a[0]))
    return ()


def v_position(i, v, a, p, h, t):
    for k, x in enumerate(v.v):
        if decide(deref(call(i, a[0], x))):
            return Some(UIntC(k))
    return mk_none()


def v_resize(i, v, a, p, h, t):
    n = _arg(a, 0)
    while len(v.v) < n:
        v.v.append(deep_clone(a[1]))
    del v.v[n:]
    return ()


B.VEC_METHODS = {
    'len': lambda i, v, a, p, h, t: UIntC(len(v.v)),
    'is_empty': lambda i, v, a, p, h, t: len(v.v) == 0,
    'push': v_push, 'push_back': v_push,
    'push_front': lambda i, v, a, p, h, t: v.v.insert(0, B._detach(a[0])) or (),
    'pop': lambda i, v, a, p, h, t: Some(v.v.pop()) if v.v else mk_none(),
    'pop_back': lambda i, v, a, p, h, t: Some(v.v.pop()) if v.v else mk_none(),
    'pop_front': lambda i, v, a, p, h, t: Some(v.v.pop(0)) if v.v else mk_none(),
    'first': lambda i, v, a, p, h, t: Some(v.v[0]) if v.v else mk_none(),
    'last': lambda i, v, a, p, h, t: Some(v.v[-1]) if v.v else mk_none(),
    'front': lambda i, v, a, p, h, t: Some(v.v[0]) if v.v else mk_none(),
    'back': lambda i, v, a, p, h, t: Some(v.v[-1]) if v.v else mk_none(),
    'first_mut': lambda i, v, a, p, h, t: Some(i._slot(v.v, 0)) if v.v else mk_none(),
    'last_mut': lambda i, v, a, p, h, t: Some(i._slot(v.v, len(v.v) - 1)) if v.v else mk_none(),
    'iter': lambda i, v, a, p, h, t: I.from_list(v.v),
    'into_iter': lambda i, v, a, p, h, t: I.from_list(v.v),
    'iter_mut': v_iter_mut,
    'clear': lambda i, v, a, p, h, t: v.v.clear() or (),
    'contains': v_contains, 'sort': v_sort, 'sort_unstable': v_sort, 'sort_by': v_sort_by,
    'sort_unstable_by': v_sort_by, 'sort_by_key': v_sort_by_key, 'sort_unstable_by_key': v_sort_by_key,
    'sort_by_cached_key': v_sort_by_key,
    'dedup': v_dedup, 'dedup_by_key': v_dedup_by_key, 'retain': v_retain, 'remove': v_remove, 'insert': v_insert,
    'swap': v_swap, 'reverse': lambda i, v, a, p, h, t: v.v.reverse() or (),
    'join': v_join, 'concat': v_concat, 'get': v_get, 'get_mut': v_get_mut,
    'extend': v_extend, 'extend_from_slice': v_extend, 'append': lambda i, v, a, p, h, t: (v.v.extend(_arg(a).v), _arg(a).v.clear(), ())[2],
    'drain': v_drain, 'split_first': v_split_first, 'split_last': v_split_last, 'windows': v_windows, 'chunks': v_chunks,
    'binary_search': v_binary_search, 'starts_with': v_starts_with, 'truncate': v_truncate, 'split_off': v_split_off,
    'to_vec': v_to_vec, 'to_owned': v_to_vec, 'clone': v_to_vec, 'into_vec': B.m_ident, 'as_slice': B.m_ident,
    'as_mut_slice': B.m_ident, 'into_boxed_slice': B.m_ident, 'as_ref': B.m_ident, 'into': B.m_ident,
    'capacity': lambda i, v, a, p, h, t: UIntC(len(v.v)), 'reserve': lambda i, v, a, p, h, t: (),
    'shrink_to_fit': lambda i, v, a, p, h, t: (), 'with_capacity': lambda i, v, a, p, h, t: (),
    'resize': v_resize,
    'eq': B.m_eq, 'ne': B.m_ne, 'cmp': B.m_cmp, 'hash': B.m_hash,
    # Punctuated
    'pairs': lambda i, v, a, p, h, t: I.from_list(v.v),
}


# ---- iterators ----------------------------------------------------------------------------------

def it_map(i, it, a, p, h, t):
    f = a[0]
    return I.gen((call(i, f, x) for x in it), it)


def it_filter(i, it, a, p, h, t):
    f = a[0]
    return I.gen((x for x in it if decide(deref(call(i, f, x)))), it)


def it_filter_map(i, it, a, p, h, t):
    f = a[0]

    def g():
        for x in it:
            r = deref(call(i, f, x))
            if r.var == 'Some':
                yield r.vals[0]
    return I.gen(g(), it)


def it_flat_map(i, it, a, p, h, t):
    f = a[0]

    def g():
        for x in it:
            for y in B.into_iter(i, call(i, f, x)):
                yield y
    return I.gen(g(), it)


def it_flatten(i, it, a, p, h, t):
    def g():
        for x in it:
            for y in B.into_iter(i, x):
                yield y
    return I.gen(g(), it)


def it_enumerate(i, it, a, p, h, t):
    def g():
        k = 0
        for x in it:
            yield (UIntC(k), x)
            k += 1
    return I.gen(g(), it)


def it_zip(i, it, a, p, h, t):
    o = B.into_iter(i, a[0])

    def g():
        for x in it:
            try:
                y = next(o)
            except StopIteration:
                return
            yield (x, y)
    return I.gen(g())


def it_chain(i, it, a, p, h, t):
    o = a[0]

    def g():
        for x in it:
            yield x
        for y in B.into_iter(i, o):
            yield y
    return I.gen(g())


def it_skip(i, it, a, p, h, t):
    n = _arg(a)

    def g():
        k = 0
        for x in it:
            if k >= n:
                yield x
            k += 1
    return I.gen(g())


def it_take(i, it, a, p, h, t):
    n = _arg(a)

    def g():
        if n == 0:
            return
        k = 0
        for x in it:
            yield x
            k += 1
            if k >= n:
                return
    return I.gen(g())


def it_take_while(i, it, a, p, h, t):
    f = a[0]

    def g():
        for x in it:
            if not decide(deref(call(i, f, x))):
                return
            yield x
    return I.gen(g())


def it_skip_while(i, it, a, p, h, t):
    f = a[0]

    def g():
        skipping = True
        for x in it:
            if skipping and decide(deref(call(i, f, x))):
                continue
            skipping = False
            yield x
    return I.gen(g())


def it_step_by(i, it, a, p, h, t):
    n = _arg(a)
    return I.gen((x for k, x in enumerate(it) if k % n == 0))


def it_rev(i, it, a, p, h, t):
    lst = list(it)
    lst.reverse()
    return I.from_list(lst)


def it_collect(i, it, a, p, hint, tf):
    target, targs = B.collect_target(i, hint, tf)
    if target is None or (target not in B.COLLECT_TARGETS and target not in i.prog.structs):
        # target not inferable locally: Vec is what the repository uses in every such place; recorded
        V.ENG.note('collect-target-defaulted')
        target, targs = 'Vec', []
    return B.collect_into(i, it, target, targs)


def it_any(i, it, a, p, h, t):
    for x in it:
        if decide(deref(call(i, a[0], x))):
            return True
    return False


def it_all(i, it, a, p, h, t):
    for x in it:
        if not decide(deref(call(i, a[0], x))):
            return False
    return True


def it_find(i, it, a, p, h, t):
    for x in it:
        if decide(deref(call(i, a[0], x))):
            return Some(x)
    return mk_none()


def it_find_map(i, it, a, p, h, t):
    for x in it:
        r = deref(call(i, a[0], x))
        if r.var == 'Some':
            return r
    return mk_none()


def it_position(i, it, a, p, h, t):
    k = 0
    for x in it:
        if decide(deref(call(i, a[0], x))):
            return Some(UIntC(k))
        k += 1
    return mk_none()


def it_count(i, it, a, p, h, t):
    it.canonical()
    return UIntC(sum(1 for _ in it))


def it_last(i, it, a, p, h, t):
    last = None
    got = False
    for x in it:
        last = x
        got = True
    return Some(last) if got else mk_none()


def it_nth(i, it, a, p, h, t):
    n = _arg(a)
    for k, x in enumerate(it):
        if k == n:
            return Some(x)
    return mk_none()


def it_fold(i, it, a, p, h, t):
    acc = a[0]
    for x in it:
        acc = call(i, a[1], acc, x)
    return acc


def it_reduce(i, it, a, p, h, t):
    acc = None
    first = True
    for x in it:
        if first:
            acc, first = x, False
        else:
            acc = call(i, a[0], acc, x)
    return mk_none() if first else Some(acc)


def it_for_each(i, it, a, p, h, t):
    for x in it:
        call(i, a[0], x)
    return ()


def it_sum(i, it, a, p, h, t):
    it.canonical()
    acc = None
    for x in it:
        x = deref(x)
        acc = x if acc is None else i.binop('Add', acc, x)
    return acc if acc is not None else UIntC(0)


def it_max_min(which):
    def f(i, it, a, p, h, t):
        it.canonical()
        best = None
        for x in it:
            if best is None:
                best = x
                continue
            c = B.value_cmp(i, x, best)
            if (which == 'max' and c >= 0) or (which == 'min' and c < 0):
                best = x
        return Some(best) if best is not None else mk_none()
    return f


def it_max_min_by_key(which):
    def f(i, it, a, p, h, t):
        best = None
        bk = None
        for x in it:
            k = call(i, a[0], x)
            if best is None:
                best, bk = x, k
                continue
            c = B.value_cmp(i, k, bk)
            if (which == 'max' and c >= 0) or (which == 'min' and c < 0):
                best, bk = x, k
        return Some(best) if best is not None else mk_none()
    return f


def it_max_min_by(which):
    def f(i, it, a, p, h, t):
        best = None
        for x in it:
            if best is None:
                best = x
                continue
            c = {'Less': -1, 'Equal': 0, 'Greater': 1}[deref(call(i, a[0], x, best)).var]
            if (which == 'max' and c >= 0) or (which == 'min' and c < 0):
                best = x
        return Some(best) if best is not None else mk_none()
    return f


def it_cloned(i, it, a, p, h, t):
    return I.gen((deep_clone(x) for x in it), it)


def it_peekable(i, it, a, p, h, t):
    return it


def it_partition(i, it, a, p, h, t):
    yes, no = [], []
    for x in it:
        (yes if decide(deref(call(i, a[0], x))) else no).append(x)
    return (Vec(yes), Vec(no))


def it_unzip(i, it, a, p, h, t):
    xs, ys = [], []
    for x in it:
        x = deref(x)
        xs.append(x[0])
        ys.append(x[1])
    return (Vec(xs), Vec(ys))


def it_inspect(i, it, a, p, h, t):
    def g():
        for x in it:
            call(i, a[0], x)
            yield x
    return I.gen(g(), it)


def it_map_while(i, it, a, p, h, t):
    def g():
        for x in it:
            r = deref(call(i, a[0], x))
            if r.var == 'None':
                return
            yield r.vals[0]
    return I.gen(g())


def it_next_if(i, it, a, p, h, t):
    pk = it.peek()
    if pk.var == 'Some' and decide(deref(call(i, a[0], pk.vals[0]))):
        return it.next_opt()
    return mk_none()


def it_next_if_eq(i, it, a, p, h, t):
    pk = it.peek()
    if pk.var == 'Some' and decide(sym_eq(pk.vals[0], _arg(a))):
        return it.next_opt()
    return mk_none()


def it_join(i, it, a, p, h, t):
    return B.VEC_METHODS['join'](i, Vec([B.F.display(i, x) for x in it]), a, p, h, t)


def it_as_str(i, it, a, p, h, t):
    # Chars::as_str: remaining text
    out = []
    rest = list(it)
    it.peeked = rest
    for x in rest:
        out.append(deref(x).c)
    return Str(tuple(out))


def it_try_fold(i, it, a, p, h, t):
    acc = a[0]
    for x in it:
        r = deref(call(i, a[1], acc, x))
        if r.var in ('Err', 'None'):
            return r
        acc = r.vals[0]
    return Ok(acc)


def it_sorted(i, it, a, p, h, t):
    lst = list(it.canonical())
    lst.sort(key=cmp_key(i))
    return I.from_list(lst)


def it_eq(i, it, a, p, h, t):
    x = list(it)
    y = list(B.into_iter(i, a[0]))
    return sym_eq(x, y)


def it_last_back(i, it, a, p, h, t):
    lst = list(it)
    if not lst:
        return mk_none()
    x = lst.pop()
    it.peeked = lst
    return Some(x)


B.ITER_METHODS = {
    'next': lambda i, it, a, p, h, t: it.next_opt(),
    'next_back': it_last_back,
    'peek': lambda i, it, a, p, h, t: it.peek(),
    'iter': B.m_ident, 'into_iter': B.m_ident, 'by_ref': B.m_ident, 'peekable': it_peekable, 'fuse': B.m_ident,
    'map': it_map, 'filter': it_filter, 'filter_map': it_filter_map, 'flat_map': it_flat_map, 'flatten': it_flatten,
    'enumerate': it_enumerate, 'zip': it_zip, 'chain': it_chain, 'skip': it_skip, 'take': it_take,
    'take_while': it_take_while, 'skip_while': it_skip_while, 'step_by': it_step_by, 'rev': it_rev,
    'collect': it_collect, 'any': it_any, 'all': it_all, 'find': it_find, 'find_map': it_find_map,
    'position': it_position, 'count': it_count, 'last': it_last, 'nth': it_nth, 'fold': it_fold, 'reduce': it_reduce,
    'for_each': it_for_each, 'sum': it_sum, 'max': it_max_min('max'), 'min': it_max_min('min'),
    'max_by_key': it_max_min_by_key('max'), 'min_by_key': it_max_min_by_key('min'),
    'max_by': it_max_min_by('max'), 'min_by': it_max_min_by('min'),
    'cloned': it_cloned, 'copied': it_cloned, 'partition': it_partition, 'unzip': it_unzip,
    'inspect': it_inspect, 'map_while': it_map_while, 'next_if': it_next_if, 'next_if_eq': it_next_if_eq,
    'join': it_join, 'as_str': it_as_str, 'try_fold': it_try_fold, 'sorted': it_sorted, 'eq': it_eq,
    'len': it_count, 'size_hint': lambda i, it, a, p, h, t: (UIntC(0), mk_none()),
}


# ---- HashMap / BTreeMap -----------------------------------------------------------------------

def m_insert(i, m, a, p, h, t):
    k, x = B._detach(a[0]), B._detach(a[1])
    idx = m.find(k)
    if idx >= 0:
        old = m.items[idx][1]
        m.items[idx][1] = x
        return Some(old)
    m.items.append([k, x])
    return mk_none()


def m_get(i, m, a, p, h, t):
    idx = m.find(_arg(a))
    if idx < 0:
        return mk_none()
    return Some(m.items[idx][1])


def m_get_mut(i, m, a, p, h, t):
    idx = m.find(_arg(a))
    if idx < 0:
        return mk_none()
    return Some(B._pair_slot(m.items[idx]))


def m_contains_key(i, m, a, p, h, t):
    k = _arg(a)
    return z_or(*[sym_eq(kv[0], k) for kv in m.items])


def m_remove(i, m, a, p, h, t):
    idx = m.find(_arg(a))
    if idx < 0:
        return mk_none()
    return Some(m.items.pop(idx)[1])


def m_entry(i, m, a, p, h, t):
    k = B._detach(a[0])
    idx = m.find(k)
    return Struct('Entry', {'map': m, 'key': k, 'idx': idx})


def map_iter(i, m, what):
    if m.ordered:
        items = B.sorted_pairs(i, m.items)
        if what == 'keys':
            return I.from_list([kv[0] for kv in items])
        if what == 'values':
            return I.from_list([B._pair_slot(kv) for kv in items])
        return I.from_list([(kv[0], B._pair_slot(kv)) for kv in items])
    if what == 'keys':
        return I.unordered([kv[0] for kv in m.items])
    if what == 'values':
        return I.unordered([B._pair_slot(kv) for kv in m.items])
    return I.unordered([(kv[0], B._pair_slot(kv)) for kv in m.items])


def m_extend(i, m, a, p, h, t):
    it = B.into_iter(i, a[0])
    it.canonical()
    for kv in it:
        kv = deref(kv)
        m_insert(i, m, [kv[0], kv[1]], None, None, None)
    return ()


def m_retain(i, m, a, p, h, t):
    m.items[:] = [kv for kv in m.items if decide(deref(call(i, a[0], kv[0], B._pair_slot(kv))))]
    return ()


def m_first(i, m, a, p, h, t):
    if not m.items:
        return mk_none()
    kv = B.sorted_pairs(i, m.items)[0]
    return Some((kv[0], kv[1]))


B.MAP_METHODS = {
    'insert': m_insert, 'get': m_get, 'get_mut': m_get_mut, 'contains_key': m_contains_key, 'remove': m_remove,
    'entry': m_entry, 'len': lambda i, m, a, p, h, t: UIntC(len(m.items)),
    'is_empty': lambda i, m, a, p, h, t: len(m.items) == 0,
    'iter': lambda i, m, a, p, h, t: map_iter(i, m, 'pairs'),
    'iter_mut': lambda i, m, a, p, h, t: map_iter(i, m, 'pairs'),
    'into_iter': lambda i, m, a, p, h, t: map_iter(i, m, 'pairs'),
    'drain': lambda i, m, a, p, h, t: (lambda it: (m.items.clear(), it)[1])(I.unordered([(kv[0], kv[1]) for kv in m.items])),
    'keys': lambda i, m, a, p, h, t: map_iter(i, m, 'keys'),
    'into_keys': lambda i, m, a, p, h, t: map_iter(i, m, 'keys'),
    'values': lambda i, m, a, p, h, t: map_iter(i, m, 'values'),
    'values_mut': lambda i, m, a, p, h, t: map_iter(i, m, 'values'),
    'into_values': lambda i, m, a, p, h, t: map_iter(i, m, 'values'),
    'clear': lambda i, m, a, p, h, t: m.items.clear() or (),
    'extend': m_extend, 'retain': m_retain, 'clone': B.m_clone, 'first_key_value': m_first,
    'eq': B.m_eq, 'ne': B.m_ne, 'reserve': lambda i, m, a, p, h, t: (),
}


def _empty_like(v):
    if isinstance(v, HSet):
        return HSet([], v.ordered)
    if isinstance(v, Vec):
        return Vec([])
    if isinstance(v, HMap):
        return HMap([], v.ordered)
    if isinstance(v, Str):
        return Str('')
    if isinstance(v, bool):
        return False
    if isinstance(v, int):
        return type(v)(0)
    raise Inconclusive('entry().or_default() without type context')


class EntryModel:
    @staticmethod
    def call_method(i, e, name, a, p, h, t, ctx):
        m, k, idx = e.f['map'], e.f['key'], e.f['idx']
        if name in ('or_insert', 'or_insert_with', 'or_default', 'or_insert_with_key'):
            if idx < 0:
                if name == 'or_insert':
                    x = B._detach(a[0])
                elif name == 'or_insert_with':
                    x = call(i, a[0])
                elif name == 'or_insert_with_key':
                    x = call(i, a[0], k)
                else:
                    vt = getattr(m, 'vty', None)
                    if h is not None:
                        x = i.default_of_type(B.Interp_strip_ref(h))
                    elif vt is not None:
                        x = i.default_of_type(vt)
                    elif m.items:
                        x = _empty_like(deref(m.items[0][1]))
                    else:
                        raise Inconclusive('entry().or_default() without type context')
                m.items.append([k, x])
                idx = len(m.items) - 1
                e.f['idx'] = idx
            return B._pair_slot(m.items[idx])
        if name == 'and_modify':
            if idx >= 0:
                call(i, a[0], B._pair_slot(m.items[idx]))
            return e
        if name == 'key':
            return k
        return NotImplemented


B.EXT_STRUCT_MODELS['Entry'] = EntryModel


def _strip_ref(hint):
    if hint is not None and hint['_'] == 'Type::Reference':
        return hint['elem']
    return hint


B.Interp_strip_ref = _strip_ref


# ---- HashSet / BTreeSet -----------------------------------------------------------------------

def hs_insert(i, s, a, p, h, t):
    x = B._detach(a[0])
    if s.find(x) >= 0:
        return False
    s.items.append(x)
    return True


def hs_contains(i, s, a, p, h, t):
    x = _arg(a)
    return z_or(*[sym_eq(y, x) for y in s.items])


def hs_remove(i, s, a, p, h, t):
    idx = s.find(_arg(a))
    if idx < 0:
        return False
    s.items.pop(idx)
    return True


def hs_iter(i, s, a, p, h, t):
    if s.ordered:
        return I.from_list(B.sorted_values(i, s.items))
    return I.unordered(s.items)


def hs_extend(i, s, a, p, h, t):
    it = B.into_iter(i, a[0])
    it.canonical()
    for x in it:
        hs_insert(i, s, [x], None, None, None)
    return ()


def hs_setop(op):
    def f(i, s, a, p, h, t):
        o = _arg(a)
        if op == 'union':
            out = list(s.items) + [x for x in o.items if s.find(x) < 0]
        elif op == 'intersection':
            out = [x for x in s.items if o.find(x) >= 0]
        else:
            out = [x for x in s.items if o.find(x) < 0]
        return I.unordered(out) if not s.ordered else I.from_list(B.sorted_values(i, out))
    return f


def hs_is_subset(i, s, a, p, h, t):
    o = _arg(a)
    return z_and(*[z_or(*[sym_eq(x, y) for y in o.items]) for x in s.items])


B.SET_METHODS = {
    'insert': hs_insert, 'contains': hs_contains, 'remove': hs_remove, 'iter': hs_iter, 'into_iter': hs_iter,
    'drain': lambda i, s, a, p, h, t: (lambda it: (s.items.clear(), it)[1])(I.unordered(list(s.items))),
    'len': lambda i, s, a, p, h, t: UIntC(len(s.items)),
    'is_empty': lambda i, s, a, p, h, t: len(s.items) == 0,
    'extend': hs_extend, 'clear': lambda i, s, a, p, h, t: s.items.clear() or (),
    'union': hs_setop('union'), 'intersection': hs_setop('intersection'), 'difference': hs_setop('difference'),
    'is_subset': hs_is_subset, 'clone': B.m_clone, 'eq': B.m_eq, 'ne': B.m_ne,
    'get': lambda i, s, a, p, h, t: (lambda idx: Some(s.items[idx]) if idx >= 0 else mk_none())(s.find(_arg(a))),
    'take': lambda i, s, a, p, h, t: (lambda idx: Some(s.items.pop(idx)) if idx >= 0 else mk_none())(s.find(_arg(a))),
    'retain': lambda i, s, a, p, h, t: s.items.__setitem__(slice(None), [x for x in s.items if decide(deref(call(i, a[0], x)))]) or (),
    'reserve': lambda i, s, a, p, h, t: (),
    'first': lambda i, s, a, p, h, t: Some(B.sorted_values(i, s.items)[0]) if s.items else mk_none(),
}
