"""rsx.strops -- semantics of Rust str operations over Str values with symbolic characters.

Operations whose *shape* of result depends on symbolic characters (find, split, trim, replace ...)
fork through Engine.decide, position by position, exactly in the order the std implementation
would discover the answer (first match wins).
"""
import z3
from . import values as V
from .values import Str, Ch, Opaque, Closure, FnRef, PyFn, char_eq, starts_with_at, char_class, Some, mk_none
from .engine import RustPanic, Inconclusive, is_sym, z_and, z_or, z_not


def decide(c):
    return V.ENG.decide(c)


class Pattern:
    """a str::pattern::Pattern: char, &str, closure over char, or slice of chars"""

    def __init__(self, interp, p):
        p = V.deref(p)
        self.interp = interp
        self.p = p
        if isinstance(p, Ch):
            self.kind = 'char'
            self.n = 1
        elif isinstance(p, Str):
            self.kind = 'str'
            self.n = len(p.cs)
        elif isinstance(p, (Closure, FnRef, PyFn)):
            self.kind = 'fn'
            self.n = 1
        elif isinstance(p, V.Vec):
            self.kind = 'chars'
            self.n = 1
        else:
            raise Inconclusive('unsupported string pattern %r' % (p,))

    def match_at(self, s, i):
        """condition that pattern matches s at char index i"""
        if self.kind == 'str':
            return starts_with_at(s, self.p, i)
        if i >= len(s.cs):
            return False
        c = s.cs[i]
        if isinstance(c, Opaque):
            raise Inconclusive('pattern match on opaque text')
        if self.kind == 'char':
            return char_eq(c, self.p.c)
        if self.kind == 'chars':
            return z_or(*[char_eq(c, V.deref(x).c) for x in self.p.v])
        return V.deref(self.interp.call_value(self.p, [Ch(c)]))


def s_find(interp, s, pat, reverse=False):
    p = Pattern(interp, pat)
    n = len(s.cs)
    if p.kind == 'str' and p.n == 0:
        return Some(_u(interp, s.blen() if reverse else 0))
    rng = range(n - p.n, -1, -1) if reverse else range(0, n - p.n + 1)
    for i in rng:
        if decide(p.match_at(s, i)):
            return Some(_u(interp, s.offs()[i]))
    return mk_none()


def _u(interp, n):
    from .interp import UInt
    return UInt(n)


def s_contains(interp, s, pat):
    p = Pattern(interp, pat)
    n = len(s.cs)
    if p.kind == 'str' and p.n == 0:
        return True
    if p.kind == 'fn':
        for i in range(n):
            if decide(p.match_at(s, i)):
                return True
        return False
    return z_or(*[p.match_at(s, i) for i in range(0, n - p.n + 1)])


def s_starts_with(interp, s, pat):
    p = Pattern(interp, pat)
    if p.kind == 'str':
        return starts_with_at(s, p.p, 0)
    if not s.cs:
        return False
    return p.match_at(s, 0)


def s_ends_with(interp, s, pat):
    p = Pattern(interp, pat)
    if p.kind == 'str':
        if p.n > len(s.cs):
            return False
        return starts_with_at(s, p.p, len(s.cs) - p.n)
    if not s.cs:
        return False
    return p.match_at(s, len(s.cs) - 1)


def s_strip_prefix(interp, s, pat):
    p = Pattern(interp, pat)
    if decide(s_starts_with(interp, s, pat)):
        return Some(Str(s.cs[p.n:]))
    return mk_none()


def s_strip_suffix(interp, s, pat):
    p = Pattern(interp, pat)
    if decide(s_ends_with(interp, s, pat)):
        return Some(Str(s.cs[:len(s.cs) - p.n]))
    return mk_none()


def _is_ws(c):
    if isinstance(c, Opaque):
        return False
    return char_class(c, 'ws')


def s_trim(interp, s, start=True, end=True):
    cs = s.cs
    a, b = 0, len(cs)
    if start:
        while a < b and decide(_is_ws(cs[a])):
            a += 1
    if end:
        while b > a and decide(_is_ws(cs[b - 1])):
            b -= 1
    return Str(cs[a:b])


def s_trim_matches(interp, s, pat, start=True, end=True):
    p = Pattern(interp, pat)
    cs = s.cs
    a, b = 0, len(cs)
    if p.kind == 'str' and p.n == 0:
        return s
    if start:
        while a + p.n <= b and decide(p.match_at(s, a)):
            a += p.n
    if end:
        while b - p.n >= a and decide(p.match_at(s, b - p.n)):
            b -= p.n
    return Str(cs[a:b])


def s_split(interp, s, pat, limit=None, reverse=False, inclusive=False, terminator=False):
    """list of Str pieces"""
    p = Pattern(interp, pat)
    if p.kind == 'str' and p.n == 0:
        raise Inconclusive('split on empty pattern')
    cs = s.cs
    n = len(cs)
    out = []
    if not reverse:
        start = 0
        i = 0
        while i + p.n <= n:
            if limit is not None and len(out) >= limit - 1:
                break
            if decide(p.match_at(s, i)):
                out.append(Str(cs[start:i + (p.n if inclusive else 0)]))
                i += p.n
                start = i
            else:
                i += 1
        out.append(Str(cs[start:]))
        if (terminator or inclusive) and out and len(out[-1].cs) == 0:
            out.pop()
        return out
    end = n
    i = n - p.n
    while i >= 0:
        if limit is not None and len(out) >= limit - 1:
            break
        if decide(p.match_at(s, i)):
            out.append(Str(cs[i + p.n:end]))
            end = i
            i -= p.n
        else:
            i -= 1
    out.append(Str(cs[:end]))
    return out


def s_split_once(interp, s, pat, reverse=False):
    p = Pattern(interp, pat)
    n = len(s.cs)
    rng = range(n - p.n, -1, -1) if reverse else range(0, n - p.n + 1)
    for i in rng:
        if decide(p.match_at(s, i)):
            return Some((Str(s.cs[:i]), Str(s.cs[i + p.n:])))
    return mk_none()


def s_split_whitespace(interp, s):
    out = []
    cur = []
    for c in s.cs:
        if decide(_is_ws(c)):
            if cur:
                out.append(Str(tuple(cur)))
                cur = []
        else:
            cur.append(c)
    if cur:
        out.append(Str(tuple(cur)))
    return out


def s_lines(interp, s):
    out = []
    cur = []
    cs = s.cs
    for c in cs:
        if decide(char_eq(c, 10)):
            if cur and decide(char_eq(cur[-1], 13)):
                cur.pop()
            out.append(Str(tuple(cur)))
            cur = []
        else:
            cur.append(c)
    if cur:
        out.append(Str(tuple(cur)))
    return out


def s_replace(interp, s, pat, to, count=None):
    p = Pattern(interp, pat)
    to = V.deref(to)
    if p.kind == 'str' and p.n == 0:
        raise Inconclusive('replace of empty pattern')
    cs = s.cs
    n = len(cs)
    out = []
    i = 0
    done = 0
    while i < n:
        if (count is None or done < count) and i + p.n <= n and decide(p.match_at(s, i)):
            out.extend(to.cs)
            i += p.n
            done += 1
        else:
            out.append(cs[i])
            i += 1
    return Str(tuple(out))


def s_matches_count(interp, s, pat):
    p = Pattern(interp, pat)
    n = len(s.cs)
    i = 0
    k = 0
    while i + p.n <= n:
        if decide(p.match_at(s, i)):
            k += 1
            i += p.n
        else:
            i += 1
    return k


def s_map_chars(s, f):
    return Str(tuple(f(c) if not isinstance(c, Opaque) else c for c in s.cs))


def s_unicode_case(s, which):
    out = []
    for c in s.cs:
        if isinstance(c, Opaque):
            out.append(c)
        else:
            out.extend(V.unicode_case(c, which))
    return Str(tuple(out))


def s_repeat(s, n):
    return Str(s.cs * int(n))


def parse_uint(interp, s, bits=64):
    """str::parse::<uN>() -> Result value; symbolic digits fork on digit-ness only"""
    from .interp import UInt
    cs = list(s.cs)
    if not cs:
        return V.Err(V.Struct('ParseIntError', {'kind': Str('Empty')}))
    if any(isinstance(c, Opaque) for c in cs):
        raise Inconclusive('parse of opaque text')
    if decide(char_eq(cs[0], ord('+'))):
        cs = cs[1:]
        if not cs:
            return V.Err(V.Struct('ParseIntError', {'kind': Str('InvalidDigit')}))
    val = 0
    for c in cs:
        if not decide(z_and(c >= 48, c <= 57) if is_sym(c) else (48 <= c <= 57)):
            return V.Err(V.Struct('ParseIntError', {'kind': Str('InvalidDigit')}))
        val = val * 10 + (c - 48)
    lim = (1 << bits) - 1
    if is_sym(val):
        val = z3.simplify(val)
        if decide(val > lim):
            return V.Err(V.Struct('ParseIntError', {'kind': Str('PosOverflow')}))
        return V.Ok(val)
    if val > lim:
        return V.Err(V.Struct('ParseIntError', {'kind': Str('PosOverflow')}))
    return V.Ok(UInt(val))


def parse_int(interp, s, bits=64):
    cs = list(s.cs)
    neg = False
    if cs and decide(char_eq(cs[0], ord('-'))):
        neg = True
        cs = cs[1:]
        if not cs:
            return V.Err(V.Struct('ParseIntError', {'kind': Str('InvalidDigit')}))
    r = parse_uint(interp, Str(tuple(cs)), bits - 1 if not neg else bits)
    if r.var == 'Err':
        return r
    v = r.vals[0]
    if neg:
        if not is_sym(v) and int(v) > (1 << (bits - 1)):
            return V.Err(V.Struct('ParseIntError', {'kind': Str('NegOverflow')}))
        return V.Ok(-int(v) if not is_sym(v) else -v)
    return V.Ok(int(v) if not is_sym(v) else v)


def float_grammar_ok(interp, s):
    """does text match Rust's f64::from_str grammar?  (decides on symbolic chars)
    Number ::= [sign] ( 'inf' | 'infinity' | 'nan' | Digit* '.' Digit* [Exp] | Digit+ [Exp] )"""
    cs = list(s.cs)
    if any(isinstance(c, Opaque) for c in cs):
        raise Inconclusive('parse::<f64> of opaque text')
    i = 0
    n = len(cs)
    if n == 0:
        return False

    def isd(c):
        return decide(z_and(c >= 48, c <= 57) if is_sym(c) else (48 <= c <= 57))

    def is_ch(c, *alts):
        return decide(z_or(*[char_eq(c, ord(a)) for a in alts]))
    if is_ch(cs[0], '+', '-'):
        i = 1
        if i == n:
            return False
    # special values (case-insensitive)
    rest = cs[i:]
    for word in ('inf', 'infinity', 'nan'):
        if len(rest) == len(word):
            if decide(z_and(*[z_or(char_eq(c, ord(w)), char_eq(c, ord(w.upper()))) for c, w in zip(rest, word)])):
                return True
    nd = 0
    while i < n and isd(cs[i]):
        i += 1
        nd += 1
    if i < n and is_ch(cs[i], '.'):
        i += 1
        while i < n and isd(cs[i]):
            i += 1
            nd += 1
    if nd == 0:
        return False
    if i < n and is_ch(cs[i], 'e', 'E'):
        i += 1
        if i < n and is_ch(cs[i], '+', '-'):
            i += 1
        ne = 0
        while i < n and isd(cs[i]):
            i += 1
            ne += 1
        if ne == 0:
            return False
    return i == n


def parse_float(interp, s):
    ok = float_grammar_ok(interp, s)
    if not ok:
        return V.Err(V.Struct('ParseFloatError', {}))
    py = s.py()
    if py is not None:
        try:
            return V.Ok(V.Float(float(py), py))
        except ValueError:
            return V.Err(V.Struct('ParseFloatError', {}))
    return V.Ok(V.Float(None, s))


def debug_escape(interp, s):
    """{:?} of a str: quotes and escape_debug of each char"""
    out = [ord('"')]
    for c in s.cs:
        if isinstance(c, Opaque):
            out.append(c)
            continue
        out.extend(debug_escape_char(c, in_str=True))
    out.append(ord('"'))
    return Str(tuple(out))


def debug_escape_char(c, in_str):
    if not is_sym(c):
        if c == 34 and in_str:
            return [92, 34]
        if c == 39 and not in_str:
            return [92, 39]
        if c == 92:
            return [92, 92]
        if c == 10:
            return [92, ord('n')]
        if c == 13:
            return [92, ord('r')]
        if c == 9:
            return [92, ord('t')]
        if c == 0:
            return [92, ord('0')]
        if c < 32 or c == 127:
            return [ord(x) for x in '\\u{%x}' % c]
        return [c]
    if decide(c == (34 if in_str else 39)):
        return [92, 34 if in_str else 39]
    if decide(c == 92):
        return [92, 92]
    if decide(c == 10):
        return [92, ord('n')]
    if decide(c == 13):
        return [92, ord('r')]
    if decide(c == 9):
        return [92, ord('t')]
    if V.cwidth(c) == 1 and decide(z_or(c < 32, c == 127)):
        raise Inconclusive('debug formatting of symbolic control character')
    return [c]
