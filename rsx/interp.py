"""rsx.interp -- interpreter for the Rust subset used by the repository, over astdump JSON.

The interpreter executes function bodies exactly as dumped from the current sources; nothing about
the repository's logic is hard-coded here.  Library semantics live in rsx.builtins / rsx.models.*.
"""
import hashlib
import json
import os
import subprocess
import sys

import z3

from . import engine as E
from . import values as V
from .engine import RustPanic, Inconclusive, is_sym, z_and, z_or, z_not
from .values import (Str, Ch, Struct, Enum, Vec, HMap, HSet, Ref, Closure, FnRef, PyFn, TypeVal, Float,
                     Some, Ok, Err, mk_none, deref, deep_clone, sym_eq)

sys.setrecursionlimit(20000)

ASTDUMP = os.path.join(os.path.dirname(os.path.dirname(os.path.abspath(__file__))), '.cache', 'astdump', 'debug', 'astdump')


class ReturnEx(Exception):
    def __init__(self, v):
        self.v = v


class BreakEx(Exception):
    def __init__(self, label, v):
        self.label = label
        self.v = v


class ContinueEx(Exception):
    def __init__(self, label):
        self.label = label


class UInt(int):
    """unsigned machine integer (usize/u64/...): subtraction below zero panics (debug profile)"""
    __slots__ = ()

    def __add__(self, o):
        if is_sym(o):
            return int(self) + o
        return UInt(int(self) + int(o))
    __radd__ = __add__

    def __sub__(self, o):
        if is_sym(o):
            return int(self) - o
        r = int(self) - int(o)
        if r < 0:
            raise RustPanic('attempt to subtract with overflow')
        return UInt(r)

    def __rsub__(self, o):
        if is_sym(o):
            return o - int(self)
        r = int(o) - int(self)
        if r < 0:
            raise RustPanic('attempt to subtract with overflow')
        return UInt(r)

    def __mul__(self, o):
        if is_sym(o):
            return int(self) * o
        if not isinstance(o, int):
            return NotImplemented
        return UInt(int(self) * int(o))
    __rmul__ = __mul__


UNSIGNED = {'usize', 'u8', 'u16', 'u32', 'u64', 'u128'}
SIGNED = {'isize', 'i8', 'i16', 'i32', 'i64', 'i128'}
INT_TYPES = UNSIGNED | SIGNED


# ------------------------------------------------------------------------------------------------
# front end
# ------------------------------------------------------------------------------------------------

def run_astdump(paths):
    out = subprocess.run([ASTDUMP, 'file'] + list(paths), stdout=subprocess.PIPE, check=True).stdout
    res = {}
    for line in out.decode('utf-8').splitlines():
        d = json.loads(line)
        if 'err' in d:
            raise Inconclusive('astdump failed on %s: %s' % (d['path'], d['err']))
        res[d['path']] = d['ast']
    return res


class AstServer:
    """persistent astdump process for parsing snippets"""
    _inst = None

    def __init__(self):
        self.p = subprocess.Popen([ASTDUMP, 'serve'], stdin=subprocess.PIPE, stdout=subprocess.PIPE)
        self.cache = {}

    @classmethod
    def get(cls):
        if cls._inst is None:
            cls._inst = AstServer()
        return cls._inst

    def parse(self, kind, src):
        key = (kind, src)
        if key in self.cache:
            return self.cache[key]
        self.p.stdin.write((json.dumps({'kind': kind, 'src': src}) + '\n').encode())
        self.p.stdin.flush()
        line = self.p.stdout.readline()
        d = json.loads(line)
        if 'err' in d:
            raise ValueError('astdump %s: %s\n%s' % (kind, d['err'], src))
        self.cache[key] = d['ok']
        return d['ok']


def path_segments(path_node):
    return [s['ident']['sym'] for s in path_node['segments']]


def type_head(t):
    """(name, [arg type nodes]) of a syn Type node; name None if unknown"""
    if t is None:
        return (None, [])
    k = t['_']
    if k == 'Type::Path':
        seg = t['path']['segments'][-1]
        name = seg['ident']['sym']
        args = []
        a = seg['arguments']
        if a['_'] == 'PathArguments::AngleBracketed':
            for g in a['args']:
                if g['_'] == 'GenericArgument::Type':
                    args.append(g['0'])
        return (name, args)
    if k == 'Type::Reference':
        return type_head(t['elem'])
    if k == 'Type::Paren' or k == 'Type::Group':
        return type_head(t['elem'])
    if k == 'Type::Tuple':
        return ('()', list(t['elems']))
    if k == 'Type::Slice':
        return ('[]', [t['elem']])
    if k == 'Type::Array':
        return ('[]', [t['elem']])
    if k == 'Type::Infer':
        return (None, [])
    return (None, [])


class FnDef:
    __slots__ = ('name', 'params', 'ret', 'body', 'has_self', 'self_mut', 'file', 'span', 'owner', 'trait',
                 'module', 'sig', 'generics', 'crate', 'attrs')

    def __repr__(self):
        return 'fn %s::%s' % (self.owner or '/'.join(self.module), self.name)

    def qualname(self):
        if self.owner:
            return '%s::%s' % (self.owner, self.name)
        return '::'.join(self.module + [self.name])


class Program:
    """index of dumped source files"""

    def __init__(self):
        self.files = {}          # path -> ast
        self.free_fns = {}       # name -> [FnDef]
        self.methods = {}        # (type, name) -> FnDef   (inherent and trait impls)
        self.trait_defaults = {}  # (trait, name) -> FnDef
        self.trait_methods = {}  # trait -> set of method names
        self.type_traits = {}    # type -> [trait]
        self.structs = {}        # name -> struct item node
        self.enums = {}          # name -> enum item node
        self.consts = {}         # name -> expr node
        self.aliases = {}        # type alias name -> type node
        self.sources = {}        # path -> source bytes
        self.used = {}           # FnDef.qualname -> FnDef actually executed (for evidence)
        self.stubs = {}          # qualname -> python callable(interp, args) overriding a fn
        self.derives = {}        # type -> set(derive names)
        self.file_globs = {}     # file path -> {variant name: enum name}  (use Enum::*)

    def load(self, paths, root=None, crate='crate'):
        asts = run_astdump(paths)
        for p in paths:
            ast = asts[p]
            self.files[p] = ast
            with open(p, 'rb') as f:
                self.sources[p] = f.read()
            rel = os.path.relpath(p, root) if root else os.path.basename(p)
            mod = [crate] + [x for x in rel[:-3].split(os.sep) if x not in ('mod', 'lib', 'src')]
            self._index_items(ast['items'], mod, p, crate)
        for p in paths:
            self._index_globs(self.files[p]['items'], p)

    def _index_items(self, items, mod, path, crate):
        for it in items:
            k = it['_']
            if k == 'Item::Fn':
                fd = self._mkfn(it, mod, path, None, None, crate)
                self.free_fns.setdefault(fd.name, []).append(fd)
            elif k == 'Item::Impl':
                ty, _ = type_head(it['self_ty'])
                tr = None
                if it['trait_']['_'] == 'Some':
                    tr = it['trait_']['0']['1']['segments'][-1]['ident']['sym']
                    self.type_traits.setdefault(ty, []).append(tr)
                for sub in it['items']:
                    if sub['_'] == 'ImplItem::Fn':
                        fd = self._mkfn(sub, mod, path, ty, tr, crate)
                        # trait impls do not override inherent methods of the same name
                        if (ty, fd.name) not in self.methods or tr is None:
                            self.methods[(ty, fd.name)] = fd
                        if tr is not None:
                            self.methods[(ty, tr, fd.name)] = fd
                    elif sub['_'] == 'ImplItem::Const':
                        self.consts[(ty, sub['ident']['sym'])] = sub['expr']
            elif k == 'Item::Trait':
                tn = it['ident']['sym']
                names = set()
                for sub in it['items']:
                    if sub['_'] == 'TraitItem::Fn':
                        names.add(sub['sig']['ident']['sym'])
                        if sub['default']['_'] == 'Some':
                            fd = self._mkfn(sub, mod, path, None, tn, crate, body=sub['default']['0'])
                            self.trait_defaults[(tn, fd.name)] = fd
                self.trait_methods[tn] = names
            elif k == 'Item::Struct':
                self.structs[it['ident']['sym']] = it
                self.derives[it['ident']['sym']] = self._derives(it['attrs'])
            elif k == 'Item::Enum':
                self.enums[it['ident']['sym']] = it
                self.derives[it['ident']['sym']] = self._derives(it['attrs'])
            elif k == 'Item::Const' or k == 'Item::Static':
                self.consts[it['ident']['sym']] = it['expr']
            elif k == 'Item::Type':
                self.aliases[it['ident']['sym']] = it['ty']
            elif k == 'Item::Mod':
                if it['content']['_'] == 'Some':
                    self._index_items(it['content']['0']['1'], mod + [it['ident']['sym']], path, crate)

    def _index_globs(self, items, path):
        def walk(tree, prefix):
            k = tree['_']
            inner = tree.get('0', tree)
            if k == 'UseTree::Path':
                walk(inner['tree'], prefix + [inner['ident']['sym']])
            elif k == 'UseTree::Group':
                for t in inner['items']:
                    walk(t, prefix)
            elif k == 'UseTree::Glob':
                if prefix and prefix[-1] in self.enums:
                    en = self.enums[prefix[-1]]
                    d = self.file_globs.setdefault(path, {})
                    for v in en['variants']:
                        d[v['ident']['sym']] = prefix[-1]
        for it in items:
            if it['_'] == 'Item::Use':
                walk(it['tree'], [])

    @staticmethod
    def _derives(attrs):
        out = set()
        for a in attrs:
            m = a['meta']
            if m['_'] == 'Meta::List' and path_segments(m['path']) == ['derive']:
                for t in m['tokens']['items']:
                    if t['_'] == 'Ident':
                        out.add(t['sym'])
        return out

    def _mkfn(self, it, mod, path, owner, trait, crate, body=None):
        fd = FnDef()
        sig = it['sig']
        fd.sig = sig
        fd.name = sig['ident']['sym']
        fd.params = []
        fd.has_self = False
        fd.self_mut = False
        for a in sig['inputs']:
            if a['_'] == 'FnArg::Receiver':
                fd.has_self = True
            else:
                pt = a['0']
                fd.params.append((pt['pat'], pt['ty']))
        out = sig['output']
        fd.ret = out['1'] if out['_'] == 'ReturnType::Type' else None
        fd.body = body if body is not None else it.get('block')
        fd.file = path
        fd.owner = owner
        fd.trait = trait
        fd.module = mod
        fd.crate = crate
        fd.attrs = it['attrs']
        fd.span = None
        for a in it['attrs']:
            m = a['meta']
            if m['_'] == 'Meta::List' and path_segments(m['path']) == ['__span']:
                nums = [int(t['lit']['digits']) for t in m['tokens']['items'] if t['_'] == 'Literal']
                fd.span = tuple(nums)
        fd.generics = [g['0']['ident']['sym'] for g in sig['generics']['params'] if g['_'] == 'GenericParam::Type']
        return fd

    def fn_hash(self, fd):
        if fd.span is None:
            return None
        src = self.sources[fd.file][fd.span[2]:fd.span[3]]
        return hashlib.sha256(src).hexdigest()[:16]

    def find_method(self, ty, name):
        fd = self.methods.get((ty, name))
        if fd is not None:
            return fd
        for tr in self.type_traits.get(ty, ()):
            fd = self.trait_defaults.get((tr, name))
            if fd is not None:
                return fd
        return None

    def find_free(self, segs, cur_mod):
        name = segs[-1]
        cands = self.free_fns.get(name)
        if not cands:
            return None
        if len(cands) == 1 and len(segs) == 1:
            return cands[0]
        quals = [s for s in segs[:-1] if s not in ('crate', 'self', 'super')]
        best = None
        for fd in cands:
            if quals:
                if fd.module[-len(quals):] == quals or all(q in fd.module for q in quals):
                    return fd
            else:
                if fd.module == cur_mod:
                    return fd
                best = best or fd
        return best if not quals else (cands[0] if len(cands) == 1 else None)


# ------------------------------------------------------------------------------------------------
# syn data conversion: JSON tree -> run-time values (the program's input when it analyses Rust code)
# ------------------------------------------------------------------------------------------------

SYN_INLINE = {
    # enum -> prefix for the inner struct type name
    'Expr': 'Expr', 'Type': 'Type', 'Pat': 'Pat', 'Item': 'Item', 'Lit': 'Lit', 'Meta': 'Meta',
    'ImplItem': 'ImplItem', 'TraitItem': 'TraitItem', 'ForeignItem': 'ForeignItem', 'Fields': 'Fields',
    'PathArguments': '', 'Stmt': '', 'UseTree': 'Use', 'GenericParam': '',
}
SYN_INNER_NAMES = {
    ('PathArguments', 'AngleBracketed'): 'AngleBracketedGenericArguments',
    ('PathArguments', 'Parenthesized'): 'ParenthesizedGenericArguments',
    ('Stmt', 'Local'): 'Local', ('Stmt', 'Macro'): 'StmtMacro',
    ('Meta', 'Path'): 'Path', ('Meta', 'List'): 'MetaList', ('Meta', 'NameValue'): 'MetaNameValue',
    ('Pat', 'Path'): 'ExprPath', ('Pat', 'Lit'): 'ExprLit', ('Pat', 'Macro'): 'ExprMacro', ('Pat', 'Range'): 'ExprRange',
    ('Pat', 'Const'): 'ExprConst', ('GenericParam', 'Type'): 'TypeParam', ('GenericParam', 'Lifetime'): 'LifetimeParam',
    ('GenericParam', 'Const'): 'ConstParam', ('Visibility', 'Restricted'): 'VisRestricted',
}


def syn_value(j):
    """convert astdump JSON into Struct/Enum/Vec/Str values mirroring syn's data types"""
    if isinstance(j, list):
        return Vec([syn_value(x) for x in j], 'Punctuated')
    if isinstance(j, dict):
        tag = j['_']
        if tag == 'Some':
            return Some(syn_value(j['0']))
        if tag == 'None':
            return mk_none()
        if tag == '()':
            n = len(j) - 1
            return tuple(syn_value(j[str(i)]) for i in range(n))
        if tag == '#lit':
            f = {k: (Str(v) if isinstance(v, str) else v) for k, v in j.items() if k != '_'}
            return Struct('#lit', f)
        if tag == 'TokenStream':
            return Struct('TokenStream', {'items': Vec([syn_value(x) for x in j['items']])})
        fields = {}
        positional = []
        for k, v in j.items():
            if k == '_':
                continue
            if k.isdigit():
                positional.append((int(k), syn_value(v)))
            else:
                fields[k] = syn_value(v)
        if '::' in tag:
            ety, var = tag.split('::', 1)
            if positional:
                positional.sort()
                return Enum(ety, var, [p[1] for p in positional])
            if fields:
                inner = SYN_INNER_NAMES.get((ety, var)) or (SYN_INLINE.get(ety, ety) + var)
                return Enum(ety, var, [Struct(inner, fields)])
            return Enum(ety, var, [])
        if positional:
            positional.sort()
            for i, p in positional:
                fields[str(i)] = p
        return Struct(tag, fields)
    if isinstance(j, str):
        return Str(j)
    return j


# ------------------------------------------------------------------------------------------------
# environment
# ------------------------------------------------------------------------------------------------

class Env:
    __slots__ = ('vars', 'parent')

    def __init__(self, parent=None):
        self.vars = {}
        self.parent = parent

    def lookup(self, name):
        e = self
        while e is not None:
            if name in e.vars:
                return e
            e = e.parent
        return None

    def get(self, name):
        e = self.lookup(name)
        if e is None:
            raise KeyError(name)
        return e.vars[name]

    def set(self, name, v):
        e = self.lookup(name)
        if e is None:
            raise KeyError(name)
        e.vars[name] = v

    def bind(self, name, v):
        self.vars[name] = v


class Ctx:
    """per-function-activation context"""
    __slots__ = ('fn', 'self_ty', 'ret', 'module', 'generic_binds')

    def __init__(self, fn, self_ty, ret, module):
        self.fn = fn
        self.self_ty = self_ty
        self.ret = ret
        self.module = module


class Place:
    __slots__ = ('get', 'set')

    def __init__(self, get, set_):
        self.get = get
        self.set = set_


IMMUTABLE_KINDS = (Str, Ch, int, bool, float, tuple, Float, z3.ExprRef, Enum, type(None))


class Interp:
    def __init__(self, program):
        self.prog = program
        from . import builtins as B
        self.B = B
        self.depth = 0
        self.max_depth = 400
        self.hooks = {}   # name -> python callable for environment functions
        from .models import tera as _T, misc as _M
        self.hooks['__macro_template'] = _T.template_macro
        self.hooks['env!'] = _M.env_macro
        self.fs = None
        self.templates_read = {}

    # -- entry points ------------------------------------------------------------------------
    def call_path(self, path, args, self_val=None):
        """call a repository function by path string, e.g. 'TypeResolver::parse_type_structure'"""
        segs = path.split('::')
        if len(segs) >= 2 and (segs[-2], segs[-1]) in self.prog.methods:
            fd = self.prog.methods[(segs[-2], segs[-1])]
        elif len(segs) >= 2 and (segs[-2], segs[-1]) in self.prog.trait_defaults:
            fd = self.prog.trait_defaults[(segs[-2], segs[-1])]
        else:
            fd = self.prog.find_free(segs, [])
        if fd is None:
            raise Inconclusive('function %s not found in the current sources' % path)
        if fd.has_self:
            return self.call_fn(fd, list(args), self_val)
        return self.call_fn(fd, list(args), None)

    def call_method(self, recv, name, args):
        """call method `name` on value recv (user-defined or builtin)"""
        return self._method(recv, name, list(args), None, None, None, None)

    # -- function calls ----------------------------------------------------------------------
    def call_fn(self, fd, args, self_val, self_ty=None):
        E_ = V.ENG
        E_.tick(5)
        qn = fd.qualname()
        stub = self.prog.stubs.get(qn)
        if stub is not None:
            return stub(self, args, self_val)
        if fd.body is None:
            raise Inconclusive('function %s has no body' % qn)
        self.prog.used[qn] = fd
        V.CALL_STACK.append(qn)
        self.depth += 1
        if self.depth > self.max_depth:
            self.depth -= 1
            raise Inconclusive('recursion depth exceeded in %s' % qn)
        try:
            env = Env()
            if fd.has_self:
                env.bind('self', self_val)
            if len(args) != len(fd.params):
                raise Inconclusive('arity mismatch calling %s: %d vs %d' % (qn, len(args), len(fd.params)))
            if self_ty is None:
                if fd.owner:
                    self_ty = fd.owner
                elif fd.has_self:
                    sv = deref(self_val)
                    self_ty = getattr(sv, 'ty', None)
            ctx = Ctx(fd, self_ty, fd.ret, fd.module)
            for (pat, ty), a in zip(fd.params, args):
                a = self.coerce_to_type(a, ty)
                if not self.match_pat(pat, a, env, ctx, irrefutable=True):
                    raise Inconclusive('parameter pattern did not match in %s' % qn)
            try:
                r = self.eval_block(fd.body, env, ctx, fd.ret)
            except ReturnEx as ex:
                r = ex.v
            return r
        finally:
            self.depth -= 1
            V.CALL_STACK.pop()

    def coerce_to_type(self, v, ty):
        """apply declared integer type to python ints (so that usize arithmetic is checked)"""
        if type(v) is int and ty is not None and ty['_'] == 'Type::Path':
            name = ty['path']['segments'][-1]['ident']['sym']
            if name in UNSIGNED:
                return UInt(v)
        return v

    def call_value(self, f, args, hint=None):
        """call a closure / fn reference / python function value (hint: expected result type, if known)"""
        f = deref(f)
        if isinstance(f, Closure):
            V.ENG.tick(2)
            env = Env(f.env)
            if len(args) != len(f.params):
                # closures over tuples: |(a, b)| receives one tuple arg -- handled by pattern
                raise Inconclusive('closure arity mismatch')
            for p, a in zip(f.params, args):
                if not self.match_pat(p, a, env, f.ctx, irrefutable=True):
                    raise Inconclusive('closure parameter pattern mismatch')
            try:
                return self.eval(f.body, env, f.ctx, hint)
            except ReturnEx as ex:
                return ex.v
        if isinstance(f, PyFn):
            return f.f(*args)
        if isinstance(f, FnRef):
            return self.call_fnref(f, args)
        raise Inconclusive('call of non-function value %r' % (f,))

    def call_fnref(self, f, args):
        if f.fn is not None:
            if f.fn.has_self:
                return self.call_fn(f.fn, args[1:], args[0], f.self_ty)
            return self.call_fn(f.fn, args, None, f.self_ty)
        return self.B.call_builtin_path(self, f.path, args, None, None)

    # -- blocks and statements ---------------------------------------------------------------
    def eval_block(self, block, env, ctx, hint=None):
        env = Env(env)
        stmts = block['stmts']
        last = len(stmts) - 1
        result = ()
        for i, s in enumerate(stmts):
            k = s['_']
            if k == 'Stmt::Local':
                self.exec_local(s, env, ctx, stmts[i + 1:])
                result = ()
            elif k == 'Stmt::Expr':
                has_semi = s['1']['_'] == 'Some'
                v = self.eval(s['0'], env, ctx, hint if (i == last and not has_semi) else None)
                result = () if has_semi else v
            elif k == 'Stmt::Item':
                result = ()   # nested items: fns are indexed lazily
                it = s['0']
                if it['_'] == 'Item::Fn':
                    fd = self.prog._mkfn(it, ctx.module, ctx.fn.file if ctx.fn else None, None, None, 'crate')
                    env.bind(fd.name, FnRef([fd.name], fd))
                elif it['_'] in ('Item::Use',):
                    pass
                elif it['_'] in ('Item::Const', 'Item::Static'):
                    env.bind(it['ident']['sym'], self.eval(it['expr'], env, ctx, it.get('ty')))
                elif it['_'] == 'Item::Struct':
                    self.prog.structs.setdefault(it['ident']['sym'], it)
                elif it['_'] == 'Item::Enum':
                    self.prog.enums.setdefault(it['ident']['sym'], it)
                else:
                    raise Inconclusive('unsupported nested item %s' % it['_'])
            elif k == 'Stmt::Macro':
                raise Inconclusive('unsupported statement macro %s' % '::'.join(path_segments(s['mac']['path'])))
            else:
                raise Inconclusive('unsupported statement %s' % k)
        return result

    def exec_local(self, s, env, ctx, following=()):
        pat = s['pat']
        ty = None
        if pat['_'] == 'Pat::Type':
            ty = pat['ty']
            pat = pat['pat']
        init = s['init']
        if ty is None and init['_'] == 'Some' and pat['_'] == 'Pat::Ident' and self._needs_hint(init['0']['expr']):
            ty = self.infer_from_use(pat['ident']['sym'], following, ctx)
        if init['_'] == 'None':
            # declared, assigned later
            for name in self.pat_names(pat):
                env.bind(name, None)
            return
        li = init['0']
        v = self.eval(li['expr'], env, ctx, ty)
        if ty is not None:
            v = self.coerce_to_type(v, ty)
            self._note_map_type(v, ty)
        if li['diverge']['_'] == 'Some':
            if not self.match_pat(pat, v, env, ctx):
                self.eval(li['diverge']['0']['1'], env, ctx)
                raise Inconclusive('let-else block did not diverge')
            return
        if not self.match_pat(pat, v, env, ctx, irrefutable=True):
            raise Inconclusive('irrefutable let pattern failed to match: %r' % (v,))

    @staticmethod
    def _needs_hint(e):
        while e['_'] in ('Expr::Try', 'Expr::Paren'):
            e = e['expr']
        if e['_'] == 'Expr::MethodCall' and e['method']['sym'] in ('collect', 'into', 'parse', 'unwrap_or_default', 'sum') \
                and e['turbofish']['_'] == 'None':
            return True
        if e['_'] == 'Expr::Call' and e['func']['_'] == 'Expr::Path':
            segs = path_segments(e['func']['path'])
            if segs[-1] == 'default' and (len(segs) == 1 or segs[-2] == 'Default'):
                return True
        return False

    def infer_from_use(self, name, stmts, ctx):
        """type of a `let name = ...collect()` binding inferred from how `name` is used later
        (return value, Ok(name), call argument, struct field); None if nothing conclusive"""
        found = []

        def is_name(e):
            while e['_'] in ('Expr::Reference', 'Expr::Paren'):
                e = e['expr']
            return e['_'] == 'Expr::Path' and path_segments(e['path']) == [name]

        def ret_unwrapped(kind):
            h, a = type_head(ctx.ret)
            if kind == 'Ok' and h == 'Result' and a:
                return a[0]
            if kind == 'Some' and h == 'Option' and a:
                return a[0]
            return None

        def visit(e, tail):
            if not isinstance(e, dict):
                if isinstance(e, list):
                    for x in e:
                        visit(x, False)
                return
            k = e.get('_')
            if k == 'Expr::Return' and e['expr']['_'] == 'Some':
                visit(e['expr']['0'], True)
                return
            if tail and is_name(e):
                found.append(ctx.ret)
                return
            if k == 'Expr::Call' and e['func']['_'] == 'Expr::Path':
                segs = path_segments(e['func']['path'])
                if len(segs) == 1 and segs[0] in ('Ok', 'Some') and e['args'] and is_name(e['args'][0]) and tail:
                    t = ret_unwrapped(segs[0])
                    if t is not None:
                        found.append(t)
                    return
                fd = None
                if len(segs) >= 2:
                    ty = ctx.self_ty if segs[-2] == 'Self' else segs[-2]
                    fd = self.prog.find_method(ty, segs[-1])
                if fd is None:
                    fd = self.prog.find_free(segs, ctx.module)
                if fd is not None:
                    args = e['args'][1:] if fd.has_self else e['args']
                    for a, pt in zip(args, fd.params):
                        if is_name(a):
                            found.append(pt[1])
            if k == 'Expr::MethodCall':
                r = e['receiver']
                if r['_'] == 'Expr::Path' and path_segments(r['path']) == ['self'] and ctx.self_ty:
                    fd = self.prog.find_method(ctx.self_ty, e['method']['sym'])
                    if fd is not None:
                        for a, pt in zip(e['args'], fd.params):
                            if is_name(a):
                                found.append(pt[1])
                if is_name(r):
                    m = e['method']['sym']
                    if m in ('join', 'push', 'sort', 'sort_by', 'dedup', 'first', 'last', 'pop', 'concat', 'windows', 'sort_by_key'):
                        found.append(self._named_type('Vec'))
                    elif m in ('contains_key', 'entry', 'keys', 'values'):
                        found.append(self._named_type('HashMap'))
                    elif m in ('push_str', 'as_str', 'trim', 'starts_with', 'chars'):
                        found.append(self._named_type('String'))
            if k == 'Expr::Struct':
                sn = path_segments(e['path'])[-1]
                if sn == 'Self':
                    sn = ctx.self_ty
                sd = self.prog.structs.get(sn)
                if sd is not None and sd['fields']['_'] == 'Fields::Named':
                    ft = {f['ident']['0']['sym']: f['ty'] for f in sd['fields']['named']}
                    for fv in e['fields']:
                        if fv['member']['_'] == 'Member::Named' and is_name(fv['expr']):
                            t = ft.get(fv['member']['0']['sym'])
                            if t is not None:
                                found.append(t)
            if k == 'Expr::Index' and is_name(e['expr']):
                found.append(self._named_type('Vec'))
            for kk, v in e.items():
                if kk == '_':
                    continue
                if isinstance(v, (dict, list)):
                    if k in ('Expr::If', 'Expr::Match', 'Expr::Block', 'Block', 'Arm', 'Expr::Paren') and tail:
                        visit_tail(v)
                    else:
                        visit(v, False)

        def visit_tail(v):
            if isinstance(v, list):
                for x in v:
                    visit_tail(x)
                return
            if not isinstance(v, dict):
                return
            k = v.get('_')
            if k == 'Block':
                sts = v['stmts']
                for j, st in enumerate(sts):
                    if j == len(sts) - 1 and st['_'] == 'Stmt::Expr' and st['1']['_'] == 'None':
                        visit(st['0'], True)
                    else:
                        visit(st, False)
                return
            visit(v, True)

        sts = list(stmts)
        for j, st in enumerate(sts):
            if j == len(sts) - 1 and st['_'] == 'Stmt::Expr' and st['1']['_'] == 'None':
                visit(st['0'], True)
            else:
                visit(st, False)
        for t in found:
            h, _ = type_head(t)
            if h is not None and h not in ctx.fn.generics if ctx.fn else True:
                return t
        return None

    def pat_names(self, pat):
        k = pat['_']
        if k == 'Pat::Ident':
            return [pat['ident']['sym']]
        if k == 'Pat::Tuple':
            out = []
            for e in pat['elems']:
                out += self.pat_names(e)
            return out
        if k == 'Pat::Type':
            return self.pat_names(pat['pat'])
        return []

    # -- patterns ----------------------------------------------------------------------------
    def match_pat(self, pat, v, env, ctx, irrefutable=False):
        """match value against pattern, binding names into env; symbolic tests go through decide"""
        k = pat['_']
        if k == 'Pat::Ident':
            name = pat['ident']['sym']
            if pat['subpat']['_'] == 'Some':
                if not self.match_pat(pat['subpat']['0']['1'], v, env, ctx):
                    return False
            # a bare identifier may name a unit variant / const; only when such a thing exists
            if pat['by_ref']['_'] == 'None' and pat['mutability']['_'] == 'None' and name[0].isupper():
                gv = self.glob_variant(name, ctx)
                if gv is not None:
                    dv = deref(v)
                    return isinstance(dv, Enum) and dv.ty == gv and dv.var == name
                if name == 'None':
                    return V.is_none(deref(v))
                cv = self.lookup_const_or_variant([name], ctx)
                if cv is not None:
                    return V.ENG.decide(sym_eq(deref(v), cv))
            if pat['mutability']['_'] == 'Some' and pat['by_ref']['_'] == 'None':
                # `mut x` binds by value: detach from references to immutable cells
                if isinstance(v, Ref):
                    v = v.get()
            env.bind(name, v)
            return True
        if k == 'Pat::Wild' or k == 'Pat::Rest':
            return True
        if k == 'Pat::Reference':
            return self.match_pat(pat['pat'], v, env, ctx, irrefutable)
        if k == 'Pat::Paren':
            return self.match_pat(pat['pat'], v, env, ctx, irrefutable)
        if k == 'Pat::Type':
            return self.match_pat(pat['pat'], v, env, ctx, irrefutable)
        v = deref(v)
        if k == 'Pat::Tuple':
            if not isinstance(v, tuple):
                raise Inconclusive('tuple pattern against %r' % (v,))
            elems = pat['elems']
            rest = [i for i, e in enumerate(elems) if e['_'] == 'Pat::Rest']
            if rest:
                r = rest[0]
                before = elems[:r]
                after = elems[r + 1:]
                if len(before) + len(after) > len(v):
                    return False
                for p, x in zip(before, v[:len(before)]):
                    if not self.match_pat(p, x, env, ctx, irrefutable):
                        return False
                for p, x in zip(after, v[len(v) - len(after):]):
                    if not self.match_pat(p, x, env, ctx, irrefutable):
                        return False
                return True
            if len(elems) != len(v):
                raise Inconclusive('tuple pattern arity %d against %d' % (len(elems), len(v)))
            for p, x in zip(elems, v):
                if not self.match_pat(p, x, env, ctx, irrefutable):
                    return False
            return True
        if k == 'Pat::TupleStruct':
            segs = path_segments(pat['path'])
            ty, var = self.resolve_variant(segs, ctx)
            if isinstance(v, Enum):
                if v.var != var or (ty is not None and v.ty != ty and not self._same_enum(v.ty, ty)):
                    return False
                elems = pat['elems']
                vals = v.vals
                if len(elems) == 1 and elems[0]['_'] == 'Pat::Rest':
                    return True
                if any(e['_'] == 'Pat::Rest' for e in elems):
                    r = [i for i, e in enumerate(elems) if e['_'] == 'Pat::Rest'][0]
                    for p, x in zip(elems[:r], vals[:r]):
                        if not self.match_pat(p, x, env, ctx, irrefutable):
                            return False
                    tail = elems[r + 1:]
                    for p, x in zip(tail, vals[len(vals) - len(tail):]):
                        if not self.match_pat(p, x, env, ctx, irrefutable):
                            return False
                    return True
                if len(elems) != len(vals):
                    raise Inconclusive('variant pattern %s arity %d vs value %r' % (var, len(elems), v))
                for i, p in enumerate(elems):
                    if not self.match_pat(p, self._slot(v.vals, i), env, ctx, irrefutable):
                        return False
                return True
            if isinstance(v, Struct):
                # tuple struct
                if v.ty != var:
                    return False
                for i, p in enumerate(pat['elems']):
                    if not self.match_pat(p, v.f[str(i)], env, ctx, irrefutable):
                        return False
                return True
            raise Inconclusive('tuple-struct pattern %s against %r' % ('::'.join(segs), v))
        if k == 'Pat::Path':
            segs = path_segments(pat['path'])
            if segs == ['None']:
                return V.is_none(v)
            if isinstance(v, Enum):
                ty, var = self.resolve_variant(segs, ctx)
                if ty is None or ty in self.prog.enums or ty in ('Option', 'Result', 'Ordering') or v.ty == ty:
                    if not (ty is not None and ty not in self.prog.enums and (ty, var) in self.prog.consts):
                        return v.var == var
            cv = self.lookup_const_or_variant(segs, ctx)
            if cv is None:
                raise Inconclusive('path pattern %s unresolved' % '::'.join(segs))
            return V.ENG.decide(sym_eq(v, cv))
        if k == 'Pat::Struct':
            segs = path_segments(pat['path'])
            name = segs[-1]
            if isinstance(v, Enum):
                ty, var = self.resolve_variant(segs, ctx)
                if v.var != var:
                    return False
                src = v.fields if v.fields is not None else (v.vals[0].f if v.vals and isinstance(v.vals[0], Struct) else None)
                if src is None:
                    raise Inconclusive('struct pattern on tuple variant %r' % (v,))
            elif isinstance(v, Struct):
                src = v.f
            else:
                raise Inconclusive('struct pattern %s against %r' % (name, v))
            for fp in pat['fields']:
                m = fp['member']
                fname = m['0']['sym'] if m['_'] == 'Member::Named' else str(m['0']['index'])
                if fname not in src:
                    raise Inconclusive('struct pattern: no field %s in %r' % (fname, v))
                if not self.match_pat(fp['pat'], self._dslot(src, fname), env, ctx, irrefutable):
                    return False
            return True
        if k == 'Pat::Lit':
            lv = self.eval_lit(pat['lit'])
            return V.ENG.decide(sym_eq(v, lv))
        if k == 'Pat::Or':
            for c in pat['cases']:
                sub = Env(env)
                if self.match_pat(c, v, sub, ctx):
                    env.vars.update(sub.vars)
                    return True
            return False
        if k == 'Pat::Range':
            lo = self.eval(pat['start']['0'], env, ctx) if pat['start']['_'] == 'Some' else None
            hi = self.eval(pat['end']['0'], env, ctx) if pat['end']['_'] == 'Some' else None
            x = v.c if isinstance(v, Ch) else v
            conds = []
            if lo is not None:
                lo = lo.c if isinstance(lo, Ch) else lo
                conds.append(x >= lo)
            if hi is not None:
                hi = hi.c if isinstance(hi, Ch) else hi
                closed = pat['limits']['_'].endswith('Closed')
                conds.append(x <= hi if closed else x < hi)
            return V.ENG.decide(z_and(*conds))
        if k == 'Pat::Slice':
            if not isinstance(v, Vec):
                raise Inconclusive('slice pattern against %r' % (v,))
            elems = pat['elems']
            rest = [i for i, e in enumerate(elems) if e['_'] == 'Pat::Rest' or
                    (e['_'] == 'Pat::Ident' and e['subpat']['_'] == 'Some' and e['subpat']['0']['1']['_'] == 'Pat::Rest')]
            if rest:
                r = rest[0]
                before, after = elems[:r], elems[r + 1:]
                if len(before) + len(after) > len(v.v):
                    return False
                for p, x in zip(before, v.v[:len(before)]):
                    if not self.match_pat(p, x, env, ctx):
                        return False
                for p, x in zip(after, v.v[len(v.v) - len(after):]):
                    if not self.match_pat(p, x, env, ctx):
                        return False
                if elems[r]['_'] == 'Pat::Ident':
                    env.bind(elems[r]['ident']['sym'], Vec(v.v[len(before):len(v.v) - len(after)]))
                return True
            if len(elems) != len(v.v):
                return False
            for p, x in zip(elems, v.v):
                if not self.match_pat(p, x, env, ctx):
                    return False
            return True
        if k == 'Pat::Const':
            cv = self.eval_block(pat['block'], env, ctx)
            return V.ENG.decide(sym_eq(v, cv))
        raise Inconclusive('unsupported pattern %s' % k)

    @staticmethod
    def _slot(lst, i):
        x = lst[i]
        if isinstance(x, (Str, Ch, int, bool, tuple, Float)) or is_sym(x) or (isinstance(x, Enum) and x.ty == 'Option'):
            def setter(nv, lst=lst, i=i):
                lst[i] = nv
            return Ref(lambda lst=lst, i=i: lst[i], setter)
        return x

    @staticmethod
    def _dslot(d, k):
        x = d[k]
        if isinstance(x, (Str, Ch, int, bool, tuple, Float)) or is_sym(x) or (isinstance(x, Enum) and x.ty == 'Option'):
            def setter(nv, d=d, k=k):
                d[k] = nv
            return Ref(lambda d=d, k=k: d[k], setter)
        return x

    def _same_enum(self, a, b):
        return a == b

    def glob_variant(self, name, ctx):
        if ctx is None or ctx.fn is None:
            return None
        g = self.prog.file_globs.get(ctx.fn.file)
        return g.get(name) if g else None

    def resolve_variant(self, segs, ctx):
        """path segments -> (enum type name or None, variant name)"""
        if len(segs) == 1:
            n = segs[0]
            gv = self.glob_variant(n, ctx)
            if gv is not None:
                return (gv, n)
            if n in ('Some', 'None'):
                return ('Option', n)
            if n in ('Ok', 'Err'):
                return ('Result', n)
            return (None, n)
        ty = segs[-2]
        if ty == 'Self':
            ty = ctx.self_ty
        return (ty, segs[-1])

    def lookup_const_or_variant(self, segs, ctx):
        name = segs[-1]
        if len(segs) >= 2:
            ty = segs[-2]
            if ty == 'Self':
                ty = ctx.self_ty
            if ty in self.prog.enums:
                return self.make_variant(ty, name, None, None)
            if (ty, name) in self.prog.consts:
                return self.eval(self.prog.consts[(ty, name)], Env(), ctx)
            c = self.B.builtin_const(segs)
            if c is not None:
                return c
            return None
        if name in self.prog.consts:
            return self.eval(self.prog.consts[name], Env(), ctx)
        return None

    def make_variant(self, ty, var, vals, fields):
        en = self.prog.enums.get(ty)
        if en is not None:
            names = [x['ident']['sym'] for x in en['variants']]
            if var not in names:
                raise Inconclusive('enum %s has no variant %s' % (ty, var))
        return Enum(ty, var, vals or [], fields)

    # -- literals ----------------------------------------------------------------------------
    def eval_lit(self, lit):
        k = lit['_']
        tok = lit.get('token')
        if k == 'Lit::Str':
            return Str(tok['value'])
        if k == 'Lit::Int':
            n = int(tok['digits'])
            if tok['suffix'] in UNSIGNED:
                return UInt(n)
            return n
        if k == 'Lit::Bool':
            return bool(lit['value'])
        if k == 'Lit::Char':
            return Ch(ord(tok['value']))
        if k == 'Lit::Float':
            return Float(float(tok['digits']), tok['digits'])
        if k == 'Lit::Byte':
            return UInt(tok['value'])
        if k == 'Lit::ByteStr':
            return Vec([UInt(b) for b in tok['value']])
        raise Inconclusive('unsupported literal %s' % k)

    # -- expressions -------------------------------------------------------------------------
    def eval(self, e, env, ctx, hint=None):
        V.ENG.tick()
        k = e['_']
        m = self.DISPATCH.get(k)
        if m is None:
            raise Inconclusive('unsupported expression %s' % k)
        return m(self, e, env, ctx, hint)

    def e_lit(self, e, env, ctx, hint):
        v = self.eval_lit(e['lit'])
        if type(v) is int and hint is not None:
            h, _ = type_head(hint)
            if h in UNSIGNED:
                return UInt(v)
            if h in ('f64', 'f32'):
                return Float(float(v), str(v))
        return v

    def e_paren(self, e, env, ctx, hint):
        return self.eval(e['expr'], env, ctx, hint)

    def e_path(self, e, env, ctx, hint):
        segs = path_segments(e['path'])
        if len(segs) == 1:
            name = segs[0]
            en = env.lookup(name)
            if en is not None:
                return en.vars[name]
            gv = self.glob_variant(name, ctx)
            if gv is not None:
                return self.resolve_path_value(e['path'], [gv, name], env, ctx, hint)
            if name == 'None':
                return mk_none()
        return self.resolve_path_value(e['path'], segs, env, ctx, hint)

    def resolve_path_value(self, pnode, segs, env, ctx, hint):
        name = segs[-1]
        if len(segs) == 1:
            if name in self.prog.consts:
                return self.eval(self.prog.consts[name], Env(), ctx)
            if name in self.prog.structs:
                st = self.prog.structs[name]
                if st['fields']['_'] == 'Fields::Unit':
                    return Struct(name, {})
                return FnRef(segs)     # tuple struct constructor
            fd = self.prog.find_free(segs, ctx.module)
            if fd is not None:
                return FnRef(segs, fd)
            if name in ('Some', 'Ok', 'Err'):
                return FnRef(segs)
            if name == 'Self':
                st = self.prog.structs.get(ctx.self_ty)
                if st is not None and st['fields']['_'] == 'Fields::Unit':
                    return Struct(ctx.self_ty, {})
                return FnRef([ctx.self_ty])
            c = self.B.builtin_const(segs)
            if c is not None:
                return c
            return FnRef(segs)
        ty = segs[-2]
        if ty == 'Self':
            ty = ctx.self_ty
        if ty in self.prog.enums:
            en = self.prog.enums[ty]
            for vr in en['variants']:
                if vr['ident']['sym'] == name:
                    if vr['fields']['_'] == 'Fields::Unit':
                        return Enum(ty, name, [])
                    return FnRef([ty, name])
        if (ty, name) in self.prog.consts:
            return self.eval(self.prog.consts[(ty, name)], Env(), ctx)
        fd = self.prog.find_method(ty, name)
        if fd is None and ty in self.prog.trait_methods:
            return FnRef([ty, name])    # Trait::method used as value, dispatched dynamically
        if fd is not None:
            return FnRef([ty, name], fd, ty)
        fd = self.prog.find_free(segs, ctx.module)
        if fd is not None:
            return FnRef(segs, fd)
        c = self.B.builtin_const(segs)
        if c is not None:
            return c
        return FnRef([ty, name] if ty == ctx.self_ty else segs)

    def e_reference(self, e, env, ctx, hint):
        inner = e['expr']
        if e['mutability']['_'] == 'Some':
            pl = self.place(inner, env, ctx)
            if pl is not None:
                cur = pl.get()
                if isinstance(cur, Ref):
                    return cur
                if isinstance(cur, IMMUTABLE_KINDS) and not (isinstance(cur, Enum) and cur.ty != 'Option'):
                    return Ref(pl.get, pl.set)
                return cur
        return self.eval(inner, env, ctx, self._strip_ref(hint))

    @staticmethod
    def _strip_ref(hint):
        if hint is not None and hint['_'] == 'Type::Reference':
            return hint['elem']
        return hint

    def e_unary(self, e, env, ctx, hint):
        op = e['op']['_']
        v = self.eval(e['expr'], env, ctx, hint if op == 'UnOp::Deref' else None)
        if op == 'UnOp::Deref':
            if isinstance(v, Ref):
                return v.get()
            return v
        v = deref(v)
        if op == 'UnOp::Not':
            if isinstance(v, bool):
                return not v
            if is_sym(v) and z3.is_bool(v):
                return z3.Not(v)
            raise Inconclusive('bitwise not on %r' % (v,))
        if op == 'UnOp::Neg':
            if isinstance(v, Float):
                return Float(-v.v if v.v is not None else None, '-' + v.text if v.text is not None else None)
            return -v
        raise Inconclusive('unsupported unary %s' % op)

    def e_binary(self, e, env, ctx, hint):
        op = e['op']['_'][7:]   # strip 'BinOp::'
        if op == 'And':
            l = deref(self.eval(e['left'], env, ctx))
            if not V.ENG.decide(l):
                return False
            return deref(self.eval(e['right'], env, ctx))
        if op == 'Or':
            l = deref(self.eval(e['left'], env, ctx))
            if V.ENG.decide(l):
                return True
            return deref(self.eval(e['right'], env, ctx))
        if op.endswith('Assign'):
            pl = self.place(e['left'], env, ctx, autoderef=True)
            if pl is None:
                raise Inconclusive('compound assignment to non-place')
            r = deref(self.eval(e['right'], env, ctx))
            pl.set(self.binop(op[:-6], deref(pl.get()), r))
            return ()
        l = deref(self.eval(e['left'], env, ctx))
        r = deref(self.eval(e['right'], env, ctx, None))
        return self.binop(op, l, r)

    def binop(self, op, l, r):
        if op == 'Eq':
            return sym_eq(l, r)
        if op == 'Ne':
            return z_not(sym_eq(l, r))
        if op == 'Add':
            if isinstance(l, Str):
                if not isinstance(r, Str):
                    raise Inconclusive('String + %r' % (r,))
                return l.concat(r)
            if isinstance(l, Float) or isinstance(r, Float):
                return self._float_op(op, l, r)
            return l + r
        if op in ('Lt', 'Le', 'Gt', 'Ge'):
            if isinstance(l, Str) and isinstance(r, Str):
                lt = V.str_lt(l, r)
                eq = V.str_eq(l, r)
                return {'Lt': lt, 'Le': z_or(lt, eq), 'Gt': z_not(z_or(lt, eq)), 'Ge': z_not(lt)}[op]
            if isinstance(l, Ch):
                l, r = l.c, r.c
            if isinstance(l, Float) or isinstance(r, Float):
                return self._float_op(op, l, r)
            if isinstance(l, Enum) or isinstance(l, tuple) or isinstance(l, Vec):
                o = self.B.value_cmp(self, l, r)
                return {'Lt': o < 0, 'Le': o <= 0, 'Gt': o > 0, 'Ge': o >= 0}[op]
            if op == 'Lt':
                return l < r
            if op == 'Le':
                return l <= r
            if op == 'Gt':
                return l > r
            return l >= r
        if isinstance(l, Float) or isinstance(r, Float):
            return self._float_op(op, l, r)
        if op == 'Sub':
            if isinstance(l, Ch):
                return l.c - r.c
            return l - r
        if op == 'Mul':
            return l * r
        if op == 'Div':
            if not is_sym(r) and r == 0:
                raise RustPanic('attempt to divide by zero')
            if is_sym(l) or is_sym(r):
                return l / r
            q = abs(l) // abs(r)
            q = q if (l >= 0) == (r >= 0) else -q
            return UInt(q) if isinstance(l, UInt) else q
        if op == 'Rem':
            if not is_sym(r) and r == 0:
                raise RustPanic('attempt to calculate the remainder with a divisor of zero')
            if is_sym(l) or is_sym(r):
                return l % r
            m = abs(l) % abs(r)
            m = m if l >= 0 else -m
            return UInt(m) if isinstance(l, UInt) else m
        if op == 'BitAnd':
            if isinstance(l, bool) or (is_sym(l) and z3.is_bool(l)):
                return z_and(l, r)
            return l & r
        if op == 'BitOr':
            if isinstance(l, bool) or (is_sym(l) and z3.is_bool(l)):
                return z_or(l, r)
            return l | r
        if op == 'BitXor':
            if isinstance(l, bool):
                return l != r
            return l ^ r
        if op == 'Shl':
            return l << r
        if op == 'Shr':
            return l >> r
        raise Inconclusive('unsupported binary operator %s' % op)

    def _float_op(self, op, l, r):
        lv = l.v if isinstance(l, Float) else l
        rv = r.v if isinstance(r, Float) else r
        if lv is None or rv is None or is_sym(lv) or is_sym(rv):
            raise Inconclusive('arithmetic on opaque float')
        if op == 'Add':
            return Float(lv + rv)
        if op == 'Sub':
            return Float(lv - rv)
        if op == 'Mul':
            return Float(lv * rv)
        if op == 'Div':
            return Float(lv / rv if rv != 0 else float('inf'))
        return {'Lt': lv < rv, 'Le': lv <= rv, 'Gt': lv > rv, 'Ge': lv >= rv}[op]

    def e_assign(self, e, env, ctx, hint):
        left = e['left']
        if left['_'] == 'Expr::Tuple':
            v = deref(self.eval(e['right'], env, ctx))
            for sub, x in zip(left['elems'], v):
                pl = self.place(sub, env, ctx)
                pl.set(x)
            return ()
        if left['_'] == 'Expr::Infer':
            self.eval(e['right'], env, ctx)
            return ()
        pl = self.place(left, env, ctx, for_assign=True)
        if pl is None:
            raise Inconclusive('assignment to non-place %s' % left['_'])
        v = self.eval(e['right'], env, ctx, None)
        if isinstance(v, Ref) and left['_'] != 'Expr::Path':
            v = v.get()
        cur = None
        try:
            cur = pl.get()
        except Exception:
            pass
        if isinstance(cur, UInt) and type(v) is int:
            v = UInt(v)
        pl.set(v)
        return ()

    def e_block(self, e, env, ctx, hint):
        label = e['label']
        if label['_'] == 'Some':
            lname = label['0']['name']['ident']['sym']
            try:
                return self.eval_block(e['block'], env, ctx, hint)
            except BreakEx as b:
                if b.label == lname:
                    return b.v
                raise
        return self.eval_block(e['block'], env, ctx, hint)

    def e_unsafe(self, e, env, ctx, hint):
        return self.eval_block(e['block'], env, ctx, hint)

    def eval_cond(self, c, env, ctx):
        """condition of if/while: handles `let` and let-chains; returns python bool (decided)"""
        k = c['_']
        if k == 'Expr::Let':
            v = self.eval(c['expr'], env, ctx)
            return self.match_pat(c['pat'], v, env, ctx)
        if k == 'Expr::Binary' and c['op']['_'] == 'BinOp::And':
            if not self.eval_cond(c['left'], env, ctx):
                return False
            return self.eval_cond(c['right'], env, ctx)
        if k == 'Expr::Paren':
            return self.eval_cond(c['expr'], env, ctx)
        v = deref(self.eval(c, env, ctx))
        return V.ENG.decide(v)

    def e_if(self, e, env, ctx, hint):
        cenv = Env(env)
        if self.eval_cond(e['cond'], cenv, ctx):
            return self.eval_block(e['then_branch'], cenv, ctx, hint)
        eb = e['else_branch']
        if eb['_'] == 'Some':
            return self.eval(eb['0']['1'], env, ctx, hint)
        return ()

    def e_let(self, e, env, ctx, hint):
        v = self.eval(e['expr'], env, ctx)
        return self.match_pat(e['pat'], v, env, ctx)

    def e_match(self, e, env, ctx, hint):
        v = self.eval(e['expr'], env, ctx)
        for arm in e['arms']:
            aenv = Env(env)
            if self.match_pat(arm['pat'], v, aenv, ctx):
                g = arm['guard']
                if g['_'] == 'Some':
                    if not self.eval_cond(g['0']['1'], aenv, ctx):
                        continue
                return self.eval(arm['body'], aenv, ctx, hint)
        raise Inconclusive('non-exhaustive match on %r' % (deref(v),))

    def _label(self, e):
        l = e.get('label')
        if l is not None and l['_'] == 'Some':
            return l['0']['name']['ident']['sym']
        return None

    def e_while(self, e, env, ctx, hint):
        label = self._label(e)
        while True:
            V.ENG.tick(3)
            cenv = Env(env)
            if not self.eval_cond(e['cond'], cenv, ctx):
                break
            try:
                self.eval_block(e['body'], cenv, ctx)
            except BreakEx as b:
                if b.label is None or b.label == label:
                    break
                raise
            except ContinueEx as c:
                if c.label is None or c.label == label:
                    continue
                raise
        return ()

    def e_loop(self, e, env, ctx, hint):
        label = self._label(e)
        while True:
            V.ENG.tick(3)
            try:
                self.eval_block(e['body'], env, ctx)
            except BreakEx as b:
                if b.label is None or b.label == label:
                    return b.v
                raise
            except ContinueEx as c:
                if c.label is None or c.label == label:
                    continue
                raise

    def e_for(self, e, env, ctx, hint):
        label = self._label(e)
        itv = self.eval(e['expr'], env, ctx)
        it = self.B.into_iter(self, itv)
        for x in it:
            V.ENG.tick(3)
            benv = Env(env)
            if not self.match_pat(e['pat'], x, benv, ctx, irrefutable=True):
                raise Inconclusive('for pattern failed')
            try:
                self.eval_block(e['body'], benv, ctx)
            except BreakEx as b:
                if b.label is None or b.label == label:
                    break
                raise
            except ContinueEx as c:
                if c.label is None or c.label == label:
                    continue
                raise
        return ()

    def e_break(self, e, env, ctx, hint):
        label = e['label']['0']['ident']['sym'] if e['label']['_'] == 'Some' else None
        v = self.eval(e['expr']['0'], env, ctx) if e['expr']['_'] == 'Some' else ()
        raise BreakEx(label, v)

    def e_continue(self, e, env, ctx, hint):
        label = e['label']['0']['ident']['sym'] if e['label']['_'] == 'Some' else None
        raise ContinueEx(label)

    def e_return(self, e, env, ctx, hint):
        v = self.eval(e['expr']['0'], env, ctx, ctx.ret) if e['expr']['_'] == 'Some' else ()
        raise ReturnEx(v)

    def e_try(self, e, env, ctx, hint):
        inner_hint = None
        if hint is not None:
            # `let x: T = f()?` : f's result type is Result<T, _> (or Option<T>; only the first argument is read)
            inner_hint = {'_': 'Type::Path', 'path': {'segments': [{'ident': {'sym': 'Result'}, 'arguments': {
                '_': 'PathArguments::AngleBracketed', 'args': [{'_': 'GenericArgument::Type', '0': hint}]}}]}}
        v = deref(self.eval(e['expr'], env, ctx, inner_hint))
        if isinstance(v, Enum):
            if v.ty == 'Result':
                if v.var == 'Ok':
                    return v.vals[0]
                raise ReturnEx(Err(v.vals[0]))
            if v.ty == 'Option':
                if v.var == 'Some':
                    return v.vals[0]
                raise ReturnEx(mk_none())
        raise Inconclusive('`?` applied to %r' % (v,))

    def e_tuple(self, e, env, ctx, hint):
        hs = [None] * len(e['elems'])
        if hint is not None and hint['_'] == 'Type::Tuple' and len(hint['elems']) == len(hs):
            hs = hint['elems']
        return tuple(self._own(self.eval(x, env, ctx, h)) for x, h in zip(e['elems'], hs))

    @staticmethod
    def _own(v):
        return v

    def e_array(self, e, env, ctx, hint):
        return Vec([self.eval(x, env, ctx) for x in e['elems']], 'array')

    def e_repeat(self, e, env, ctx, hint):
        x = self.eval(e['expr'], env, ctx)
        n = deref(self.eval(e['len'], env, ctx))
        return Vec([deep_clone(x) for _ in range(n)], 'array')

    def e_cast(self, e, env, ctx, hint):
        v = deref(self.eval(e['expr'], env, ctx))
        h, _ = type_head(e['ty'])
        return self.B.cast(self, v, h)

    def e_closure(self, e, env, ctx, hint):
        return Closure(list(e['inputs']), e['body'], env, self, ctx)

    def e_field(self, e, env, ctx, hint):
        base = deref(self.eval(e['base'], env, ctx))
        m = e['member']
        if m['_'] == 'Member::Named':
            name = m['0']['sym']
            return self.get_field(base, name)
        idx = m['0']['index']
        if isinstance(base, tuple):
            return base[idx]
        if isinstance(base, Struct):
            return base.f[str(idx)]
        if isinstance(base, Enum) and base.ty == '#pair':
            return base.vals[idx]
        raise Inconclusive('tuple field .%d on %r' % (idx, base))

    def get_field(self, base, name):
        if isinstance(base, Struct):
            if name in base.f:
                return base.f[name]
            raise Inconclusive('no field %s on %s (fields: %s)' % (name, base.ty, sorted(base.f)))
        if isinstance(base, Enum) and len(base.vals) == 1 and isinstance(base.vals[0], Struct) and name in base.vals[0].f:
            return base.vals[0].f[name]
        raise Inconclusive('field .%s on %r' % (name, base))

    def e_index(self, e, env, ctx, hint):
        base = deref(self.eval(e['expr'], env, ctx))
        idx = deref(self.eval(e['index'], env, ctx))
        return self.B.index(self, base, idx)

    def e_range(self, e, env, ctx, hint):
        lo = deref(self.eval(e['start']['0'], env, ctx)) if e['start']['_'] == 'Some' else None
        hi = deref(self.eval(e['end']['0'], env, ctx)) if e['end']['_'] == 'Some' else None
        closed = e['limits']['_'].endswith('Closed')
        return Struct('Range', {'start': lo, 'end': hi, 'closed': closed})

    def e_struct(self, e, env, ctx, hint):
        segs = path_segments(e['path'])
        name = segs[-1]
        if name == 'Self':
            name = ctx.self_ty
        fields = {}
        sdef = self.prog.structs.get(name)
        ftypes = {}
        is_variant = False
        if len(segs) >= 2:
            ety = segs[-2]
            if ety == 'Self':
                ety = ctx.self_ty
            if ety in self.prog.enums:
                is_variant = True
                for vr in self.prog.enums[ety]['variants']:
                    if vr['ident']['sym'] == name and vr['fields']['_'] == 'Fields::Named':
                        for f in vr['fields']['named']:
                            ftypes[f['ident']['0']['sym']] = f['ty']
        if not is_variant and sdef is not None and sdef['fields']['_'] == 'Fields::Named':
            for f in sdef['fields']['named']:
                ftypes[f['ident']['0']['sym']] = f['ty']
        if e['rest']['_'] == 'Some':
            base = deref(self.eval(e['rest']['0'], env, ctx, self._named_type(name)))
            if not isinstance(base, Struct):
                raise Inconclusive('struct update base is %r' % (base,))
            for k, x in base.f.items():
                fields[k] = deep_clone(x)
        for fv in e['fields']:
            m = fv['member']
            fname = m['0']['sym'] if m['_'] == 'Member::Named' else str(m['0']['index'])
            ft = ftypes.get(fname)
            v = self.eval(fv['expr'], env, ctx, ft)
            if isinstance(v, Ref) and not self._is_ref_type(ft):
                v = v.get()
            if ft is not None:
                v = self.coerce_to_type(v, ft)
                self._note_map_type(v, ft)
            fields[fname] = v
        if is_variant:
            return Enum(ety, name, [], fields)
        if sdef is None and name not in ('Range',):
            # struct from an external crate (syn types are never built by the repository)
            pass
        return Struct(name, fields)

    @staticmethod
    def _is_ref_type(t):
        return t is not None and t['_'] == 'Type::Reference'

    @staticmethod
    def _named_type(name):
        return {'_': 'Type::Path', 'qself': {'_': 'None'},
                'path': {'_': 'Path', 'leading_colon': {'_': 'None'},
                         'segments': [{'_': 'PathSegment', 'ident': {'_': 'Ident', 'sym': name},
                                       'arguments': {'_': 'PathArguments::None'}}]}}

    def e_group(self, e, env, ctx, hint):
        return self.eval(e['expr'], env, ctx, hint)

    def e_await(self, e, env, ctx, hint):
        return self.eval(e['base'], env, ctx, hint)

    def e_macro(self, e, env, ctx, hint):
        raise Inconclusive('unsupported macro %s!' % '::'.join(path_segments(e['mac']['path'])))

    # -- calls -------------------------------------------------------------------------------
    def e_call(self, e, env, ctx, hint):
        f = e['func']
        if f['_'] == 'Expr::Path':
            segs = path_segments(f['path'])
            if len(segs) == 1 and env.lookup(segs[0]) is not None:
                fv = env.get(segs[0])
                args = [self.eval(a, env, ctx) for a in e['args']]
                return self.call_value(fv, args)
            return self.call_path_expr(f, segs, e['args'], env, ctx, hint)
        fv = self.eval(f, env, ctx)
        args = [self.eval(a, env, ctx) for a in e['args']]
        return self.call_value(fv, args)

    def path_generics(self, pnode):
        """turbofish type args on the last two segments"""
        out = []
        for seg in pnode['segments'][-2:]:
            a = seg['arguments']
            if a['_'] == 'PathArguments::AngleBracketed':
                out.append([g['0'] for g in a['args'] if g['_'] == 'GenericArgument::Type'])
            else:
                out.append([])
        return out

    def call_path_expr(self, f, segs, argnodes, env, ctx, hint):
        name = segs[-1]
        prog = self.prog
        # macros rewritten by astdump
        if name.startswith('__macro_') or name.startswith('__json_'):
            return self.B.call_macro(self, name, argnodes, env, ctx, hint)
        if len(segs) == 1:
            if name in ('Some', 'Ok', 'Err'):
                ih = None
                if hint is not None:
                    h, a = type_head(hint)
                    if name == 'Some' and h == 'Option' and a:
                        ih = a[0]
                    elif name == 'Ok' and h == 'Result' and a:
                        ih = a[0]
                    elif name == 'Err' and h == 'Result' and len(a) > 1:
                        ih = a[1]
                v = self.eval(argnodes[0], env, ctx, ih)
                if isinstance(v, Ref) and not (ih is not None and ih['_'] == 'Type::Reference'):
                    pass
                return Enum('Option' if name == 'Some' else 'Result', name, [v])
            fd = prog.find_free(segs, ctx.module)
            if fd is not None:
                args = [self.eval(a, env, ctx, pt[1]) for a, pt in zip(argnodes, fd.params)]
                return self.call_fn(fd, args, None)
            if name in prog.structs or name == 'Self':
                sname = ctx.self_ty if name == 'Self' else name
                args = [self.eval(a, env, ctx) for a in argnodes]
                return Struct(sname, {str(i): a for i, a in enumerate(args)})
            args = [self.eval(a, env, ctx) for a in argnodes]
            return self.B.call_builtin_path(self, segs, args, hint, self.path_generics(f['path']))
        ty = segs[-2]
        if ty == 'Self':
            ty = ctx.self_ty
        if ty in prog.aliases:
            ty = type_head(prog.aliases[ty])[0] or ty
        # enum variant constructor
        if ty in prog.enums:
            for vr in prog.enums[ty]['variants']:
                if vr['ident']['sym'] == name and vr['fields']['_'] == 'Fields::Unnamed':
                    fts = [x['ty'] for x in vr['fields']['unnamed']]
                    args = [self.eval(a, env, ctx, t) for a, t in zip(argnodes, fts)]
                    args = [a.get() if isinstance(a, Ref) else a for a in args]
                    return Enum(ty, name, args)
        fd = prog.find_method(ty, name)
        if fd is not None:
            if fd.has_self:
                args = [self.eval(a, env, ctx) for a in argnodes]
                return self.call_fn(fd, args[1:], args[0], ty if ty in prog.structs or ty in prog.enums else None)
            args = [self.eval(a, env, ctx, pt[1]) for a, pt in zip(argnodes, fd.params)]
            return self.call_fn(fd, args, None, ty)
        # Trait::method(recv, ..) -> dynamic dispatch
        if ty in prog.trait_methods and name in prog.trait_methods[ty]:
            args = [self.eval(a, env, ctx) for a in argnodes]
            return self._method(args[0], name, args[1:], None, None, None, hint)
        fd = prog.find_free(segs, ctx.module)
        if fd is not None:
            args = [self.eval(a, env, ctx, pt[1]) for a, pt in zip(argnodes, fd.params)]
            return self.call_fn(fd, args, None)
        # derive(Default) / Default::default() on user types
        if name == 'default' and (ty in prog.structs or ty in prog.enums):
            return self.default_of_named(ty)
        # derive(Deserialize): T::deserialize(<serde_json::Value>)
        if name == 'deserialize' and (ty in prog.structs or ty in prog.enums) and len(argnodes) == 1:
            from .models import json as J
            arg = deref(self.eval(argnodes[0], env, ctx))
            if J.is_value(arg):
                try:
                    return Ok(J.from_value(self, arg, self._named_type(ty)))
                except J.DeErr as ex:
                    return Err(Struct('serde_json::Error', {'msg': Str(str(ex))}))
        args = [self.eval(a, env, ctx) for a in argnodes]
        return self.B.call_builtin_path(self, segs[:-2] + [ty, name], args, hint, self.path_generics(f['path']))

    def _note_map_type(self, v, t):
        """remember the declared value type of a map (for entry().or_default())"""
        v = deref(v)
        if isinstance(v, HMap) and v.vty is None and t is not None:
            h, args = type_head(t)
            seen = 0
            while h in self.prog.aliases and seen < 5:
                h, args = type_head(self.prog.aliases[h])
                seen += 1
            if h in ('HashMap', 'BTreeMap') and len(args) == 2:
                v.vty = args[1]

    def default_of_named(self, ty):
        fd = self.prog.methods.get((ty, 'default'))
        if fd is not None:
            return self.call_fn(fd, [], None, ty)
        st = self.prog.structs.get(ty)
        if st is not None:
            f = {}
            if st['fields']['_'] == 'Fields::Named':
                for fl in st['fields']['named']:
                    f[fl['ident']['0']['sym']] = self.default_of_type(fl['ty'])
            return Struct(ty, f)
        en = self.prog.enums.get(ty)
        if en is not None:
            for vr in en['variants']:
                for a in vr['attrs']:
                    if path_segments(a['meta']['path']) == ['default']:
                        return Enum(ty, vr['ident']['sym'], [])
        raise Inconclusive('Default for %s' % ty)

    def default_of_type(self, t):
        h, args = type_head(t)
        if h in self.prog.aliases:
            return self.default_of_type(self.prog.aliases[h])
        if h in ('String', 'str'):
            return Str('')
        if h in UNSIGNED:
            return UInt(0)
        if h in SIGNED:
            return 0
        if h in ('f32', 'f64'):
            return Float(0.0, '0')
        if h == 'bool':
            return False
        if h == 'Option':
            return mk_none()
        if h in ('Vec', 'VecDeque'):
            return Vec([])
        if h == 'HashMap':
            return HMap([], False, args[1] if len(args) == 2 else None)
        if h == 'BTreeMap':
            return HMap([], True, args[1] if len(args) == 2 else None)
        if h == 'HashSet':
            return HSet([])
        if h == 'BTreeSet':
            return HSet([], True)
        if h == '()':
            return tuple(self.default_of_type(a) for a in args)
        if h == 'PathBuf':
            return Str('')
        if h == 'Box' and args:
            return self.default_of_type(args[0])
        if h in self.prog.structs or h in self.prog.enums:
            return self.default_of_named(h)
        raise Inconclusive('Default for type %s' % h)

    def e_method(self, e, env, ctx, hint):
        name = e['method']['sym']
        recv_node = e['receiver']
        pl = self.place(recv_node, env, ctx, autoderef=True)
        if pl is not None:
            recv = pl.get()
        else:
            recv = self.eval(recv_node, env, ctx)
        tf = None
        if e['turbofish']['_'] == 'Some':
            tf = [g['0'] for g in e['turbofish']['0']['args'] if g['_'] == 'GenericArgument::Type']
        return self._method(recv, name, e['args'], env, ctx, pl, hint, tf)

    def _method(self, recv, name, args, env, ctx, pl, hint, turbofish=None):
        """args: list of arg nodes (if env is not None) or list of values"""
        rv = deref(recv)
        tyname = self.B.type_name_of(rv)
        fd = None
        if tyname is not None:
            fd = self.prog.find_method(tyname, name)
            if fd is None:
                for alias in self.B.type_aliases_of(rv):
                    fd = self.prog.find_method(alias, name)
                    if fd is not None:
                        break
        if fd is not None and fd.has_self:
            if env is not None:
                argv = [self.eval(a, env, ctx, pt[1]) for a, pt in zip(args, fd.params)]
            else:
                argv = args
            selfv = recv if isinstance(recv, Ref) else rv
            if isinstance(rv, IMMUTABLE_KINDS) and pl is not None and not isinstance(recv, Ref):
                selfv = Ref(pl.get, pl.set)
            return self.call_fn(fd, argv, selfv, tyname if (tyname in self.prog.structs or tyname in self.prog.enums) else None)
        if env is not None:
            argv = self.B.eval_method_args(self, rv, name, args, env, ctx, hint)
        else:
            argv = args
        return self.B.call_method(self, rv, name, argv, pl, hint, turbofish, ctx)

    # -- places ------------------------------------------------------------------------------
    def place(self, e, env, ctx, autoderef=False, for_assign=False):
        k = e['_']
        if k == 'Expr::Path':
            segs = path_segments(e['path'])
            if len(segs) != 1:
                return None
            name = segs[0]
            en = env.lookup(name)
            if en is None:
                return None
            cur = en.vars[name]
            if isinstance(cur, Ref) and (autoderef):
                return Place(lambda r=cur: deref(r), lambda v, r=cur: self._ref_set(r, v))

            def setter(v, en=en, name=name):
                en.vars[name] = v
            return Place(lambda en=en, name=name: en.vars[name], setter)
        if k == 'Expr::Paren' or k == 'Expr::Group':
            return self.place(e['expr'], env, ctx, autoderef, for_assign)
        if k == 'Expr::Field':
            bpl = self.place(e['base'], env, ctx, autoderef=True)
            if bpl is not None:
                base = deref(bpl.get())
            else:
                base = deref(self.eval(e['base'], env, ctx))
            m = e['member']
            if m['_'] == 'Member::Named':
                name = m['0']['sym']
                if isinstance(base, Struct):
                    d = base.f
                elif isinstance(base, Enum) and len(base.vals) == 1 and isinstance(base.vals[0], Struct):
                    d = base.vals[0].f
                else:
                    raise Inconclusive('field place .%s on %r' % (name, base))
                if name not in d and not for_assign:
                    raise Inconclusive('no field %s on %s' % (name, getattr(base, 'ty', base)))

                def setter(v, d=d, name=name):
                    d[name] = v

                def getter(d=d, name=name):
                    v = d[name]
                    return deref(v) if autoderef else v
                return Place(getter, setter)
            idx = m['0']['index']
            if isinstance(base, Struct):
                d = base.f

                def setter(v, d=d, k=str(idx)):
                    d[k] = v
                return Place(lambda d=d, k=str(idx): d[k], setter)
            if isinstance(base, tuple):
                if bpl is None:
                    return None

                def setter(v, bpl=bpl, idx=idx):
                    t = list(deref(bpl.get()))
                    t[idx] = v
                    bpl.set(tuple(t))
                return Place(lambda bpl=bpl, idx=idx: deref(bpl.get())[idx], setter)
            return None
        if k == 'Expr::Index':
            bpl = self.place(e['expr'], env, ctx, autoderef=True)
            base = deref(bpl.get()) if bpl is not None else deref(self.eval(e['expr'], env, ctx))
            idx = deref(self.eval(e['index'], env, ctx))
            if isinstance(base, Vec) and not isinstance(idx, Struct):
                if is_sym(idx):
                    raise Inconclusive('symbolic vector index')
                if idx < 0 or idx >= len(base.v):
                    raise RustPanic('index out of bounds: the len is %d but the index is %d' % (len(base.v), idx))

                def setter(v, base=base, idx=idx):
                    base.v[idx] = v
                return Place(lambda base=base, idx=idx: base.v[idx], setter)
            if isinstance(base, HMap):
                i = base.find(idx)
                if i < 0:
                    raise RustPanic('key not found in map index')

                def setter(v, base=base, i=i):
                    base.items[i][1] = v
                return Place(lambda base=base, i=i: base.items[i][1], setter)
            return None
        if k == 'Expr::Unary' and e['op']['_'] == 'UnOp::Deref':
            inner = self.place(e['expr'], env, ctx, autoderef=False)
            if inner is None:
                v = self.eval(e['expr'], env, ctx)
                if isinstance(v, Ref):
                    return Place(v.get, v.set)
                return None
            cur = inner.get()
            if isinstance(cur, Ref):
                return Place(lambda r=cur: r.get(), lambda v, r=cur: self._ref_set(r, v))
            return inner
        if k == 'Expr::Reference':
            return None
        return None

    @staticmethod
    def _ref_set(r, v):
        # follow chains of references to the final cell
        while True:
            cur = r.get()
            if isinstance(cur, Ref):
                r = cur
            else:
                break
        r.set(v)

    DISPATCH = {}


Interp.DISPATCH = {
    'Expr::Lit': Interp.e_lit, 'Expr::Paren': Interp.e_paren, 'Expr::Path': Interp.e_path,
    'Expr::Reference': Interp.e_reference, 'Expr::Unary': Interp.e_unary, 'Expr::Binary': Interp.e_binary,
    'Expr::Assign': Interp.e_assign, 'Expr::Block': Interp.e_block, 'Expr::If': Interp.e_if,
    'Expr::Let': Interp.e_let, 'Expr::Match': Interp.e_match, 'Expr::While': Interp.e_while,
    'Expr::Loop': Interp.e_loop, 'Expr::ForLoop': Interp.e_for, 'Expr::Break': Interp.e_break,
    'Expr::Continue': Interp.e_continue, 'Expr::Return': Interp.e_return, 'Expr::Try': Interp.e_try,
    'Expr::Tuple': Interp.e_tuple, 'Expr::Array': Interp.e_array, 'Expr::Repeat': Interp.e_repeat,
    'Expr::Cast': Interp.e_cast, 'Expr::Closure': Interp.e_closure, 'Expr::Field': Interp.e_field,
    'Expr::Index': Interp.e_index, 'Expr::Range': Interp.e_range, 'Expr::Struct': Interp.e_struct,
    'Expr::Group': Interp.e_group, 'Expr::Await': Interp.e_await, 'Expr::Macro': Interp.e_macro,
    'Expr::Call': Interp.e_call, 'Expr::MethodCall': Interp.e_method, 'Expr::Unsafe': Interp.e_unsafe,
}
