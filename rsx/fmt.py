"""rsx.fmt -- format!/write! semantics (Display, Debug, {:x}, width/precision on concrete values)."""
import re
from . import values as V
from .values import Str, Ch, Struct, Enum, Vec, HMap, HSet, Float, Opaque, deref
from .engine import Inconclusive, is_sym
from . import strops

_SPEC = re.compile(r'\{\{|\}\}|\{([^{}:]*)(?::([^{}]*))?\}')


class Formatter:
    """core::fmt::Formatter model: accumulates text"""

    def __init__(self):
        self.out = Str('')
        self.alternate = False


def rust_float_display(x):
    if x != x:
        return 'NaN'
    if x in (float('inf'), float('-inf')):
        return 'inf' if x > 0 else '-inf'
    if x == int(x) and abs(x) < 1e16:
        s = str(int(x))
        if x == 0 and str(x).startswith('-'):
            s = '-0'
        return s
    r = repr(x)
    if 'e' in r or 'E' in r:
        # expand exponent notation: Rust never prints exponents with {}
        from decimal import Decimal
        r = format(Decimal(r), 'f')
    return r


def display(interp, v):
    """Display of a value -> Str"""
    v = deref(v)
    if isinstance(v, Str):
        return v
    if isinstance(v, Ch):
        return Str((v.c,))
    if isinstance(v, bool):
        return Str('true' if v else 'false')
    if isinstance(v, int):
        return Str(str(int(v)))
    if isinstance(v, Float):
        if v.v is not None:
            return Str(rust_float_display(v.v))
        return Str((Opaque('f64-display', v.text),))
    if is_sym(v):
        return Str((Opaque('int-display', v),))
    if isinstance(v, Opaque):
        return Str((v,))
    if isinstance(v, (Struct, Enum)):
        ty = v.ty
        fd = interp.prog.methods.get((ty, 'Display', 'fmt'))
        if fd is not None:
            f = Formatter()
            interp.call_fn(fd, [f], v, ty)
            return f.out
        if ty == 'Ident':
            return v.f['sym']
        if ty in ('PathBuf', 'Path', 'Display'):
            return v.f['s']
        if ty == 'TokenStream':
            from .models import syn as synm
            return synm.tokens_to_string(v)
        # error values and other foreign types: opaque rendering
        return Str((Opaque('display', v),))
    raise Inconclusive('Display of %r' % (v,))


def debug(interp, v, pretty=False):
    v = deref(v)
    if isinstance(v, Str):
        return strops.debug_escape(interp, v)
    if isinstance(v, Ch):
        return Str(tuple([39] + strops.debug_escape_char(v.c, False) + [39]))
    if isinstance(v, (bool, int)) or is_sym(v) or isinstance(v, Float):
        if isinstance(v, Float) and v.v is not None and v.v == int(v.v):
            return Str('%d.0' % int(v.v))
        return display(interp, v)
    if isinstance(v, tuple):
        if not v:
            return Str('()')
        parts = [debug(interp, x) for x in v]
        return _join('(', parts, ')' if len(parts) > 1 else ',)')
    if isinstance(v, Vec):
        return _join('[', [debug(interp, x) for x in v.v], ']')
    if isinstance(v, HSet):
        from . import iters
        items = list(iters.unordered(v.items)) if not v.ordered else v.items
        return _join('{', [debug(interp, x) for x in items], '}')
    if isinstance(v, HMap):
        from . import iters
        items = list(iters.unordered(v.items)) if not v.ordered else v.items
        parts = [debug(interp, k).concat(Str(': ')).concat(debug(interp, x)) for k, x in items]
        return _join('{', parts, '}')
    if isinstance(v, Enum):
        if v.fields is not None:
            parts = [Str(k + ': ').concat(debug(interp, x)) for k, x in v.fields.items()]
            return _join(v.var + ' { ', parts, ' }')
        if not v.vals:
            return Str(v.var)
        return _join(v.var + '(', [debug(interp, x) for x in v.vals], ')')
    if isinstance(v, Struct):
        if v.ty in ('PathBuf', 'Path'):
            return strops.debug_escape(interp, v.f['s'])
        fd = interp.prog.methods.get((v.ty, 'Debug', 'fmt'))
        if fd is not None:
            f = Formatter()
            interp.call_fn(fd, [f], v, v.ty)
            return f.out
        if not v.f:
            return Str(v.ty)
        parts = [Str(k + ': ').concat(debug(interp, x)) for k, x in v.f.items()]
        return _join(v.ty + ' { ', parts, ' }')
    if isinstance(v, Opaque):
        return Str((v,))
    raise Inconclusive('Debug of %r' % (v,))


def _join(open_, parts, close):
    out = Str(open_)
    for i, p in enumerate(parts):
        if i:
            out = out.concat(Str(', '))
        out = out.concat(p)
    return out.concat(Str(close))


def format_str(interp, fmt, args, lookup):
    """fmt: python str; args: list of positional values; lookup(name)->value for {name}"""
    out = []
    pos = 0
    nexti = 0
    for m in _SPEC.finditer(fmt):
        lit = fmt[pos:m.start()]
        if lit:
            out.extend(ord(c) for c in lit)
        pos = m.end()
        tok = m.group(0)
        if tok == '{{':
            out.append(ord('{'))
            continue
        if tok == '}}':
            out.append(ord('}'))
            continue
        name = (m.group(1) or '').strip()
        spec = m.group(2) or ''
        if name == '':
            if nexti >= len(args):
                raise Inconclusive('format string %r: missing argument' % fmt)
            val = args[nexti]
            nexti += 1
        elif name.isdigit():
            val = args[int(name)]
        else:
            val = lookup(name)
        out.extend(apply_spec(interp, val, spec, lookup, args).cs)
    lit = fmt[pos:]
    if lit:
        out.extend(ord(c) for c in lit)
    return Str(tuple(out))


_SPEC_RE = re.compile(r'^(?:(.)?([<^>]))?([+\-])?(#)?(0)?(\d+|\w+\$)?(?:\.(\d+|\*|\w+\$))?([?xXobeE]|x\?|X\?)?$')


def apply_spec(interp, val, spec, lookup, args):
    m = _SPEC_RE.match(spec)
    if m is None:
        raise Inconclusive('unsupported format spec {:%s}' % spec)
    fill, align, sign, alt, zero, width, prec, ty = m.groups()
    v = deref(val)
    if ty == '?':
        s = debug(interp, v, pretty=bool(alt))
    elif ty in ('x', 'X'):
        if isinstance(v, Opaque):
            s = Str((Opaque('hex', v),))
        elif isinstance(v, int):
            s = Str(('%x' if ty == 'x' else '%X') % v)
        else:
            raise Inconclusive('{:x} of %r' % (v,))
    elif ty in ('o', 'b', 'e', 'E'):
        if isinstance(v, int):
            s = Str({'o': '%o' % v, 'b': bin(v)[2:]}.get(ty, str(v)))
        else:
            raise Inconclusive('{:%s} of %r' % (ty, v))
    else:
        if prec is not None and isinstance(v, Float):
            if v.v is None:
                raise Inconclusive('precision formatting of opaque float')
            s = Str('%.*f' % (int(prec), v.v))
        elif prec is not None and isinstance(v, Str):
            s = Str(v.cs[:int(prec)])
        else:
            s = display(interp, v)
    if width is not None:
        if width.endswith('$'):
            w = deref(lookup(width[:-1]))
        else:
            w = int(width)
        n = len(s.cs)
        if n < w:
            padc = ord(fill) if fill else (ord('0') if zero else 32)
            pad = w - n
            is_num = isinstance(v, (int, Float)) and not isinstance(v, bool)
            a = align or ('>' if is_num else '<')
            if zero and not align:
                a = '>'
            if a == '<':
                s = Str(s.cs + (padc,) * pad)
            elif a == '>':
                s = Str((padc,) * pad + s.cs)
            else:
                l = pad // 2
                s = Str((padc,) * l + s.cs + (padc,) * (pad - l))
    return s
