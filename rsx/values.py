"""rsx.values -- run-time values of the interpreted Rust subset.

Shapes are concrete on every path; scalars (ints, bools, chars) may be z3 terms.
"""
import z3
from . import engine as E
from .engine import is_sym, z_and, z_or, z_not, z_ite, RustPanic, Inconclusive

ENG = None  # current engine, set by interp.run
CALL_STACK = []  # qualified names of the Rust functions currently executing


def eng():
    return ENG


def set_engine(e):
    global ENG
    ENG = e


# ------------------------------------------------------------------------------------------------
# characters
# ------------------------------------------------------------------------------------------------

# representative non-ASCII code points (DESIGN 3.2); classes verified against native std at set-up
R_CHARS = [0xE9, 0xC9, 0xDF, 0xA0, 0x3C9, 0x3A9, 0x65E5, 0x2028, 0x20AC, 0x1F600, 0x10400, 0x10428, 0x130, 0xB2, 0x2082]
# class table, filled from native (see native/charclass) or the defaults below
R_CLASS = {
    0xE9: dict(alpha=1, upper=0, lower=1, ws=0, num=0, up=[0xC9], lo=[0xE9]),
    0xC9: dict(alpha=1, upper=1, lower=0, ws=0, num=0, up=[0xC9], lo=[0xE9]),
    0xDF: dict(alpha=1, upper=0, lower=1, ws=0, num=0, up=[0x53, 0x53], lo=[0xDF]),
    0xA0: dict(alpha=0, upper=0, lower=0, ws=1, num=0, up=[0xA0], lo=[0xA0]),
    0x3C9: dict(alpha=1, upper=0, lower=1, ws=0, num=0, up=[0x3A9], lo=[0x3C9]),
    0x3A9: dict(alpha=1, upper=1, lower=0, ws=0, num=0, up=[0x3A9], lo=[0x3C9]),
    0x65E5: dict(alpha=1, upper=0, lower=0, ws=0, num=0, up=[0x65E5], lo=[0x65E5]),
    0x2028: dict(alpha=0, upper=0, lower=0, ws=1, num=0, up=[0x2028], lo=[0x2028]),
    0x20AC: dict(alpha=0, upper=0, lower=0, ws=0, num=0, up=[0x20AC], lo=[0x20AC]),
    0x1F600: dict(alpha=0, upper=0, lower=0, ws=0, num=0, up=[0x1F600], lo=[0x1F600]),
    0x10400: dict(alpha=1, upper=1, lower=0, ws=0, num=0, up=[0x10400], lo=[0x10428]),
    0x10428: dict(alpha=1, upper=0, lower=1, ws=0, num=0, up=[0x10400], lo=[0x10428]),
    0x130: dict(alpha=1, upper=1, lower=0, ws=0, num=0, up=[0x130], lo=[0x69, 0x307]),
    # numeric for Rust's char::is_numeric / is_alphanumeric (category No) but not an identifier character in TypeScript
    0xB2: dict(alpha=0, upper=0, lower=0, ws=0, num=1, up=[0xB2], lo=[0xB2]),
    0x2082: dict(alpha=0, upper=0, lower=0, ws=0, num=1, up=[0x2082], lo=[0x2082]),
}


def utf8_width(c):
    if c < 0x80:
        return 1
    if c < 0x800:
        return 2
    if c < 0x10000:
        return 3
    return 4


def cwidth(c):
    if is_sym(c):
        return ENG.char_width.get(c.get_id(), 1)
    return utf8_width(c)


def _derived(src, new):
    """register the width of a char derived from src (ascii case mapping keeps width)"""
    if is_sym(new) and is_sym(src):
        w = ENG.char_width.get(src.get_id())
        if w is not None:
            ENG.char_width[new.get_id()] = w
    return new


def _concrete_class(c, cls):
    if c < 128:
        ch = chr(c)
        if cls == 'ws':
            return c in (9, 10, 11, 12, 13, 32)
        if cls == 'alpha':
            return ch.isalpha()
        if cls == 'upper':
            return 65 <= c <= 90
        if cls == 'lower':
            return 97 <= c <= 122
        if cls == 'num':
            return 48 <= c <= 57
        raise KeyError(cls)
    if c in R_CLASS:
        return bool(R_CLASS[c][cls])
    # outside representative set: fall back to python's tables (only reached with concrete text)
    ch = chr(c)
    if cls == 'ws':
        return ch.isspace() and c not in (0x1c, 0x1d, 0x1e, 0x1f)
    if cls == 'alpha':
        return ch.isalpha()
    if cls == 'upper':
        return ch.isupper()
    if cls == 'lower':
        return ch.islower()
    if cls == 'num':
        return ch.isnumeric()
    raise KeyError(cls)


def char_class(c, cls):
    """cls in ws alpha upper lower num ; returns bool or z3 Bool"""
    if not is_sym(c):
        return _concrete_class(c, cls)
    w = cwidth(c)
    if w == 1:
        if cls == 'ws':
            return z3.Or(z3.And(c >= 9, c <= 13), c == 32)
        if cls == 'alpha':
            return z3.Or(z3.And(c >= 65, c <= 90), z3.And(c >= 97, c <= 122))
        if cls == 'upper':
            return z3.And(c >= 65, c <= 90)
        if cls == 'lower':
            return z3.And(c >= 97, c <= 122)
        if cls == 'num':
            return z3.And(c >= 48, c <= 57)
    members = [r for r in R_CHARS if utf8_width(r) == w and R_CLASS[r][cls]]
    return z_or(*[c == r for r in members]) if members else False


def ascii_upper(c):
    if not is_sym(c):
        return c - 32 if 97 <= c <= 122 else c
    if cwidth(c) != 1:
        return c
    return _derived(c, z3.If(z3.And(c >= 97, c <= 122), c - 32, c))


def ascii_lower(c):
    if not is_sym(c):
        return c + 32 if 65 <= c <= 90 else c
    if cwidth(c) != 1:
        return c
    return _derived(c, z3.If(z3.And(c >= 65, c <= 90), c + 32, c))


def unicode_case(c, which):
    """char::to_uppercase / to_lowercase -> list of code points (forks on symbolic chars)"""
    if not is_sym(c):
        if c < 128:
            return [ascii_upper(c) if which == 'up' else ascii_lower(c)]
        if c in R_CLASS:
            return list(R_CLASS[c][which])
        s = chr(c).upper() if which == 'up' else chr(c).lower()
        return [ord(x) for x in s]
    if cwidth(c) == 1:
        return [ascii_upper(c) if which == 'up' else ascii_lower(c)]
    for r in R_CHARS:
        if utf8_width(r) == cwidth(c) and ENG.decide(c == r):
            return list(R_CLASS[r][which])
    raise E.PathAbort()


class Ch:
    __slots__ = ('c',)

    def __init__(self, c):
        self.c = c

    def __repr__(self):
        return 'Ch(%r)' % (chr(self.c) if not is_sym(self.c) else self.c,)


# ------------------------------------------------------------------------------------------------
# strings
# ------------------------------------------------------------------------------------------------


class Opaque:
    """an opaque piece of text (hash digest, float rendering, timestamp): only equality is defined"""
    __slots__ = ('kind', 'payload')

    def __init__(self, kind, payload):
        self.kind = kind
        self.payload = payload

    def __repr__(self):
        return '<%s %r>' % (self.kind, self.payload)


class Str:
    """Rust str/String value: tuple of code points (int | z3 Int | Opaque); concrete length."""
    __slots__ = ('cs', '_offs')

    def __init__(self, cs=()):
        if isinstance(cs, str):
            cs = tuple(ord(x) for x in cs)
        elif not isinstance(cs, tuple):
            cs = tuple(cs)
        self.cs = cs
        self._offs = None

    # -- helpers --
    def is_concrete(self):
        for c in self.cs:
            if not isinstance(c, int):
                return False
        return True

    def py(self):
        """python str if concrete else None"""
        try:
            return ''.join(map(chr, self.cs))
        except TypeError:
            return None

    def __repr__(self):
        out = []
        for c in self.cs:
            if isinstance(c, int):
                out.append(chr(c))
            elif isinstance(c, Opaque):
                out.append(repr(c))
            else:
                out.append('<%s>' % c)
        return 'Str(%r)' % ''.join(out)

    def offs(self):
        """byte offset of each char boundary: offs[i] = byte offset of char i; offs[n] = byte length"""
        if self._offs is None:
            o = [0]
            for c in self.cs:
                if isinstance(c, Opaque):
                    o.append(o[-1] + 1)
                else:
                    o.append(o[-1] + cwidth(c))
            self._offs = o
        return self._offs

    def blen(self):
        return self.offs()[-1]

    def char_index_of_byte(self, b, what='byte index'):
        """map byte offset to char index; panic when not on a boundary"""
        o = self.offs()
        if is_sym(b):
            raise Inconclusive('symbolic byte offset into string')
        if b < 0 or b > o[-1]:
            raise RustPanic('%s %d is out of bounds of string of length %d' % (what, b, o[-1]))
        # offs is sorted
        import bisect
        i = bisect.bisect_left(o, b)
        if i >= len(o) or o[i] != b:
            raise RustPanic('%s %d is not a char boundary' % (what, b))
        return i

    def _no_opaque(self, op):
        for c in self.cs:
            if isinstance(c, Opaque):
                raise Inconclusive('string operation %s on opaque text %r' % (op, c))

    def slice_bytes(self, a, b):
        if a is None:
            a = 0
        if b is None:
            b = self.blen()
        if is_sym(a) or is_sym(b):
            raise Inconclusive('symbolic slice bounds on string')
        if a > b:
            raise RustPanic('slice index starts at %d but ends at %d' % (a, b))
        i = self.char_index_of_byte(a, 'start byte index')
        j = self.char_index_of_byte(b, 'end byte index')
        return Str(self.cs[i:j])

    def concat(self, other):
        return Str(self.cs + other.cs)


def char_eq(a, b):
    """equality of two code points (int | z3 | Opaque) -> bool | z3 Bool"""
    if isinstance(a, int) and isinstance(b, int):
        return a == b
    if isinstance(a, Opaque) or isinstance(b, Opaque):
        if isinstance(a, Opaque) and isinstance(b, Opaque):
            if a.kind != b.kind:
                return False
            return sym_eq(a.payload, b.payload)
        # opaque text vs ordinary char: opaque chunks never equal a single ordinary char.
        return False
    # widths differ => cannot be equal
    if cwidth(a) != cwidth(b):
        return False
    return a == b


def str_eq(a, b):
    if len(a.cs) != len(b.cs):
        # an Opaque chunk stands for >=1 chars of unknown count; comparing with plain text is unknown
        if any(isinstance(c, Opaque) for c in a.cs) or any(isinstance(c, Opaque) for c in b.cs):
            return _opaque_str_eq(a, b)
        return False
    conds = []
    for x, y in zip(a.cs, b.cs):
        r = char_eq(x, y)
        if r is False:
            return False
        if r is not True:
            conds.append(r)
    return z_and(*conds)


def _opaque_str_eq(a, b):
    # strings containing opaque chunks are compared chunk-wise only when both have the same layout
    return False


def str_lt(a, b):
    """lexicographic a < b (code point order == UTF-8 byte order)"""
    a._no_opaque('cmp')
    b._no_opaque('cmp')
    n = min(len(a.cs), len(b.cs))
    # result = OR_i (prefix equal up to i and a[i] < b[i])  or (all n equal and len(a) < len(b))
    res = len(a.cs) < len(b.cs)
    for i in range(n - 1, -1, -1):
        x, y = a.cs[i], b.cs[i]
        if isinstance(x, int) and isinstance(y, int):
            if x < y:
                res = True
            elif x > y:
                res = False
            # equal: keep res
        else:
            res = z_or(x < y, z_and(x == y, res))
    return res


def starts_with_at(s, pat, i):
    """does s have pat (Str) at char index i -> bool | z3"""
    if i + len(pat.cs) > len(s.cs):
        return False
    conds = []
    for k, p in enumerate(pat.cs):
        r = char_eq(s.cs[i + k], p)
        if r is False:
            return False
        if r is not True:
            conds.append(r)
    return z_and(*conds)


# ------------------------------------------------------------------------------------------------
# generic symbolic structural equality
# ------------------------------------------------------------------------------------------------

def sym_eq(a, b):
    """structural equality of two run-time values -> bool | z3 Bool"""
    if a is b:
        return True
    if isinstance(a, Ref):
        a = a.get()
    if isinstance(b, Ref):
        b = b.get()
    if isinstance(a, Str) and isinstance(b, Str):
        return str_eq(a, b)
    if isinstance(a, Struct) and a.ty == 'Ident' and isinstance(b, Str):
        return str_eq(deref(a.f['sym']), b)
    if isinstance(b, Struct) and b.ty == 'Ident' and isinstance(a, Str):
        return str_eq(deref(b.f['sym']), a)
    if isinstance(a, Struct) and a.ty in ('PathBuf', 'OsString') and isinstance(b, Str):
        return str_eq(deref(a.f['s']), b)
    if isinstance(b, Struct) and b.ty in ('PathBuf', 'OsString') and isinstance(a, Str):
        return str_eq(deref(b.f['s']), a)
    if isinstance(a, Ch) and isinstance(b, Ch):
        return char_eq(a.c, b.c)
    if isinstance(a, bool) and isinstance(b, bool):
        return a == b
    if is_sym(a) or is_sym(b):
        if isinstance(a, bool):
            a = z3.BoolVal(a)
        if isinstance(b, bool):
            b = z3.BoolVal(b)
        return a == b
    if isinstance(a, (int, float)) and isinstance(b, (int, float)):
        return a == b
    if isinstance(a, Opaque) and isinstance(b, Opaque):
        return a.kind == b.kind and sym_eq(a.payload, b.payload)
    if isinstance(a, (tuple, list)) and isinstance(b, (tuple, list)):
        if len(a) != len(b):
            return False
        return z_and(*[sym_eq(x, y) for x, y in zip(a, b)])
    if isinstance(a, Vec) and isinstance(b, Vec):
        if len(a.v) != len(b.v):
            return False
        return z_and(*[sym_eq(x, y) for x, y in zip(a.v, b.v)])
    if isinstance(a, Enum) and isinstance(b, Enum):
        if a.var != b.var or len(a.vals) != len(b.vals):
            return False
        if a.fields is not None or b.fields is not None:
            if a.fields is None or b.fields is None or set(a.fields) != set(b.fields):
                return False
            return z_and(*[sym_eq(a.fields[k], b.fields[k]) for k in a.fields])
        return z_and(*[sym_eq(x, y) for x, y in zip(a.vals, b.vals)])
    if isinstance(a, Struct) and isinstance(b, Struct):
        if a.ty != b.ty or set(a.f) != set(b.f):
            return False
        return z_and(*[sym_eq(a.f[k], b.f[k]) for k in a.f])
    if isinstance(a, HSet) and isinstance(b, HSet):
        return set_eq(a.items, b.items)
    if isinstance(a, HMap) and isinstance(b, HMap):
        return set_eq([(k, v) for k, v in a.items], [(k, v) for k, v in b.items])
    if type(a) != type(b):
        return False
    if a == b:
        return True
    return False


def set_eq(xs, ys):
    """equality of two collections as sets of pairwise-distinct elements"""
    if len(xs) != len(ys):
        return False
    if not xs:
        return True
    # every x equals some y (elements distinct on both sides => bijection)
    return z_and(*[z_or(*[sym_eq(x, y) for y in ys]) for x in xs])


# ------------------------------------------------------------------------------------------------
# aggregates
# ------------------------------------------------------------------------------------------------

class Struct:
    __slots__ = ('ty', 'f')

    def __init__(self, ty, f=None):
        self.ty = ty
        self.f = f if f is not None else {}

    def __repr__(self):
        return '%s%r' % (self.ty, self.f)


class Enum:
    __slots__ = ('ty', 'var', 'vals', 'fields')

    def __init__(self, ty, var, vals=(), fields=None):
        self.ty = ty
        self.var = var
        self.vals = list(vals)
        self.fields = fields

    def __repr__(self):
        if self.fields is not None:
            return '%s::%s%r' % (self.ty, self.var, self.fields)
        if self.vals:
            return '%s::%s(%s)' % (self.ty, self.var, ', '.join(map(repr, self.vals)))
        return '%s::%s' % (self.ty, self.var)


def Some(v):
    return Enum('Option', 'Some', [v])


NONE = Enum('Option', 'None', [])


def mk_none():
    return Enum('Option', 'None', [])


def Ok(v):
    return Enum('Result', 'Ok', [v])


def Err(v):
    return Enum('Result', 'Err', [v])


def is_some(v):
    return isinstance(v, Enum) and v.ty == 'Option' and v.var == 'Some'


def is_none(v):
    return isinstance(v, Enum) and v.ty == 'Option' and v.var == 'None'


def opt(v):
    return mk_none() if v is None else Some(v)


class Vec:
    __slots__ = ('v', 'kind')

    def __init__(self, v=None, kind='Vec'):
        self.v = v if v is not None else []
        self.kind = kind

    def __repr__(self):
        return 'Vec%r' % (self.v,)


class HMap:
    """HashMap / BTreeMap: insertion-ordered association list; iteration order handled by Iter"""
    __slots__ = ('items', 'ordered', 'vty')

    def __init__(self, items=None, ordered=False, vty=None):
        self.items = items if items is not None else []   # list of [k, v]
        self.ordered = ordered
        self.vty = vty            # declared value type (syn Type node) when known: entry().or_default() needs it

    def __repr__(self):
        return ('BTreeMap' if self.ordered else 'HashMap') + repr(self.items)

    def find(self, key):
        """index of key (forks on symbolic keys) or -1"""
        for i, kv in enumerate(self.items):
            if ENG.decide(sym_eq(kv[0], key)):
                return i
        return -1


class HSet:
    __slots__ = ('items', 'ordered')

    def __init__(self, items=None, ordered=False):
        self.items = items if items is not None else []
        self.ordered = ordered

    def __repr__(self):
        return ('BTreeSet' if self.ordered else 'HashSet') + repr(self.items)

    def find(self, key):
        for i, k in enumerate(self.items):
            if ENG.decide(sym_eq(k, key)):
                return i
        return -1


class Ref:
    """reference cell to a place holding an immutable python value (&mut String, &mut usize, ...)"""
    __slots__ = ('get', 'set')

    def __init__(self, get, set_):
        self.get = get
        self.set = set_

    def __repr__(self):
        return 'Ref(%r)' % (self.get(),)


class Closure:
    __slots__ = ('params', 'body', 'env', 'interp', 'ctx')

    def __init__(self, params, body, env, interp, ctx):
        self.params = params
        self.body = body
        self.env = env
        self.interp = interp
        self.ctx = ctx


class FnRef:
    """reference to a named function (user or builtin), possibly with bound type"""
    __slots__ = ('path', 'fn', 'self_ty')

    def __init__(self, path, fn=None, self_ty=None):
        self.path = path
        self.fn = fn
        self.self_ty = self_ty

    def __repr__(self):
        return 'FnRef(%s)' % ('::'.join(self.path),)


class PyFn:
    """python-implemented callable value"""
    __slots__ = ('f', 'name')

    def __init__(self, f, name='<py>'):
        self.f = f
        self.name = name


class TypeVal:
    """a type used as a value position (turbofish / expected type hints)"""
    __slots__ = ('name', 'args')

    def __init__(self, name, args=()):
        self.name = name
        self.args = list(args)

    def __repr__(self):
        if self.args:
            return '%s<%s>' % (self.name, ', '.join(map(repr, self.args)))
        return self.name


class Float:
    """f64: concrete python float, or opaque token carrying its literal text (DESIGN 3.3)"""
    __slots__ = ('v', 'text')

    def __init__(self, v=None, text=None):
        self.v = v
        self.text = text

    def __repr__(self):
        return 'Float(%r,%r)' % (self.v, self.text)


def deref(v):
    while isinstance(v, Ref):
        v = v.get()
    return v


def deep_clone(v):
    if isinstance(v, Ref):
        return deep_clone(v.get())
    if isinstance(v, Vec):
        return Vec([deep_clone(x) for x in v.v], v.kind)
    if isinstance(v, Struct):
        return Struct(v.ty, {k: deep_clone(x) for k, x in v.f.items()})
    if isinstance(v, Enum):
        return Enum(v.ty, v.var, [deep_clone(x) for x in v.vals],
                    None if v.fields is None else {k: deep_clone(x) for k, x in v.fields.items()})
    if isinstance(v, HMap):
        return HMap([[deep_clone(k), deep_clone(x)] for k, x in v.items], v.ordered, getattr(v, 'vty', None))
    if isinstance(v, HSet):
        return HSet([deep_clone(k) for k in v.items], v.ordered)
    if isinstance(v, tuple):
        return tuple(deep_clone(x) for x in v)
    return v
