"""rsx.models.misc -- walkdir, chrono, indicatif (black hole), env!/CARGO_PKG_VERSION."""
import os
import re
from .. import values as V
from .. import builtins as B
from .. import iters as I
from ..values import Str, Struct, Enum, Vec, Opaque, Some, Ok, Err, mk_none, deref
from ..engine import Inconclusive
from . import fs as FS


class BlackHole:
    """objects whose behaviour is not observable by any property (progress bars, styles)"""
    @staticmethod
    def call_method(i, v, name, a, pl, h, tf, ctx):
        if name in ('unwrap', 'expect', 'clone'):
            return v
        return v


B.EXT_STRUCT_MODELS['BlackHole'] = BlackHole


class WalkDirModel:
    @staticmethod
    def call_method(i, v, name, a, pl, h, tf, ctx):
        if name in ('into_iter', 'iter'):
            return walk(i, deref(v.f['root']), v)
        if name in ('follow_links', 'max_depth', 'min_depth', 'sort_by_file_name', 'same_file_system', 'contents_first'):
            if name == 'sort_by_file_name':
                v.f['sorted'] = True
            if name == 'max_depth':
                v.f['max_depth'] = deref(a[0])
            if name == 'min_depth':
                v.f['min_depth'] = deref(a[0])
            return v
        if name == 'filter_entry':
            raise Inconclusive('WalkDir::filter_entry')
        return NotImplemented


B.EXT_STRUCT_MODELS['WalkDir'] = WalkDirModel


class WalkIter(I.Iter):
    """walkdir::IntoIter: depth-first, a directory's listing is pushed when the directory is yielded;
    sibling order is nondeterministic unless sort_by_file_name was requested"""

    def __init__(self, interp, root, wd):
        I.Iter.__init__(self, None)
        self.w = FS.world(interp)
        self.wd = wd
        self.stack = []          # list of [remaining entries, depth]
        self.started = False
        self.root = root

    def _listing(self, ent):
        kids = self.w.children(ent[0])
        if self.wd.f.get('sorted'):
            return sorted(kids, key=lambda k: k[0].py() or '')
        return list(I.unordered(kids, dir_listing=True))

    def _yield(self, ent, depth):
        maxd = self.wd.f.get('max_depth')
        if ent[1] == 'dir' and (maxd is None or depth < maxd):
            if self.w.fails('read_dir', ent[0]):
                self.stack.append([[('err', None)], depth + 1])
            else:
                self.stack.append([self._listing(ent), depth + 1])
        return Ok(Struct('DirEntry', {'path': self._spell(ent[0]), 'kind': Str(ent[1]), 'depth': B.UIntC(depth)}))

    def _spell(self, path):
        """walkdir yields paths spelled from the root as it was given (relative roots stay relative)"""
        if FS.is_absolute(self.root) and FS.is_absolute(path):
            return path
        rc = FS.components(self.w.abs(self.root))
        pc = FS.components(self.w.abs(path))
        out = FS.strip_trailing(self.root)
        for c in pc[len(rc):]:
            out = FS.join(out, c)
        return out

    def _next_raw(self):
        mind = self.wd.f.get('min_depth', 0)
        while True:
            if not self.started:
                self.started = True
                e = self.w.find(self.root)
                if e is None:
                    return Err(Struct('walkdir::Error', {'msg': Str('not found')}))
                r = self._yield(e, 0)
                if 0 >= mind:
                    return r
                continue
            while self.stack and not self.stack[-1][0]:
                self.stack.pop()
            if not self.stack:
                raise StopIteration
            lst, depth = self.stack[-1]
            ent = lst.pop(0)
            if ent[0] == 'err':
                return Err(Struct('walkdir::Error', {'msg': Str('permission denied')}))
            r = self._yield(ent, depth)
            if depth >= mind:
                return r

    def skip_current_dir(self):
        if self.stack:
            self.stack.pop()


def walk(interp, root, wd):
    return WalkIter(interp, root, wd)


def pkg_version():
    from .. import harness as H
    try:
        txt = open(os.path.join(H.REPO, 'Cargo.toml')).read()
        m = re.search(r'^version\s*=\s*"([^"]+)"', txt, re.M)
        return m.group(1)
    except OSError:
        return '0.0.0'


def _misc_paths(interp, segs, args, hint, generics):
    name = segs[-1]
    ty = segs[-2] if len(segs) >= 2 else None
    if ty in ('ProgressBar', 'ProgressStyle', 'MultiProgress'):
        return Struct('BlackHole', {})
    if ty == 'Duration':
        return Struct('BlackHole', {})
    if ty == 'WalkDir' and name == 'new':
        return Struct('WalkDir', {'root': FS.pstr(args[0])})
    if ty == 'Utc' and name == 'now':
        # the clock advances with every reading (per modelled world): two runs never see the same instant, so a
        # timestamp that leaks into a hash or a comparison shows up as a difference
        w = getattr(interp, 'fs', None)
        tick = 0
        if w is not None:
            w.clock += 1
            tick = w.clock
        return Struct('DateTime', {'t': tick})
    if ty in ('SystemTime', 'Instant') and name == 'now':
        return Struct('SystemTime', {'t': Opaque('now', None)})
    if ty == 'io' and name in ('stdout', 'stderr', 'stdin'):
        return Struct('BlackHole', {})
    return NotImplemented


B.EXT_PATH_MODELS.append(_misc_paths)


class DateTimeModel:
    @staticmethod
    def call_method(i, v, name, a, pl, h, tf, ctx):
        if name in ('to_rfc3339', 'to_rfc3339_opts', 'to_string', 'format', 'timestamp'):
            return Str((Opaque('timestamp', v.f.get('t', 0)),))
        return NotImplemented


B.EXT_STRUCT_MODELS['DateTime'] = DateTimeModel


class SystemTimeModel:
    @staticmethod
    def call_method(i, v, name, a, pl, h, tf, ctx):
        if name in ('duration_since', 'elapsed'):
            return Ok(Struct('BlackHole', {}))
        return NotImplemented


B.EXT_STRUCT_MODELS['SystemTime'] = SystemTimeModel


def env_macro(key):
    if key == 'CARGO_PKG_VERSION':
        return Str(pkg_version())
    if key == 'CARGO_PKG_NAME':
        return Str('tauri-typegen')
    return Str('<env:%s>' % key)
