"""rsx.models.syn -- the part of syn / proc_macro2 / quote the repository calls, over the data tree
produced by astdump (rsx.interp.syn_value).  Token printing follows proc_macro2's *fallback*
implementation (the one a normal binary or build script runs)."""
from .. import values as V
from .. import builtins as B
from ..values import Str, Ch, Struct, Enum, Vec, Some, Ok, Err, mk_none, deref, Opaque
from ..engine import Inconclusive, RustPanic, is_sym, z_and


def UIntC(n):
    return B.UIntC(n)


# ------------------------------------------------------------------------------------------------
# token printing
# ------------------------------------------------------------------------------------------------

def lit_src(tok):
    """source spelling of a Literal token (Struct '#lit')"""
    return deref(tok.f['src'])


def escape_for_source(value):
    """spelling of a string literal with the given (possibly symbolic) content: the canonical one a
    programmer writes -- only `"` and `\\` are escaped (other escapes are outside the bound)."""
    out = [ord('"')]
    for c in value.cs:
        if isinstance(c, int):
            if c in (34, 92):
                out.extend([92, c])
            elif c == 10:
                out.extend([92, ord('n')])
            else:
                out.append(c)
        else:
            if V.cwidth(c) == 1 and V.ENG.decide(c == 34):
                out.extend([92, 34])
            elif V.cwidth(c) == 1 and V.ENG.decide(c == 92):
                out.extend([92, 92])
            else:
                out.append(c)
    out.append(ord('"'))
    return Str(tuple(out))


def mk_str_literal(value):
    return Struct('Literal', {'lit': Struct('#lit', {'kind': Str('str'), 'value': value, 'src': escape_for_source(value)})})


def tokens_to_string(ts):
    """proc_macro2::fallback::TokenStream Display"""
    items = ts.f['items'].v
    out = []
    joint = False
    for i, tt in enumerate(items):
        tt = deref(tt)
        if i != 0 and not joint:
            out.append(32)
        joint = False
        k = tt.ty
        if k == 'Group':
            d = deref(tt.f['delimiter'])
            dn = d.ty if isinstance(d, Struct) else d.var
            inner = tokens_to_string(tt.f['stream'])
            if dn == 'Parenthesis':
                out.append(40)
                out.extend(inner.cs)
                out.append(41)
            elif dn == 'Brace':
                out.extend([123, 32])
                out.extend(inner.cs)
                if inner.cs:
                    out.append(32)
                out.append(125)
            elif dn == 'Bracket':
                out.append(91)
                out.extend(inner.cs)
                out.append(93)
            else:
                out.extend(inner.cs)
        elif k == 'Ident':
            out.extend(deref(tt.f['sym']).cs)
        elif k == 'Punct':
            sp = deref(tt.f['spacing'])
            joint = (sp.ty if isinstance(sp, Struct) else sp.var) == 'Joint'
            out.extend(deref(tt.f['char']).cs)
        elif k == 'Literal':
            out.extend(lit_src(deref(tt.f['lit'])).cs)
        else:
            raise Inconclusive('token tree %s' % k)
    return Str(tuple(out))


def path_tokens(path):
    items = []
    if deref(path.f['leading_colon']).var == 'Some':
        items += [punct(':', True), punct(':', False)]
    segs = path.f['segments'].v
    for i, s in enumerate(segs):
        if i:
            items += [punct(':', True), punct(':', False)]
        items.append(Struct('Ident', {'sym': deref(s.f['ident']).f['sym']}))
        a = deref(s.f['arguments'])
        if a.var != 'None':
            raise Inconclusive('to_token_stream of path with generic arguments')
    return items


def punct(c, joint):
    return Struct('Punct', {'char': Str(c), 'spacing': Struct('Joint' if joint else 'Alone', {})})


def meta_to_tokens(meta):
    """quote::ToTokens for syn::Meta"""
    meta = deref(meta)
    inner = meta.vals[0] if isinstance(meta, Enum) else meta
    if isinstance(meta, Enum) and meta.var == 'Path':
        return Struct('TokenStream', {'items': Vec(path_tokens(inner))})
    if (isinstance(meta, Enum) and meta.var == 'List') or (isinstance(meta, Struct) and meta.ty == 'MetaList'):
        d = deref(inner.f['delimiter'])
        dn = {'Paren': 'Parenthesis', 'Brace': 'Brace', 'Bracket': 'Bracket'}[d.var]
        g = Struct('Group', {'delimiter': Struct(dn, {}), 'stream': inner.f['tokens']})
        return Struct('TokenStream', {'items': Vec(path_tokens(deref(inner.f['path'])) + [g])})
    if isinstance(meta, Enum) and meta.var == 'NameValue':
        raise Inconclusive('to_token_stream of Meta::NameValue')
    raise Inconclusive('to_token_stream of %r' % (meta,))


def parse_meta_list(ts):
    """syn::parse2::<MetaList>: path followed by exactly one delimited group"""
    items = [deref(x) for x in ts.f['items'].v]
    if not items or items[-1].ty != 'Group':
        return Err(Struct('syn::Error', {'msg': Str('expected attribute arguments')}))
    g = items[-1]
    segs = []
    leading = mk_none()
    rest = items[:-1]
    i = 0
    if len(rest) >= 2 and rest[0].ty == 'Punct' and rest[1].ty == 'Punct':
        leading = Some(Struct('PathSep', {}))
        i = 2
    expect_ident = True
    while i < len(rest):
        t = rest[i]
        if expect_ident:
            if t.ty != 'Ident':
                return Err(Struct('syn::Error', {'msg': Str('expected identifier')}))
            segs.append(Struct('PathSegment', {'ident': Struct('Ident', {'sym': t.f['sym']}),
                                               'arguments': Enum('PathArguments', 'None', [])}))
            expect_ident = False
            i += 1
        else:
            if i + 1 < len(rest) and t.ty == 'Punct' and rest[i + 1].ty == 'Punct':
                i += 2
                expect_ident = True
            else:
                return Err(Struct('syn::Error', {'msg': Str('unexpected token')}))
    if not segs or expect_ident:
        return Err(Struct('syn::Error', {'msg': Str('expected path')}))
    d = deref(g.f['delimiter'])
    dn = d.ty if isinstance(d, Struct) else d.var
    if dn == 'None':
        return Err(Struct('syn::Error', {'msg': Str('expected delimiter')}))
    delim = Enum('MacroDelimiter', {'Parenthesis': 'Paren', 'Brace': 'Brace', 'Bracket': 'Bracket'}[dn], [Struct('Paren', {})])
    path = Struct('Path', {'leading_colon': leading, 'segments': Vec(segs, 'Punctuated')})
    return Ok(Struct('MetaList', {'path': path, 'delimiter': delim, 'tokens': g.f['stream']}))


# ------------------------------------------------------------------------------------------------
# methods
# ------------------------------------------------------------------------------------------------

def path_is_ident(path, s):
    segs = path.f['segments'].v
    if len(segs) != 1 or deref(path.f['leading_colon']).var == 'Some':
        return False
    seg = deref(segs[0])
    if deref(seg.f['arguments']).var != 'None':
        return False
    return V.str_eq(deref(seg.f['ident']).f['sym'], s)


class IdentModel:
    @staticmethod
    def call_method(i, v, name, a, pl, h, tf, ctx):
        if name == 'to_string':
            return deref(v.f['sym'])
        if name == 'span':
            return Struct('Span', {})
        if name in ('eq', 'ne'):
            r = ident_eq(v, deref(a[0]))
            return r if name == 'eq' else V.z_not(r)
        if name == 'unraw':
            s = deref(v.f['sym'])
            if len(s.cs) >= 2 and s.cs[0] == ord('r') and s.cs[1] == ord('#'):
                return Struct('Ident', {'sym': Str(s.cs[2:])})
            return v
        return NotImplemented


def ident_eq(idv, other):
    s = deref(idv.f['sym'])
    if isinstance(other, Struct) and other.ty == 'Ident':
        return V.str_eq(s, deref(other.f['sym']))
    if isinstance(other, Str):
        return V.str_eq(s, other)
    raise Inconclusive('Ident == %r' % (other,))


class SpanModel:
    @staticmethod
    def call_method(i, v, name, a, pl, h, tf, ctx):
        if name in ('start', 'end'):
            if 'line' in v.f:
                return Struct('LineColumn', {'line': v.f['line'], 'column': v.f['column']})
            return Struct('LineColumn', {'line': UIntC(1), 'column': UIntC(0)})
        return NotImplemented


class SynErrorModel:
    """syn::Error of a failed parse: its span is an arbitrary position of the source text
    (line 0 = call-site span without location), chosen nondeterministically when asked for"""
    @staticmethod
    def call_method(i, v, name, a, pl, h, tf, ctx):
        if name == 'span':
            if 'span' not in v.f:
                text = v.f.get('text')
                py = text.py() if isinstance(text, Str) else None
                if py is None:
                    v.f['span'] = Struct('Span', {'line': UIntC(1), 'column': UIntC(0)})
                else:
                    lines = py.split('\n')
                    ln = V.ENG.choose(len(lines) + 1)
                    if ln == 0:
                        v.f['span'] = Struct('Span', {'line': UIntC(0), 'column': UIntC(0)})
                    else:
                        col = V.ENG.choose(len(lines[ln - 1]) + 1)
                        v.f['span'] = Struct('Span', {'line': UIntC(ln), 'column': UIntC(col)})
            return v.f['span']
        if name in ('to_string', 'to_compile_error', 'into_compile_error'):
            return Str((Opaque('syn-error', None),))
        return NotImplemented


class PathModel:
    @staticmethod
    def call_method(i, v, name, a, pl, h, tf, ctx):
        if name == 'is_ident':
            return path_is_ident(v, deref(a[0]))
        if name == 'get_ident':
            segs = v.f['segments'].v
            if len(segs) == 1 and deref(v.f['leading_colon']).var == 'None' and deref(deref(segs[0]).f['arguments']).var == 'None':
                return Some(deref(segs[0]).f['ident'])
            return mk_none()
        if name == 'require_ident':
            r = PathModel.call_method(i, v, 'get_ident', a, pl, h, tf, ctx)
            return Ok(r.vals[0]) if r.var == 'Some' else Err(Struct('syn::Error', {'msg': Str('expected ident')}))
        if name == 'to_token_stream':
            return Struct('TokenStream', {'items': Vec(path_tokens(v))})
        return NotImplemented


class AttributeModel:
    @staticmethod
    def call_method(i, v, name, a, pl, h, tf, ctx):
        if name == 'path':
            return meta_path(deref(v.f['meta']))
        if name == 'parse_nested_meta':
            return attr_parse_nested_meta(i, v, a[0])
        if name == 'parse_args_with':
            return attr_parse_args_with(i, v, a[0])
        if name == 'parse_args':
            raise Inconclusive('Attribute::%s is not modelled' % name)
        if name == 'to_token_stream':
            raise Inconclusive('Attribute::to_token_stream')
        return NotImplemented


# ---- syn::meta::ParseNestedMeta (syn 2: Attribute::parse_nested_meta) ----------------------------

def syn_err(msg):
    return Err(Struct('syn::Error', {'msg': Str(msg)}))


def _is_punct(t, ch):
    return t.ty == 'Punct' and V.ENG.decide(V.str_eq(deref(t.f['char']), Str(ch)))


def _buf(items):
    return Struct('ParseBuffer', {'items': [deref(x) for x in items], 'pos': 0})


def _buf_empty(b):
    return b.f['pos'] >= len(b.f['items'])


def _parse_meta_path(b):
    """syn::meta::parse_meta_path: [::] ident (:: ident)*  (keywords are accepted as identifiers)"""
    items = b.f['items']
    segs = []
    leading = mk_none()
    if b.f['pos'] + 1 < len(items) and _is_punct(items[b.f['pos']], ':') and _is_punct(items[b.f['pos'] + 1], ':'):
        leading = Some(Struct('PathSep', {}))
        b.f['pos'] += 2
    while True:
        if _buf_empty(b) or items[b.f['pos']].ty != 'Ident':
            return None
        segs.append(Struct('PathSegment', {'ident': Struct('Ident', {'sym': items[b.f['pos']].f['sym']}),
                                           'arguments': Enum('PathArguments', 'None', [])}))
        b.f['pos'] += 1
        if b.f['pos'] + 1 < len(items) and _is_punct(items[b.f['pos']], ':') and _is_punct(items[b.f['pos'] + 1], ':'):
            b.f['pos'] += 2
            continue
        break
    return Struct('Path', {'leading_colon': leading, 'segments': Vec(segs, 'Punctuated')})


def nested_meta_loop(interp, b, logic):
    while True:
        path = _parse_meta_path(b)
        if path is None:
            return syn_err('unexpected token in nested attribute, expected ident')
        r = deref(interp.call_value(logic, [Struct('ParseNestedMeta', {'path': path, 'input': b})]))
        if isinstance(r, Enum) and r.var == 'Err':
            return r
        if _buf_empty(b):
            return Ok(())
        if not _is_punct(b.f['items'][b.f['pos']], ','):
            return syn_err('expected `,`')
        b.f['pos'] += 1
        if _buf_empty(b):
            return Ok(())


def attr_parse_nested_meta(interp, attr, logic):
    meta = deref(attr.f['meta'])
    if meta.var != 'List':
        return syn_err('expected attribute arguments in parentheses')
    ml = deref(meta.vals[0])
    b = _buf(deref(ml.f['tokens']).f['items'].v)
    if _buf_empty(b):
        return Ok(())
    return nested_meta_loop(interp, b, logic)


def attr_parse_args_with(interp, attr, parser):
    """Attribute::parse_args_with for the one parser shape attribute code uses: Punctuated::<Path, Token![,]>::parse_terminated
    (a comma separated list of paths, trailing comma allowed).  Anything else is outside the model."""
    f = deref(parser)
    pname = None
    if isinstance(f, V.FnRef):
        pname = f.path[-1] if getattr(f, 'path', None) else None
    if pname != 'parse_terminated':
        raise Inconclusive('Attribute::parse_args_with(%r) is not modelled' % (f,))
    meta = deref(attr.f['meta'])
    if meta.var != 'List':
        return syn_err('expected attribute arguments in parentheses')
    b = _buf(deref(deref(meta.vals[0]).f['tokens']).f['items'].v)
    out = []
    while not _buf_empty(b):
        path = _parse_meta_path(b)
        if path is None:
            return syn_err('expected path')
        out.append(path)
        if _buf_empty(b):
            break
        if not _is_punct(b.f['items'][b.f['pos']], ','):
            return syn_err('expected `,`')
        b.f['pos'] += 1
    return Ok(Vec(out, 'Punctuated'))


class ParseNestedMetaModel:
    @staticmethod
    def call_method(i, v, name, a, pl, h, tf, ctx):
        b = v.f['input']
        if name == 'value':
            if _buf_empty(b) or not _is_punct(b.f['items'][b.f['pos']], '='):
                return syn_err('expected `=`')
            b.f['pos'] += 1
            return Ok(b)
        if name == 'parse_nested_meta':
            if _buf_empty(b) or b.f['items'][b.f['pos']].ty != 'Group':
                return syn_err('expected parentheses')
            g = b.f['items'][b.f['pos']]
            d = deref(g.f['delimiter'])
            if (d.ty if isinstance(d, Struct) else d.var) != 'Parenthesis':
                return syn_err('expected parentheses')
            b.f['pos'] += 1
            inner = _buf(deref(g.f['stream']).f['items'].v)
            if _buf_empty(inner):
                return Ok(())
            return nested_meta_loop(i, inner, a[0])
        if name == 'error':
            return Struct('syn::Error', {'msg': Str('nested meta error')})
        return NotImplemented


class ParseBufferModel:
    @staticmethod
    def call_method(i, v, name, a, pl, h, tf, ctx):
        items = v.f['items']
        if name == 'is_empty':
            return _buf_empty(v)
        if name == 'parse':
            target = None
            if tf:
                target = tf[0]
            elif h is not None:
                from ..interp import type_head
                hh, ha = type_head(h)
                target = ha[0] if hh == 'Result' and ha else h
            if target is None:
                raise Inconclusive('ParseStream::parse without a target type')
            from ..interp import type_head
            tn, _ = type_head(target)
            if _buf_empty(v):
                return syn_err('unexpected end of input')
            t = items[v.f['pos']]
            if tn == 'LitStr':
                if t.ty != 'Literal' or deref(deref(t.f['lit']).f['kind']).py() != 'str':
                    return syn_err('expected string literal')
                v.f['pos'] += 1
                return Ok(Struct('LitStr', {'token': deref(t.f['lit'])}))
            if tn == 'Ident':
                if t.ty != 'Ident':
                    return syn_err('expected identifier')
                v.f['pos'] += 1
                return Ok(Struct('Ident', {'sym': t.f['sym']}))
            if tn in ('Lit', 'Expr'):
                # a literal (optionally negative number) -- enough for attribute values; anything else is outside the model
                if t.ty == 'Literal':
                    v.f['pos'] += 1
                    return Ok(Struct('OpaqueSyn', {'what': Str(tn)}))
                raise Inconclusive('ParseStream::parse::<%s> on a non-literal token' % tn)
            raise Inconclusive('ParseStream::parse::<%s>' % tn)
        return NotImplemented


def meta_path(meta):
    if isinstance(meta, Enum):
        if meta.var == 'Path':
            return meta.vals[0]
        return deref(meta.vals[0]).f['path']
    return meta.f['path']


class MetaModel:
    """methods on the Meta enum are dispatched through enum_method below"""
    @staticmethod
    def call(i, v, name, a):
        if name == 'path':
            return meta_path(v)
        if name == 'require_list':
            if v.var == 'List':
                return Ok(v.vals[0])
            return Err(Struct('syn::Error', {'msg': Str('expected attribute arguments in parentheses')}))
        if name == 'require_name_value':
            if v.var == 'NameValue':
                return Ok(v.vals[0])
            return Err(Struct('syn::Error', {'msg': Str('expected name = value')}))
        if name == 'require_path_only':
            if v.var == 'Path':
                return Ok(v.vals[0])
            return Err(Struct('syn::Error', {'msg': Str('unexpected arguments')}))
        if name == 'to_token_stream':
            return meta_to_tokens(v)
        return NotImplemented


class MetaListModel:
    @staticmethod
    def call_method(i, v, name, a, pl, h, tf, ctx):
        if name == 'to_token_stream':
            return meta_to_tokens(v)
        if name in ('parse_args', 'parse_args_with', 'parse_nested_meta'):
            raise Inconclusive('MetaList::%s is not modelled' % name)
        return NotImplemented


class TokenStreamModel:
    @staticmethod
    def call_method(i, v, name, a, pl, h, tf, ctx):
        if name == 'to_string':
            return tokens_to_string(v)
        if name == 'is_empty':
            return len(v.f['items'].v) == 0
        if name in ('to_token_stream', 'into_token_stream'):
            return v
        if name == 'into_iter':
            return B.I.from_list(list(v.f['items'].v))
        return NotImplemented


class LitStrModel:
    @staticmethod
    def call_method(i, v, name, a, pl, h, tf, ctx):
        if name == 'value':
            return deref(deref(v.f['token']).f['value'])
        if name == 'token':
            return v.f['token']
        return NotImplemented


class LitNumModel:
    @staticmethod
    def call_method(i, v, name, a, pl, h, tf, ctx):
        tok = deref(v.f['token'])
        if name == 'base10_digits':
            return deref(tok.f['digits'])
        if name == 'suffix':
            return deref(tok.f['suffix'])
        if name == 'base10_parse':
            return B.call_method(i, deref(tok.f['digits']), 'parse', [], None, h, tf, ctx)
        if name == 'to_string':
            return deref(tok.f['src'])
        return NotImplemented


class LitBoolModel:
    @staticmethod
    def call_method(i, v, name, a, pl, h, tf, ctx):
        if name == 'value':
            return v.f['value']
        return NotImplemented


class SimpleSpanned:
    @staticmethod
    def call_method(i, v, name, a, pl, h, tf, ctx):
        if name == 'span':
            return Struct('Span', {})
        return NotImplemented


def enum_method(i, v, name, a):
    """methods on syn enums (values of class Enum)"""
    if v.ty == 'Meta':
        return MetaModel.call(i, v, name, a)
    if v.ty == 'PathArguments':
        if name == 'is_empty':
            if v.var == 'None':
                return True
            if v.var == 'AngleBracketed':
                return len(deref(v.vals[0]).f['args'].v) == 0
            return False
        if name == 'is_none':
            return v.var == 'None'
    if v.ty == 'Fields':
        if name in ('iter', 'into_iter'):
            if v.var == 'Unit':
                return B.I.from_list([])
            inner = deref(v.vals[0])
            return B.I.from_list(list(inner.f['named' if v.var == 'Named' else 'unnamed'].v))
        if name == 'len':
            if v.var == 'Unit':
                return UIntC(0)
            inner = deref(v.vals[0])
            return UIntC(len(inner.f['named' if v.var == 'Named' else 'unnamed'].v))
        if name == 'is_empty':
            return enum_method(i, v, 'len', a) == 0
    if name == 'span':
        return Struct('Span', {})
    if name == 'to_token_stream' and v.ty == 'Type':
        raise Inconclusive('Type::to_token_stream')
    return NotImplemented


B.EXT_STRUCT_MODELS['syn::Error'] = SynErrorModel
for _n, _m in (('Ident', IdentModel), ('Span', SpanModel), ('Path', PathModel), ('Attribute', AttributeModel),
               ('MetaList', MetaListModel), ('TokenStream', TokenStreamModel), ('LitStr', LitStrModel), ('ParseNestedMeta', ParseNestedMetaModel), ('ParseBuffer', ParseBufferModel),
               ('LitInt', LitNumModel), ('LitFloat', LitNumModel), ('LitBool', LitBoolModel)):
    B.EXT_STRUCT_MODELS[_n] = _m
for _n in ('ItemFn', 'Signature', 'ExprMethodCall', 'ExprCall', 'Field', 'Variant', 'ItemStruct', 'ItemEnum', 'PatType',
           'ExprPath', 'ExprLit', 'Local', 'Block', 'TypePath', 'PathSegment'):
    B.EXT_STRUCT_MODELS[_n] = SimpleSpanned


def _syn_paths(interp, segs, args, hint, generics):
    t = segs[-2:] if len(segs) >= 2 else segs
    if segs[-1] == 'parse2' or t == ['syn', 'parse2']:
        target = None
        if generics and generics[-1]:
            from ..interp import type_head
            target, _ = type_head(generics[-1][0])
        elif hint is not None:
            from ..interp import type_head
            hh, ha = type_head(hint)
            if hh == 'Result' and ha:
                target, _ = type_head(ha[0])
        if target == 'MetaList':
            return parse_meta_list(deref(args[0]))
        raise Inconclusive('syn::parse2::<%s>' % target)
    if segs[-1] in ('parse_file', 'parse_str') and (len(segs) == 1 or segs[-2] == 'syn'):
        h = interp.hooks.get('syn::' + segs[-1])
        if h is None:
            raise Inconclusive('syn::%s without harness hook' % segs[-1])
        return h(deref(args[0]))
    return NotImplemented


B.EXT_PATH_MODELS.append(_syn_paths)
