"""rsx.models.tera -- interpreter for the subset of Tera 1.x the repository's templates use.
Templates are read from the current tree by the `template!` macro model; filters registered from Rust
(`register_filter`) are the repository's own functions and are executed by the Rust interpreter."""
import os
import re

from .. import values as V
from .. import builtins as B
from ..values import Str, Ch, Struct, Enum, Vec, HMap, Float, Opaque, Some, Ok, Err, mk_none, deref
from ..engine import Inconclusive, is_sym, z_and, z_or, z_not
from . import json as J

decide = B.decide


class TeraError(Exception):
    pass


# ------------------------------------------------------------------------------------------------
# parsing
# ------------------------------------------------------------------------------------------------

TOK = re.compile(r'''\s*(?:(?P<num>\d+\.\d+|\d+)|(?P<str>"[^"]*"|'[^']*'|`[^`]*`)|(?P<id>[A-Za-z_][A-Za-z0-9_]*)|(?P<op>==|!=|<=|>=|[-+*/%<>()\[\].,|=:~]))''')


def tokenize(src):
    out = []
    i = 0
    src = src.strip()
    while i < len(src):
        m = TOK.match(src, i)
        if not m or m.end() == i:
            raise Inconclusive('tera: cannot tokenize %r at %d' % (src, i))
        i = m.end()
        if m.group('num') is not None:
            out.append(('num', m.group('num')))
        elif m.group('str') is not None:
            out.append(('str', m.group('str')[1:-1]))
        elif m.group('id') is not None:
            out.append(('id', m.group('id')))
        else:
            out.append(('op', m.group('op')))
    return out


class P:
    def __init__(self, toks):
        self.t = toks
        self.i = 0

    def peek(self, k=0):
        return self.t[self.i + k] if self.i + k < len(self.t) else ('eof', None)

    def next(self):
        x = self.peek()
        self.i += 1
        return x

    def accept(self, kind, val=None):
        x = self.peek()
        if x[0] == kind and (val is None or x[1] == val):
            self.i += 1
            return True
        return False

    def expect(self, kind, val=None):
        if not self.accept(kind, val):
            raise Inconclusive('tera: expected %s %s at %r' % (kind, val, self.t[self.i:]))

    # logic_expr: or < and < not < comparison
    def expr(self):
        l = self.and_()
        while self.accept('id', 'or'):
            l = ('or', l, self.and_())
        return l

    def and_(self):
        l = self.not_()
        while self.accept('id', 'and'):
            l = ('and', l, self.not_())
        return l

    def not_(self):
        if self.accept('id', 'not'):
            return ('not', self.not_())
        return self.cmp()

    def cmp(self):
        l = self.add()
        x = self.peek()
        if x[0] == 'op' and x[1] in ('==', '!=', '<', '>', '<=', '>='):
            self.next()
            return ('cmp', x[1], l, self.add())
        if x == ('id', 'in'):
            self.next()
            return ('in', l, self.add())
        if x == ('id', 'is'):
            self.next()
            neg = self.accept('id', 'not')
            name = self.next()[1]
            args = []
            if self.accept('op', '('):
                while not self.accept('op', ')'):
                    args.append(self.expr())
                    self.accept('op', ',')
            t = ('test', name, l, args)
            return ('not', t) if neg else t
        return l

    def add(self):
        l = self.mul()
        while self.peek()[0] == 'op' and self.peek()[1] in ('+', '-', '~'):
            op = self.next()[1]
            l = ('math', op, l, self.mul())
        return l

    def mul(self):
        l = self.postfix()
        while self.peek()[0] == 'op' and self.peek()[1] in ('*', '/', '%'):
            op = self.next()[1]
            l = ('math', op, l, self.postfix())
        return l

    def postfix(self):
        a = self.atom()
        while self.accept('op', '|'):
            name = self.next()[1]
            args = {}
            if self.accept('op', '('):
                while not self.accept('op', ')'):
                    k = self.next()[1]
                    self.expect('op', '=')
                    args[k] = self.expr()
                    self.accept('op', ',')
            a = ('filter', name, a, args)
        return a

    def atom(self):
        k, v = self.next()
        if k == 'num':
            return ('lit', J.jnum(Float(float(v), v) if '.' in v else int(v)))
        if k == 'str':
            return ('lit', J.jstr(v))
        if k == 'op' and v == '(':
            e = self.expr()
            self.expect('op', ')')
            return e
        if k == 'op' and v == '[':
            items = []
            while not self.accept('op', ']'):
                items.append(self.expr())
                self.accept('op', ',')
            return ('array', items)
        if k == 'op' and v == '-':
            return ('math', '-', ('lit', J.jnum(0)), self.atom())
        if k == 'id':
            if v in ('true', 'True'):
                return ('lit', J.jbool(True))
            if v in ('false', 'False'):
                return ('lit', J.jbool(False))
            if self.peek() == ('op', '('):
                self.next()
                args = {}
                while not self.accept('op', ')'):
                    kk = self.next()[1]
                    self.expect('op', '=')
                    args[kk] = self.expr()
                    self.accept('op', ',')
                return ('call', v, args)
            path = [('name', v)]
            while True:
                if self.accept('op', '.'):
                    kk, vv = self.next()
                    path.append(('name', vv))
                elif self.peek() == ('op', '['):
                    self.next()
                    path.append(('index', self.expr()))
                    self.expect('op', ']')
                else:
                    break
            return ('ident', path)
        raise Inconclusive('tera: unexpected token %r' % ((k, v),))


def parse_expr(src):
    p = P(tokenize(src))
    e = p.expr()
    if p.peek()[0] != 'eof':
        raise Inconclusive('tera: trailing tokens in %r' % src)
    return e


TAG = re.compile(r'\{\{-?|\{%-?|\{#-?')


def parse_template(src):
    """-> list of nodes: ('text', str) | ('var', expr) | ('if', [(cond, body)], else_body) |
    ('for', key, val, expr, body, else_body) | ('set', name, expr, global) | ('include', name, ignore)"""
    # 1. split into raw segments
    segs = []
    i = 0
    n = len(src)
    while i < n:
        m = TAG.search(src, i)
        if not m:
            segs.append(['text', src[i:]])
            break
        if m.start() > i:
            segs.append(['text', src[i:m.start()]])
        open_ = m.group(0)
        kind = open_[1]
        close = {'{': '}}', '%': '%}', '#': '#}'}[kind]
        j = src.find(close, m.end())
        if j < 0:
            raise Inconclusive('tera: unterminated tag')
        inner = src[m.end():j]
        ltrim = open_.endswith('-')
        rtrim = inner.endswith('-')
        if rtrim:
            inner = inner[:-1]
        segs.append([{'{': 'var', '%': 'stmt', '#': 'comment'}[kind], inner.strip(), ltrim, rtrim])
        i = j + 2
    # 2. whitespace control
    for k, s in enumerate(segs):
        if s[0] == 'text':
            continue
        if s[2] and k > 0 and segs[k - 1][0] == 'text':
            segs[k - 1][1] = segs[k - 1][1].rstrip()
        if s[3] and k + 1 < len(segs) and segs[k + 1][0] == 'text':
            segs[k + 1][1] = segs[k + 1][1].lstrip()
    # 3. build tree
    pos = [0]

    def block(until):
        out = []
        while pos[0] < len(segs):
            s = segs[pos[0]]
            if s[0] == 'text':
                pos[0] += 1
                if s[1]:
                    out.append(('text', s[1]))
                continue
            if s[0] == 'comment':
                pos[0] += 1
                continue
            if s[0] == 'var':
                pos[0] += 1
                out.append(('var', parse_expr(s[1]), s[1]))
                continue
            words = s[1].split(None, 1)
            kw = words[0]
            rest = words[1] if len(words) > 1 else ''
            if kw in until:
                return out, kw, rest
            pos[0] += 1
            if kw == 'if':
                arms = []
                cond = parse_expr(rest)
                else_body = None
                while True:
                    body, endkw, endrest = block(('elif', 'else', 'endif'))
                    pos[0] += 1
                    arms.append((cond, body))
                    if endkw == 'elif':
                        cond = parse_expr(endrest)
                        continue
                    if endkw == 'else':
                        else_body, endkw2, _ = block(('endif',))
                        pos[0] += 1
                    break
                out.append(('if', arms, else_body))
            elif kw == 'for':
                m2 = re.match(r'^([A-Za-z_][A-Za-z0-9_]*)(?:\s*,\s*([A-Za-z_][A-Za-z0-9_]*))?\s+in\s+(.*)$', rest, re.S)
                if not m2:
                    raise Inconclusive('tera: bad for tag %r' % rest)
                body, endkw, _ = block(('else', 'endfor'))
                pos[0] += 1
                else_body = None
                if endkw == 'else':
                    else_body, _, _ = block(('endfor',))
                    pos[0] += 1
                if m2.group(2):
                    out.append(('for', m2.group(1), m2.group(2), parse_expr(m2.group(3)), body, else_body))
                else:
                    out.append(('for', None, m2.group(1), parse_expr(m2.group(3)), body, else_body))
            elif kw in ('set', 'set_global'):
                m2 = re.match(r'^([A-Za-z_][A-Za-z0-9_]*)\s*=\s*(.*)$', rest, re.S)
                out.append(('set', m2.group(1), parse_expr(m2.group(2)), kw == 'set_global'))
            elif kw == 'include':
                m2 = re.match(r'^"([^"]*)"(\s+ignore\s+missing)?$', rest.strip())
                if not m2:
                    raise Inconclusive('tera: include %r' % rest)
                out.append(('include', m2.group(1), bool(m2.group(2))))
            elif kw in ('break', 'continue'):
                out.append((kw,))
            else:
                raise Inconclusive('tera: unsupported tag %r' % kw)
        if until:
            raise Inconclusive('tera: missing %s' % (until,))
        return out, None, None

    tree, _, _ = block(())
    return tree


# ------------------------------------------------------------------------------------------------
# rendering
# ------------------------------------------------------------------------------------------------

class Break(Exception):
    pass


class Continue(Exception):
    pass


def truthy(j):
    j = deref(j)
    k = j.var
    if k == 'Null':
        return False
    if k == 'Bool':
        return decide(j.vals[0])
    if k == 'String':
        return len(j.vals[0].cs) > 0
    if k == 'Number':
        n = j.vals[0]
        if isinstance(n, Float):
            return n.v is None or n.v != 0
        return decide(z_not(n == 0)) if is_sym(n) else n != 0
    if k == 'Array':
        return len(j.vals[0].v) > 0
    if k == 'Object':
        return len(j.vals[0].items) > 0
    return True


def render_value(interp, j):
    j = deref(j)
    k = j.var
    if k == 'String':
        return j.vals[0]
    if k == 'Number':
        n = j.vals[0]
        if isinstance(n, Float):
            return B.F.display(interp, n) if n.v is None or n.v != int(n.v) else Str(repr(n.v))
        return B.F.display(interp, n)
    if k == 'Bool':
        return Str('true') if decide(j.vals[0]) else Str('false')
    if k == 'Null':
        return Str('')
    if k == 'Array':
        out = Str('[')
        for i, x in enumerate(j.vals[0].v):
            if i:
                out = out.concat(Str(', '))
            out = out.concat(render_value(interp, x))
        return out.concat(Str(']'))
    if k == 'Object':
        return Str('[object]')
    raise Inconclusive('tera render of %r' % (j,))


class Renderer:
    def __init__(self, interp, tera):
        self.interp = interp
        self.tera = tera
        self.scopes = []
        self.out = []

    def lookup(self, name):
        for s in reversed(self.scopes):
            if name in s:
                return s[name]
        raise TeraError('Variable `%s` not found in context' % name)

    def eval_ident(self, path):
        base = path[0][1]
        cur = deref(self.lookup(base))
        full = base
        for kind, x in path[1:]:
            if kind == 'name':
                key = x
                full += '.' + x
            else:
                kv = deref(self.eval(x))
                if kv.var == 'String':
                    key = kv.vals[0]
                elif kv.var == 'Number':
                    key = int(kv.vals[0])
                else:
                    raise TeraError('bad index')
            cur = deref(cur)
            if cur.var == 'Object':
                idx = cur.vals[0].find(Str(key) if isinstance(key, str) else key) if not isinstance(key, int) else -1
                if idx < 0:
                    raise TeraError('Variable `%s` not found in context while rendering' % full)
                cur = cur.vals[0].items[idx][1]
            elif cur.var == 'Array':
                try:
                    ik = int(key) if not isinstance(key, Str) else int(key.py())
                except (TypeError, ValueError):
                    raise TeraError('Variable `%s` not found in context' % full)
                if ik < 0 or ik >= len(cur.vals[0].v):
                    raise TeraError('Variable `%s` not found in context' % full)
                cur = cur.vals[0].v[ik]
            else:
                raise TeraError('Variable `%s` not found in context' % full)
        return cur

    def eval(self, e):
        k = e[0]
        if k == 'lit':
            return e[1]
        if k == 'ident':
            return self.eval_ident(e[1])
        if k == 'filter':
            name, inner, args = e[1], e[2], e[3]
            if name == 'default':
                try:
                    v = self.eval(inner)
                    if deref(v).var != 'Null':
                        return v
                except TeraError:
                    if inner[0] != 'ident':
                        raise
                if 'value' not in args:
                    raise TeraError('The `default` filter requires a `value` argument.')
                return self.eval(args['value'])
            v = self.eval(inner)
            return self.apply_filter(name, v, {kk: self.eval(x) for kk, x in args.items()})
        if k in ('or', 'and', 'not', 'cmp', 'in', 'test'):
            return J.jbool(self.eval_bool(e))
        if k == 'math':
            op, l, r = e[1], deref(self.eval(e[2])), deref(self.eval(e[3]))
            if op == '~':
                return J.jstr(render_value(self.interp, l).concat(render_value(self.interp, r)))
            if l.var != 'Number' or r.var != 'Number':
                raise TeraError('math on non-numbers')
            return J.jnum(self.interp.binop({'+': 'Add', '-': 'Sub', '*': 'Mul', '/': 'Div', '%': 'Rem'}[op], l.vals[0], r.vals[0]))
        if k == 'array':
            return J.jarr([self.eval(x) for x in e[1]])
        if k == 'call':
            raise Inconclusive('tera function call %s()' % e[1])
        raise Inconclusive('tera expr %r' % (e,))

    def eval_bool(self, e):
        k = e[0]
        if k == 'or':
            return self.eval_bool(e[1]) or self.eval_bool(e[2])
        if k == 'and':
            return self.eval_bool(e[1]) and self.eval_bool(e[2])
        if k == 'not':
            return not self.eval_bool(e[1])
        if k == 'cmp':
            op = e[1]
            l, r = deref(self.eval(e[2])), deref(self.eval(e[3]))
            if op in ('==', '!='):
                eq = self.json_eq(l, r)
                return decide(eq) if op == '==' else not decide(eq)
            if l.var != 'Number' or r.var != 'Number':
                raise TeraError('comparison of non-numbers')
            a, b = l.vals[0], r.vals[0]
            a = a.v if isinstance(a, Float) else a
            b = b.v if isinstance(b, Float) else b
            return decide({'<': a < b, '>': a > b, '<=': a <= b, '>=': a >= b}[op])
        if k == 'in':
            l, r = deref(self.eval(e[1])), deref(self.eval(e[2]))
            if r.var == 'Array':
                return any(decide(self.json_eq(l, deref(x))) for x in r.vals[0].v)
            if r.var == 'String' and l.var == 'String':
                return decide(B.S.s_contains(self.interp, r.vals[0], l.vals[0]))
            if r.var == 'Object' and l.var == 'String':
                return r.vals[0].find(l.vals[0]) >= 0
            raise TeraError('in on unsupported container')
        if k == 'test':
            name = e[1]
            try:
                v = deref(self.eval(e[2]))
            except TeraError:
                v = None
            if name == 'defined':
                return v is not None
            if name == 'undefined':
                return v is None
            if v is None:
                raise TeraError('test on undefined')
            if name == 'string':
                return v.var == 'String'
            if name == 'number':
                return v.var == 'Number'
            if name == 'iterable':
                return v.var in ('Array', 'Object')
            if name == 'object':
                return v.var == 'Object'
            raise Inconclusive('tera test %s' % name)
        # plain value: undefined identifiers are falsy in conditions
        try:
            v = self.eval(e)
        except TeraError:
            if e[0] in ('ident', 'filter'):
                return False
            raise
        return truthy(v)

    def json_eq(self, l, r):
        if l.var != r.var:
            return False
        if l.var == 'Number':
            a, b = l.vals[0], r.vals[0]
            a = a.v if isinstance(a, Float) else a
            b = b.v if isinstance(b, Float) else b
            return a == b
        return V.sym_eq(l, r)

    def apply_filter(self, name, v, args):
        v = deref(v)
        f = self.tera.f['filters'].get(name)
        if f is not None:
            amap = HMap([[Str(k), x] for k, x in args.items()])
            r = deref(self.interp.call_value(f, [v, amap]))
            if r.var == 'Err':
                raise TeraError('Filter `%s` failed' % name)
            return r.vals[0]
        if name == 'length':
            if v.var == 'Array':
                return J.jnum(len(v.vals[0].v))
            if v.var == 'Object':
                return J.jnum(len(v.vals[0].items))
            if v.var == 'String':
                return J.jnum(len(v.vals[0].cs))
            raise TeraError('length of non-collection')
        if name == 'replace':
            if v.var != 'String':
                raise TeraError('replace on non-string')
            return J.jstr(B.S.s_replace(self.interp, v.vals[0], deref(args['from']).vals[0], deref(args['to']).vals[0]))
        if name in ('lower', 'upper', 'trim', 'capitalize'):
            if v.var != 'String':
                raise TeraError('%s on non-string' % name)
            s = v.vals[0]
            if name == 'lower':
                return J.jstr(B.S.s_unicode_case(s, 'lo'))
            if name == 'upper':
                return J.jstr(B.S.s_unicode_case(s, 'up'))
            if name == 'trim':
                return J.jstr(B.S.s_trim(self.interp, s))
            raise Inconclusive('tera filter capitalize')
        if name == 'safe':
            return v
        if name == 'join':
            sep = deref(args['sep']).vals[0] if 'sep' in args else Str('')
            out = Str('')
            for i, x in enumerate(v.vals[0].v):
                if i:
                    out = out.concat(sep)
                out = out.concat(render_value(self.interp, x))
            return J.jstr(out)
        if name == 'first':
            xs = v.vals[0].v
            return xs[0] if xs else J.jnull()
        if name == 'last':
            xs = v.vals[0].v
            return xs[-1] if xs else J.jnull()
        if name == 'json_encode':
            return J.jstr(J.to_text(self.interp, v, False))
        raise TeraError('Filter `%s` not found' % name)

    def emit(self, s):
        self.out.append(s)

    def render_nodes(self, nodes):
        for n in nodes:
            k = n[0]
            if k == 'text':
                self.emit(Str(n[1]))
            elif k == 'var':
                v = self.eval(n[1])
                self.emit(render_value(self.interp, v))
            elif k == 'if':
                done = False
                for cond, body in n[1]:
                    if self.eval_bool(cond):
                        self.render_nodes(body)
                        done = True
                        break
                if not done and n[2] is not None:
                    self.render_nodes(n[2])
            elif k == 'for':
                _, kname, vname, expr, body, else_body = n
                c = deref(self.eval(expr))
                if c.var == 'Array':
                    items = [(None, x) for x in c.vals[0].v]
                elif c.var == 'Object':
                    items = [(J.jstr(kk), x) for kk, x in B.sorted_pairs(self.interp, c.vals[0].items)]
                elif c.var == 'String':
                    items = [(None, J.jstr(Str((ch,)))) for ch in c.vals[0].cs]
                else:
                    raise TeraError('for over non-iterable')
                if not items and else_body is not None:
                    self.render_nodes(else_body)
                total = len(items)
                for i, (kk, x) in enumerate(items):
                    scope = {vname: x, 'loop': J.jobj([('index', J.jnum(i + 1)), ('index0', J.jnum(i)),
                                                      ('first', J.jbool(i == 0)), ('last', J.jbool(i == total - 1))])}
                    if kname:
                        scope[kname] = kk
                    self.scopes.append(scope)
                    try:
                        self.render_nodes(body)
                    except Break:
                        self.scopes.pop()
                        break
                    except Continue:
                        pass
                    self.scopes.pop()
            elif k == 'set':
                v = self.eval(n[2])
                if n[3]:
                    self.scopes[0][n[1]] = v
                else:
                    self.scopes[-1][n[1]] = v
            elif k == 'include':
                t = self.tera.f['templates'].get(n[1])
                if t is None:
                    if n[2]:
                        continue
                    raise TeraError('Template `%s` not found' % n[1])
                self.render_nodes(get_tree(self.tera, n[1]))
            elif k == 'break':
                raise Break()
            elif k == 'continue':
                raise Continue()
            else:
                raise Inconclusive('tera node %r' % (k,))


_TREE_CACHE = {}


def get_tree(tera, name):
    src = tera.f['templates'][name]
    key = (name, src)
    t = _TREE_CACHE.get(key)
    if t is None:
        t = parse_template(src)
        _TREE_CACHE[key] = t
    return t


def render(interp, tera, name, context):
    if name not in tera.f['templates']:
        return Err(Struct('tera::Error', {'msg': Str("Template '%s' not found" % name)}))
    r = Renderer(interp, tera)
    r.scopes = [dict(context.f['data'])]
    try:
        r.render_nodes(get_tree(tera, name))
    except TeraError as ex:
        return Err(Struct('tera::Error', {'msg': Str(str(ex))}))
    cs = []
    for s in r.out:
        cs.extend(s.cs)
    return Ok(Str(tuple(cs)))


class TeraModel:
    @staticmethod
    def call_method(i, v, name, a, pl, h, tf, ctx):
        if name == 'add_raw_template':
            v.f['templates'][deref(a[0]).py()] = deref(a[1]).py()
            return Ok(())
        if name == 'register_filter':
            v.f['filters'][deref(a[0]).py()] = a[1]
            return ()
        if name == 'render':
            return render(i, v, deref(a[0]).py(), deref(a[1]))
        if name == 'autoescape_on':
            return ()
        if name == 'get_template_names':
            return B.I.from_list([Str(k) for k in v.f['templates']])
        return NotImplemented


class ContextModel:
    @staticmethod
    def call_method(i, v, name, a, pl, h, tf, ctx):
        if name == 'insert':
            v.f['data'][deref(a[0]).py()] = J.to_value(i, a[1])
            return ()
        if name == 'get':
            x = v.f['data'].get(deref(a[0]).py())
            return Some(x) if x is not None else mk_none()
        return NotImplemented


class TeraErrorModel:
    @staticmethod
    def call_method(i, v, name, a, pl, h, tf, ctx):
        if name == 'source':
            return mk_none()
        if name == 'to_string':
            return v.f['msg']
        return NotImplemented


B.EXT_STRUCT_MODELS['Tera'] = TeraModel
B.EXT_STRUCT_MODELS['Context'] = ContextModel
B.EXT_STRUCT_MODELS['tera::Error'] = TeraErrorModel


def _tera_paths(interp, segs, args, hint, generics):
    t = segs[-2:] if len(segs) >= 2 else segs
    if t in (['Tera', 'default'], ['Tera', 'new']):
        if t[1] == 'new':
            raise Inconclusive('Tera::new(glob)')
        return Struct('Tera', {'templates': {}, 'filters': {}})
    if t == ['Context', 'new']:
        return Struct('Context', {'data': {}})
    if t == ['Error', 'source'] and args and isinstance(deref(args[0]), Struct):
        return mk_none()
    return NotImplemented


B.EXT_PATH_MODELS.append(_tera_paths)


def template_macro(interp, argnodes, env, ctx):
    """model of the repository's `template!(tera, name, path)` macro_rules: add_raw_template(name,
    include_str!(path)) with path relative to the invoking source file (read from the current tree)"""
    tera = deref(interp.eval(argnodes[0], env, ctx))
    name = deref(interp.eval(argnodes[1], env, ctx)).py()
    rel = deref(interp.eval(argnodes[2], env, ctx)).py()
    base = os.path.dirname(ctx.fn.file)
    p = os.path.normpath(os.path.join(base, rel))
    try:
        src = open(p, encoding='utf-8').read()
    except OSError:
        raise Inconclusive('template file %s not found (include_str!)' % p)
    reg = getattr(interp, 'templates_read', None)
    if reg is not None:
        reg[p] = src
    tera.f['templates'][name] = src
    return ()
