"""rsx.models.fs -- std::path and std::fs over a small in-memory world with an effect log.

Paths are Struct('PathBuf', {'s': Str}).  The world is a list of entries (path Str, kind, content);
look-ups compare paths with the solver, so entries may carry symbolic names.  Every mutating call
first asks the harness' fault oracle whether it fails (DESIGN 3.3)."""
from .. import values as V
from .. import builtins as B
from .. import iters as I
from ..values import Str, Ch, Struct, Enum, Vec, Some, Ok, Err, mk_none, deref, Opaque
from ..engine import Inconclusive, RustPanic, is_sym, z_and, z_or, z_not

decide = B.decide
SEP = ord('/')


def mkpath(s):
    if isinstance(s, str):
        s = Str(s)
    return Struct('PathBuf', {'s': s})


def pstr(p):
    p = deref(p)
    if isinstance(p, Struct) and p.ty in ('PathBuf', 'Path', 'OsString', 'OsStr'):
        return deref(p.f['s'])
    if isinstance(p, Str):
        return p
    raise Inconclusive('not a path: %r' % (p,))


def io_error(kind, msg=''):
    return Struct('io::Error', {'kind': Str(kind), 'msg': Str(msg)})


# ---- lexical path operations -------------------------------------------------------------------

def components(s):
    """split on '/', dropping empty and '.' components (std::path::Components semantics, unix)"""
    parts = B.S.s_split(None, s, Ch(SEP))
    out = []
    for i, p in enumerate(parts):
        if len(p.cs) == 0:
            continue
        if len(p.cs) == 1 and decide(V.char_eq(p.cs[0], ord('.'))) and not (i == 0):
            continue
        out.append(p)
    return out


def is_absolute(s):
    return len(s.cs) > 0 and decide(V.char_eq(s.cs[0], SEP))


def join(a, b):
    if is_absolute(b):
        return b
    if len(a.cs) == 0:
        return b
    if decide(V.char_eq(a.cs[-1], SEP)):
        return a.concat(b)
    return Str(a.cs + (SEP,) + b.cs)


def strip_trailing(s):
    cs = s.cs
    n = len(cs)
    while n > 1 and decide(V.char_eq(cs[n - 1], SEP)):
        n -= 1
    return Str(cs[:n])


def file_name(s):
    s = strip_trailing(s)
    if len(s.cs) == 0:
        return None
    if len(s.cs) == 1 and decide(V.char_eq(s.cs[0], SEP)):
        return None
    idx = None
    for i in range(len(s.cs) - 1, -1, -1):
        if decide(V.char_eq(s.cs[i], SEP)):
            idx = i
            break
    name = Str(s.cs[idx + 1:]) if idx is not None else s
    if decide(V.str_eq(name, Str('..'))):
        return None
    return name


def parent(s):
    s = strip_trailing(s)
    if len(s.cs) == 0:
        return None
    idx = None
    for i in range(len(s.cs) - 1, -1, -1):
        if decide(V.char_eq(s.cs[i], SEP)):
            idx = i
            break
    if idx is None:
        return Str('')
    if idx == 0:
        if len(s.cs) == 1:
            return None
        return Str('/')
    return strip_trailing(Str(s.cs[:idx]))


def extension(s):
    fn = file_name(s)
    if fn is None:
        return None
    idx = None
    for i in range(len(fn.cs) - 1, -1, -1):
        if decide(V.char_eq(fn.cs[i], ord('.'))):
            idx = i
            break
    if idx is None or idx == 0:
        return None
    return Str(fn.cs[idx + 1:])


def file_stem(s):
    fn = file_name(s)
    if fn is None:
        return None
    idx = None
    for i in range(len(fn.cs) - 1, -1, -1):
        if decide(V.char_eq(fn.cs[i], ord('.'))):
            idx = i
            break
    if idx is None or idx == 0:
        return fn
    return Str(fn.cs[:idx])


def norm_eq(a, b):
    """are two path strings the same file lexically (component-wise)?"""
    ca, cb = components(a), components(b)
    if is_absolute(a) != is_absolute(b) or len(ca) != len(cb):
        return False
    return z_and(*[V.str_eq(x, y) for x, y in zip(ca, cb)])


# ---- world -------------------------------------------------------------------------------------

class World:
    def __init__(self):
        self.entries = []   # [path Str, kind 'file'|'dir', content Str|None]
        self.log = []       # effects: (op, path Str, extra)
        self.fault = None   # callable(op, path Str) -> bool  (True: this call fails)
        self.clock = 0
        self.cwd = Str('/')

    def abs(self, s):
        """absolute, lexically normalised form of a path (relative paths are resolved against cwd)"""
        if not is_absolute(s):
            s = join(self.cwd, s)
        out = []
        for c in components(s):
            if len(c.cs) == 2 and decide(V.str_eq(c, Str('..'))):
                if out:
                    out.pop()
                continue
            out.append(c)
        r = Str('')
        for c in out:
            r = Str(r.cs + (SEP,) + c.cs)
        return r if out else Str('/')

    def add_file(self, path, content=''):
        self.entries.append([Str(path) if isinstance(path, str) else path, 'file',
                             Str(content) if isinstance(content, str) else content])

    def add_dir(self, path):
        self.entries.append([Str(path) if isinstance(path, str) else path, 'dir', None])

    def find(self, s):
        s = self.abs(s)
        for e in self.entries:
            if decide(norm_eq(self.abs(e[0]), s)):
                return e
        return None

    def fails(self, op, s):
        if self.fault is None:
            return False
        return self.fault(op, s)

    def effect(self, op, s, extra=None):
        self.log.append((op, s, extra))

    def children(self, s):
        s = self.abs(s)
        base = components(s)
        out = []
        for e in self.entries:
            c = components(self.abs(e[0]))
            if len(c) == len(base) + 1 and \
                    decide(z_and(*[V.str_eq(x, y) for x, y in zip(c, base)])):
                out.append(e)
        return out

    def descendants(self, s):
        s = self.abs(s)
        base = components(s)
        out = []
        for e in self.entries:
            c = components(self.abs(e[0]))
            if len(c) > len(base) and \
                    decide(z_and(*[V.str_eq(x, y) for x, y in zip(c, base)])):
                out.append(e)
        return out

    def snapshot(self):
        return [(e[0], e[1], e[2]) for e in self.entries]


def world(interp):
    w = getattr(interp, 'fs', None)
    if w is None:
        raise Inconclusive('file-system access without a world (harness must set interp.fs)')
    return w


def create_dir_all(w, s):
    if w.fails('create_dir_all', s):
        return Err(io_error('PermissionDenied', 'create_dir_all'))
    s = w.abs(s)
    comps = components(s)
    cur = Str('/')
    for c in comps:
        cur = join(cur, c) if len(cur.cs) else c
        e = w.find(cur)
        if e is None:
            w.entries.append([cur, 'dir', None])
            w.effect('mkdir', cur)
        elif e[1] != 'dir':
            return Err(io_error('AlreadyExists', 'not a directory'))
    return Ok(())


def write(w, s, content):
    if w.fails('write', s):
        return Err(io_error('PermissionDenied', 'write'))
    s = w.abs(s)
    par = parent(s)
    if par is not None and len(par.cs) > 0:
        pe = w.find(par)
        if pe is None or pe[1] != 'dir':
            return Err(io_error('NotFound', 'parent directory missing'))
    e = w.find(s)
    if e is not None and e[1] == 'dir':
        return Err(io_error('IsADirectory'))
    if e is None:
        w.entries.append([s, 'file', content])
        w.effect('create', s, content)
    else:
        w.effect('overwrite', s, (e[2], content))
        e[2] = content
    return Ok(())


def remove_file(w, s):
    if w.fails('remove_file', s):
        return Err(io_error('PermissionDenied', 'remove_file'))
    e = w.find(s)
    if e is None or e[1] != 'file':
        return Err(io_error('NotFound'))
    w.entries.remove(e)
    w.effect('remove', w.abs(s), e[2])
    return Ok(())


def read_to_string(w, s):
    if w.fails('read', s):
        return Err(io_error('PermissionDenied', 'read'))
    e = w.find(s)
    if e is None:
        return Err(io_error('NotFound'))
    if e[1] != 'file':
        return Err(io_error('IsADirectory'))
    return Ok(e[2])


# ---- methods -----------------------------------------------------------------------------------

class PathModel:
    @staticmethod
    def call_method(i, v, name, a, pl, h, tf, ctx):
        s = deref(v.f['s'])
        if name in ('to_string_lossy', 'display'):
            return s
        if name in ('to_str',):
            return Some(s)
        if name in ('to_path_buf', 'as_path', 'to_owned', 'clone', 'as_ref', 'into', 'into_os_string', 'as_os_str',
                    'to_os_string', 'into_boxed_path', 'as_mut_os_string'):
            return mkpath(s) if name in ('to_path_buf', 'to_owned', 'clone') else v
        if name == 'join':
            return mkpath(join(s, pstr(a[0])))
        if name == 'push':
            v.f['s'] = join(s, pstr(a[0]))
            return ()
        if name == 'pop':
            p = parent(s)
            if p is None:
                return False
            v.f['s'] = p
            return True
        if name == 'parent':
            p = parent(s)
            return Some(mkpath(p)) if p is not None else mk_none()
        if name == 'file_name':
            p = file_name(s)
            return Some(mkpath(p)) if p is not None else mk_none()
        if name == 'file_stem':
            p = file_stem(s)
            return Some(mkpath(p)) if p is not None else mk_none()
        if name == 'extension':
            p = extension(s)
            return Some(mkpath(p)) if p is not None else mk_none()
        if name == 'with_extension':
            ext = pstr(a[0])
            st = file_stem(s)
            par = parent(s)
            if st is None:
                return mkpath(s)
            fn = st if len(ext.cs) == 0 else Str(st.cs + (ord('.'),) + ext.cs)
            return mkpath(join(par, fn) if par is not None and len(par.cs) else fn)
        if name == 'with_file_name':
            par = parent(s)
            return mkpath(join(par, pstr(a[0])) if par is not None and len(par.cs) else pstr(a[0]))
        if name == 'set_extension':
            nv = PathModel.call_method(i, v, 'with_extension', a, pl, h, tf, ctx)
            v.f['s'] = nv.f['s']
            return True
        if name == 'is_absolute':
            return is_absolute(s)
        if name == 'is_relative':
            return not is_absolute(s)
        if name == 'components':
            return I.from_list([mkpath(c) for c in components(s)])
        if name == 'iter':
            return I.from_list([mkpath(c) for c in components(s)])
        if name == 'starts_with':
            b = pstr(a[0])
            ca, cb = components(s), components(b)
            if len(cb) > len(ca) or is_absolute(s) != is_absolute(b):
                return False
            return z_and(*[V.str_eq(x, y) for x, y in zip(ca, cb)])
        if name == 'ends_with':
            b = pstr(a[0])
            ca, cb = components(s), components(b)
            if len(cb) > len(ca):
                return False
            return z_and(*[V.str_eq(x, y) for x, y in zip(ca[len(ca) - len(cb):], cb)])
        if name == 'strip_prefix':
            b = pstr(a[0])
            ca, cb = components(s), components(b)
            if len(cb) > len(ca) or is_absolute(s) != is_absolute(b) or \
                    not decide(z_and(*[V.str_eq(x, y) for x, y in zip(ca, cb)])):
                return Err(Struct('StripPrefixError', {}))
            rest = ca[len(cb):]
            out = Str('')
            for k, c in enumerate(rest):
                out = c if k == 0 else Str(out.cs + (SEP,) + c.cs)
            return Ok(mkpath(out))
        if name in ('eq', 'ne'):
            r = norm_eq(s, pstr(a[0]))
            return r if name == 'eq' else z_not(r)
        if name in ('cmp', 'partial_cmp'):
            o = B.ordering(B.value_cmp(i, s, pstr(a[0])))
            return Some(o) if name == 'partial_cmp' else o
        if name == 'hash':
            return B.hash_value(i, s, a[0])
        if name in ('len', 'is_empty', 'to_string', 'contains', 'ends_with_str'):
            return B.call_method(i, s, name, a, None, h, tf, ctx)
        # file-system queries
        if name in ('exists', 'is_file', 'is_dir', 'try_exists'):
            w = world(i)
            e = w.find(s)
            if name == 'exists':
                return e is not None
            if name == 'try_exists':
                return Ok(e is not None)
            return e is not None and e[1] == ('file' if name == 'is_file' else 'dir')
        if name == 'canonicalize':
            w = world(i)
            e = w.find(s)
            if e is None:
                return Err(io_error('NotFound'))
            return Ok(mkpath(w.abs(s)))        # absolute, `.`/`..` resolved (the world has no symlinks)
        if name in ('metadata', 'symlink_metadata'):
            w = world(i)
            e = w.find(s)
            if e is None:
                return Err(io_error('NotFound'))
            return Ok(Struct('Metadata', {'kind': Str(e[1]), 'path': s}))
        if name == 'read_dir':
            return read_dir(i, s)
        return NotImplemented


def read_dir(i, s):
    w = world(i)
    e = w.find(s)
    if e is None or e[1] != 'dir':
        return Err(io_error('NotFound'))
    if w.fails('read_dir', s):
        return Err(io_error('PermissionDenied'))
    ents = [Ok(Struct('DirEntry', {'path': c[0], 'kind': Str(c[1])})) for c in w.children(s)]
    return Ok(I.unordered(ents, dir_listing=True))


class DirEntryModel:
    @staticmethod
    def call_method(i, v, name, a, pl, h, tf, ctx):
        if name == 'path':
            return mkpath(deref(v.f['path']))
        if name == 'file_name':
            return mkpath(file_name(deref(v.f['path'])))
        if name == 'file_type':
            return Ok(Struct('FileType', {'kind': v.f['kind']}))
        if name == 'metadata':
            return Ok(Struct('Metadata', {'kind': v.f['kind'], 'path': v.f['path']}))
        if name == 'into_path':
            return mkpath(deref(v.f['path']))
        if name == 'depth':
            return v.f.get('depth', B.UIntC(0))
        return NotImplemented


class MetaModel:
    @staticmethod
    def call_method(i, v, name, a, pl, h, tf, ctx):
        k = deref(v.f['kind']).py()
        if name == 'is_file':
            return k == 'file'
        if name == 'is_dir':
            return k == 'dir'
        if name == 'is_symlink':
            return False
        if name == 'len':
            return B.UIntC(0)
        if name == 'modified':
            return Ok(Struct('SystemTime', {'t': Opaque('mtime', v.f.get('path'))}))
        if name == 'permissions':
            return Struct('Permissions', {})
        return NotImplemented


class IoErrorModel:
    @staticmethod
    def call_method(i, v, name, a, pl, h, tf, ctx):
        if name == 'kind':
            return Enum('ErrorKind', deref(v.f['kind']).py(), [])
        if name == 'to_string':
            return Str((Opaque('io-error', None),))
        return NotImplemented


for _n in ('PathBuf', 'OsString', 'OsStr'):
    B.EXT_STRUCT_MODELS[_n] = PathModel
B.EXT_STRUCT_MODELS['DirEntry'] = DirEntryModel
B.EXT_STRUCT_MODELS['Metadata'] = MetaModel
B.EXT_STRUCT_MODELS['FileType'] = MetaModel


class PermModel:
    @staticmethod
    def call_method(i, v, name, a, pl, h, tf, ctx):
        if name == 'readonly':
            # the modelled world has no read-only directories (permissions are outside the claim)
            return False
        return NotImplemented


B.EXT_STRUCT_MODELS['Permissions'] = PermModel
B.EXT_STRUCT_MODELS['io::Error'] = IoErrorModel


def collect_pathbuf(interp, it):
    out = Str('')
    for c in it:
        out = join(out, pstr(c)) if len(out.cs) else pstr(c)
    return mkpath(out)


def _fs_paths(interp, segs, args, hint, generics):
    name = segs[-1]
    ty = segs[-2] if len(segs) >= 2 else None
    if ty in ('PathBuf', 'Path', 'OsString', 'OsStr'):
        if name in ('from', 'new'):
            if not args:
                return mkpath(Str(''))
            return mkpath(pstr(args[0]))
        if name in ('display', 'exists', 'is_file', 'is_dir', 'to_path_buf', 'join'):
            return PathModel.call_method(interp, deref(args[0]), name, args[1:], None, hint, None, None)
    if ty == 'fs':
        w = world(interp)
        if name == 'read_to_string':
            return read_to_string(w, pstr(args[0]))
        if name == 'read':
            return read_to_string(w, pstr(args[0]))
        if name == 'write':
            c = deref(args[1])
            if isinstance(c, Vec):
                raise Inconclusive('fs::write of raw bytes')
            return write(w, pstr(args[0]), c)
        if name == 'create_dir_all' or name == 'create_dir':
            return create_dir_all(w, pstr(args[0]))
        if name == 'remove_file':
            return remove_file(w, pstr(args[0]))
        if name == 'remove_dir_all' or name == 'remove_dir':
            s = pstr(args[0])
            if w.fails('remove_dir', s):
                return Err(io_error('PermissionDenied'))
            e = w.find(s)
            if e is None:
                return Err(io_error('NotFound'))
            for d in w.descendants(s):
                w.entries.remove(d)
                w.effect('remove', d[0], d[2])
            w.entries.remove(e)
            w.effect('rmdir', s)
            return Ok(())
        if name == 'read_dir':
            return read_dir(interp, pstr(args[0]))
        if name == 'metadata':
            return PathModel.call_method(interp, mkpath(pstr(args[0])), 'metadata', [], None, hint, None, None)
        if name == 'copy':
            r = read_to_string(w, pstr(args[0]))
            if r.var == 'Err':
                return r
            r2 = write(w, pstr(args[1]), r.vals[0])
            return r2 if r2.var == 'Err' else Ok(B.UIntC(0))
        if name == 'rename':
            src, dst = w.abs(pstr(args[0])), w.abs(pstr(args[1]))
            if w.fails('rename', src):
                return Err(io_error('PermissionDenied'))
            e = w.find(src)
            if e is None:
                return Err(io_error('NotFound'))
            old = w.find(dst)
            if old is not None:
                w.entries.remove(old)
                w.effect('overwrite', dst, (old[2], e[2]))
            else:
                w.effect('create', dst, e[2])
            w.effect('remove', src, e[2])
            e[0] = dst
            return Ok(())
        if name == 'canonicalize':
            return PathModel.call_method(interp, mkpath(pstr(args[0])), 'canonicalize', [], None, hint, None, None)
        raise Inconclusive('fs::%s is not modelled' % name)
    if ty == 'env' and name == 'current_dir':
        h = interp.hooks.get('env::current_dir')
        return Ok(mkpath(h() if h else world(interp).cwd))
    if ty == 'env' and name == 'var':
        h = interp.hooks.get('env::var')
        if h is None:
            return Err(Struct('VarError', {}))
        return h(deref(args[0]))
    return NotImplemented


B.EXT_PATH_MODELS.append(_fs_paths)
