"""rsx.models.json -- serde_json::Value, serde Serialize/Deserialize as derived from the *dumped*
struct/enum definitions and their #[serde(..)] attributes, json!, to_string(_pretty)/from_str."""
from .. import values as V
from .. import builtins as B
from .. import iters as I
from ..values import Str, Ch, Struct, Enum, Vec, HMap, HSet, Float, Opaque, Some, Ok, Err, mk_none, deref, is_none
from ..engine import Inconclusive, RustPanic, is_sym, z_and, z_or, z_not
from ..interp import path_segments, type_head, UInt

decide = B.decide


def jnull():
    return Enum('Value', 'Null', [])


def jbool(b):
    return Enum('Value', 'Bool', [b])


def jnum(n):
    return Enum('Value', 'Number', [n])


def jstr(s):
    return Enum('Value', 'String', [s if isinstance(s, Str) else Str(s)])


def jarr(xs):
    return Enum('Value', 'Array', [Vec(list(xs))])


def jobj(pairs):
    return Enum('Value', 'Object', [HMap([[k if isinstance(k, Str) else Str(k), v] for k, v in pairs], True)])


SORT_SYMBOLIC_KEYS = True


def jobj_seq(pairs):
    """object whose members print in the given order (direct serialisation)"""
    o = jobj(pairs)
    o.vals[0].ordered = False
    return o


def is_value(v):
    return isinstance(v, Enum) and v.ty == 'Value'


# ---- rename rules (serde_derive semantics, on concrete Rust identifiers of the repository's own types) ----

def rename_field(name, rule):
    if rule is None:
        return name
    words = [w for w in name.split('_')]
    if rule in ('lowercase', 'snake_case'):
        return name
    if rule == 'UPPERCASE' or rule == 'SCREAMING_SNAKE_CASE':
        return name.upper()
    if rule == 'PascalCase' or rule == 'camelCase':
        out = ''
        cap = True
        for ch in name:
            if ch == '_':
                cap = True
            elif cap:
                out += ch.upper()
                cap = False
            else:
                out += ch
        if rule == 'camelCase':
            out = out[:1].lower() + out[1:]
        return out
    if rule == 'kebab-case':
        return name.replace('_', '-')
    if rule == 'SCREAMING-KEBAB-CASE':
        return name.upper().replace('_', '-')
    raise Inconclusive('serde rename_all = %s' % rule)


def rename_variant(name, rule):
    if rule is None or rule == 'PascalCase':
        return name
    if rule == 'lowercase':
        return name.lower()
    if rule == 'UPPERCASE':
        return name.upper()
    if rule == 'camelCase':
        return name[:1].lower() + name[1:]
    snake = ''
    for i, ch in enumerate(name):
        if i > 0 and ch.isupper():
            snake += '_'
        snake += ch.lower()
    if rule == 'snake_case':
        return snake
    if rule == 'SCREAMING_SNAKE_CASE':
        return snake.upper()
    if rule == 'kebab-case':
        return snake.replace('_', '-')
    if rule == 'SCREAMING-KEBAB-CASE':
        return snake.upper().replace('_', '-')
    raise Inconclusive('serde rename_all = %s' % rule)


def serde_attrs(attrs):
    """dict of serde meta items from a list of attribute nodes (JSON AST): name -> value str | True"""
    out = {}
    for a in attrs:
        m = a['meta']
        if m['_'] != 'Meta::List' or path_segments(m['path']) != ['serde']:
            continue
        toks = m['tokens']['items']
        i = 0
        while i < len(toks):
            t = toks[i]
            if t['_'] == 'Ident':
                name = t['sym']
                if i + 2 < len(toks) + 0 and i + 1 < len(toks) and toks[i + 1]['_'] == 'Punct' and toks[i + 1]['char'] == '=':
                    lit = toks[i + 2]
                    out[name] = lit['lit'].get('value') if lit['_'] == 'Literal' else True
                    i += 3
                elif i + 1 < len(toks) and toks[i + 1]['_'] == 'Group':
                    out[name] = True
                    i += 2
                else:
                    out[name] = True
                    i += 1
            else:
                i += 1
    return out


# ---- Serialize -----------------------------------------------------------------------------------

def to_value(interp, v, direct=False):
    """serde_json::to_value for any run-time value, following the derive of its type.
    direct=True is serde_json::to_string's view: no intermediate Map, so struct fields keep declaration
    order and HashMap entries appear in (nondeterministic) iteration order"""
    v = deref(v)
    if is_value(v):
        return v
    if isinstance(v, Str):
        return jstr(v)
    if isinstance(v, Ch):
        return jstr(Str((v.c,)))
    if isinstance(v, bool) or (is_sym(v) and V.z3.is_bool(v)):
        return jbool(v)
    if isinstance(v, int) or is_sym(v) or isinstance(v, Float):
        return jnum(v)
    if isinstance(v, tuple):
        if len(v) == 0:
            return jnull()
        return jarr([to_value(interp, x, direct) for x in v])
    if isinstance(v, Vec):
        return jarr([to_value(interp, x, direct) for x in v.v])
    if isinstance(v, HSet):
        items = list(I.unordered(v.items)) if not v.ordered else B.sorted_values(interp, v.items)
        return jarr([to_value(interp, x, direct) for x in items])
    if isinstance(v, HMap):
        if direct and not v.ordered:
            return jobj_seq([(key_string(interp, k), to_value(interp, x, direct)) for k, x in I.unordered(v.items)])
        if direct:
            return jobj_seq([(key_string(interp, k), to_value(interp, x, direct)) for k, x in B.sorted_pairs(interp, v.items)])
        return jobj([(key_string(interp, k), to_value(interp, x, direct)) for k, x in v.items])
    if isinstance(v, Enum):
        if v.ty == 'Option':
            return jnull() if v.var == 'None' else to_value(interp, v.vals[0], direct)
        if v.ty == 'Result':
            return jobj([(v.var, to_value(interp, v.vals[0], direct))])
        en = interp.prog.enums.get(v.ty)
        if en is None:
            raise Inconclusive('Serialize for foreign enum %s' % v.ty)
        cattrs = serde_attrs(en['attrs'])
        if 'tag' in cattrs or 'untagged' in cattrs or 'content' in cattrs:
            raise Inconclusive('serde enum representation other than externally tagged')
        vdef = [x for x in en['variants'] if x['ident']['sym'] == v.var][0]
        vattrs = serde_attrs(vdef['attrs'])
        name = vattrs.get('rename') if isinstance(vattrs.get('rename'), str) else rename_variant(v.var, cattrs.get('rename_all'))
        kind = vdef['fields']['_']
        if kind == 'Fields::Unit':
            return jstr(name)
        if kind == 'Fields::Unnamed':
            if len(v.vals) == 1:
                return jobj([(name, to_value(interp, v.vals[0], direct))])
            return jobj([(name, jarr([to_value(interp, x, direct) for x in v.vals]))])
        pairs = []
        for f in vdef['fields']['named']:
            fn = f['ident']['0']['sym']
            fa = serde_attrs(f['attrs'])
            if 'skip' in fa or 'skip_serializing' in fa:
                continue
            pairs.append((fa['rename'] if isinstance(fa.get('rename'), str) else rename_field(fn, vattrs.get('rename_all')),
                          to_value(interp, v.fields[fn], direct)))
        return jobj([(name, (jobj_seq if direct else jobj)(pairs))])
    if isinstance(v, Struct):
        if v.ty in ('PathBuf', 'OsString'):
            return jstr(deref(v.f['s']))
        st = interp.prog.structs.get(v.ty)
        if st is None:
            raise Inconclusive('Serialize for foreign struct %s' % v.ty)
        cattrs = serde_attrs(st['attrs'])
        if st['fields']['_'] != 'Fields::Named':
            if st['fields']['_'] == 'Fields::Unit':
                return jnull()
            if len(v.f) == 1:
                return to_value(interp, v.f['0'], direct)
            return jarr([to_value(interp, v.f[str(i)], direct) for i in range(len(v.f))])
        pairs = []
        for f in st['fields']['named']:
            fn = f['ident']['0']['sym']
            fa = serde_attrs(f['attrs'])
            if 'skip' in fa or 'skip_serializing' in fa:
                continue
            if fn not in v.f:
                raise Inconclusive('struct %s value lacks field %s' % (v.ty, fn))
            x = deref(v.f[fn])
            sif = fa.get('skip_serializing_if')
            if isinstance(sif, str):
                if sif == 'Option::is_none':
                    if is_none(x):
                        continue
                elif sif in ('Vec::is_empty', 'String::is_empty', 'HashMap::is_empty'):
                    if (isinstance(x, Vec) and not x.v) or (isinstance(x, Str) and not x.cs) or (isinstance(x, HMap) and not x.items):
                        continue
                else:
                    raise Inconclusive('skip_serializing_if = %s' % sif)
            if 'flatten' in fa:
                raise Inconclusive('serde(flatten)')
            name = fa['rename'] if isinstance(fa.get('rename'), str) else rename_field(fn, cattrs.get('rename_all'))
            pairs.append((name, to_value(interp, x, direct)))
        return (jobj_seq if direct else jobj)(pairs)
    raise Inconclusive('Serialize for %r' % (v,))


def key_string(interp, k):
    k = deref(k)
    if isinstance(k, Str):
        return k
    if isinstance(k, int):
        return Str(str(int(k)))
    if isinstance(k, Struct) and k.ty == 'PathBuf':
        return deref(k.f['s'])
    raise Inconclusive('map key %r' % (k,))


# ---- Deserialize ---------------------------------------------------------------------------------

class DeErr(Exception):
    pass


def from_value(interp, j, t):
    """serde_json::from_value::<T> for a syn Type node t; raises DeErr"""
    j = deref(j)
    h, args = type_head(t)
    seen = 0
    while h in interp.prog.aliases and seen < 5:
        t = interp.prog.aliases[h]
        h, args = type_head(t)
        seen += 1
    if h == 'Self' and V.CALL_STACK and '::' in V.CALL_STACK[-1]:
        h = V.CALL_STACK[-1].rsplit('::', 1)[0].rsplit('::', 1)[-1]
    if h in ('Value',):
        return j
    if h in ('String', 'str'):
        if j.var != 'String':
            raise DeErr('expected string')
        return j.vals[0]
    if h == 'bool':
        if j.var != 'Bool':
            raise DeErr('expected bool')
        return j.vals[0]
    if h in ('usize', 'u64', 'u32', 'u16', 'u8', 'i64', 'i32', 'isize', 'i16', 'i8'):
        if j.var != 'Number':
            raise DeErr('expected number')
        n = j.vals[0]
        if isinstance(n, Float):
            raise DeErr('expected integer')
        if h.startswith('u'):
            if decide(n < 0):
                raise DeErr('negative')
            return UInt(n) if not is_sym(n) else n
        return n
    if h in ('f64', 'f32'):
        if j.var != 'Number':
            raise DeErr('expected number')
        n = j.vals[0]
        return n if isinstance(n, Float) else B.cast(interp, n, 'f64')
    if h == 'Option':
        if j.var == 'Null':
            return mk_none()
        return Some(from_value(interp, j, args[0]))
    if h in ('Vec', 'VecDeque'):
        if j.var != 'Array':
            raise DeErr('expected array')
        return Vec([from_value(interp, x, args[0]) for x in j.vals[0].v])
    if h in ('HashSet', 'BTreeSet'):
        if j.var != 'Array':
            raise DeErr('expected array')
        s = HSet([], h == 'BTreeSet')
        for x in j.vals[0].v:
            y = from_value(interp, x, args[0])
            if s.find(y) < 0:
                s.items.append(y)
        return s
    if h in ('HashMap', 'BTreeMap'):
        if j.var != 'Object':
            raise DeErr('expected object')
        m = HMap([], h == 'BTreeMap')
        for k, x in j.vals[0].items:
            m.items.append([from_value(interp, jstr(k), args[0]), from_value(interp, x, args[1])])
        return m
    if h == 'Box':
        return from_value(interp, j, args[0])
    if h == '()':
        if not args:
            return ()
        if j.var != 'Array' or len(j.vals[0].v) != len(args):
            raise DeErr('expected tuple')
        return tuple(from_value(interp, x, a) for x, a in zip(j.vals[0].v, args))
    if h == 'PathBuf':
        if j.var != 'String':
            raise DeErr('expected string')
        return Struct('PathBuf', {'s': j.vals[0]})
    if h in interp.prog.structs:
        st = interp.prog.structs[h]
        if st['fields']['_'] != 'Fields::Named':
            raise Inconclusive('Deserialize for tuple struct %s' % h)
        if j.var != 'Object':
            raise DeErr('expected object for %s' % h)
        cattrs = serde_attrs(st['attrs'])
        obj = j.vals[0]
        out = {}
        used = 0
        for f in st['fields']['named']:
            fn = f['ident']['0']['sym']
            fa = serde_attrs(f['attrs'])
            if 'skip' in fa or 'skip_deserializing' in fa:
                out[fn] = interp.default_of_type(f['ty'])
                continue
            name = fa['rename'] if isinstance(fa.get('rename'), str) else rename_field(fn, cattrs.get('rename_all'))
            idx = obj.find(Str(name))
            if idx < 0 and isinstance(fa.get('alias'), str):
                idx = obj.find(Str(fa['alias']))
            if idx < 0:
                fh, _ = type_head(f['ty'])
                if fh == 'Option':
                    out[fn] = mk_none()
                elif 'default' in fa or 'default' in cattrs:
                    d = fa.get('default')
                    if isinstance(d, str):
                        fd = interp.prog.find_free(d.split('::'), [])
                        if fd is None:
                            raise Inconclusive('serde default fn %s' % d)
                        out[fn] = interp.call_fn(fd, [], None)
                    else:
                        out[fn] = interp.default_of_type(f['ty'])
                else:
                    raise DeErr('missing field `%s`' % name)
                continue
            out[fn] = from_value(interp, obj.items[idx][1], f['ty'])
        if 'deny_unknown_fields' in cattrs:
            raise Inconclusive('deny_unknown_fields')
        return Struct(h, out)
    if h in interp.prog.enums:
        en = interp.prog.enums[h]
        cattrs = serde_attrs(en['attrs'])
        if 'tag' in cattrs or 'untagged' in cattrs:
            raise Inconclusive('serde enum representation')
        if j.var == 'String':
            for vr in en['variants']:
                va = serde_attrs(vr['attrs'])
                name = va['rename'] if isinstance(va.get('rename'), str) else rename_variant(vr['ident']['sym'], cattrs.get('rename_all'))
                if vr['fields']['_'] == 'Fields::Unit' and decide(V.str_eq(j.vals[0], Str(name))):
                    return Enum(h, vr['ident']['sym'], [])
            raise DeErr('unknown variant')
        if j.var == 'Object' and len(j.vals[0].items) == 1:
            k, x = j.vals[0].items[0]
            for vr in en['variants']:
                va = serde_attrs(vr['attrs'])
                name = va['rename'] if isinstance(va.get('rename'), str) else rename_variant(vr['ident']['sym'], cattrs.get('rename_all'))
                if not decide(V.str_eq(k, Str(name))):
                    continue
                kind = vr['fields']['_']
                if kind == 'Fields::Unnamed':
                    tys = [u['ty'] for u in vr['fields']['unnamed']]
                    if len(tys) == 1:
                        return Enum(h, vr['ident']['sym'], [from_value(interp, x, tys[0])])
                    x = deref(x)
                    if x.var != 'Array' or len(x.vals[0].v) != len(tys):
                        raise DeErr('tuple variant arity')
                    return Enum(h, vr['ident']['sym'], [from_value(interp, y, t_) for y, t_ in zip(x.vals[0].v, tys)])
                if kind == 'Fields::Named':
                    x = deref(x)
                    if x.var != 'Object':
                        raise DeErr('expected object')
                    fields = {}
                    for f in vr['fields']['named']:
                        fn = f['ident']['0']['sym']
                        fa = serde_attrs(f['attrs'])
                        nm = fa['rename'] if isinstance(fa.get('rename'), str) else rename_field(fn, va.get('rename_all'))
                        idx = x.vals[0].find(Str(nm))
                        if idx < 0:
                            raise DeErr('missing field')
                        fields[fn] = from_value(interp, x.vals[0].items[idx][1], f['ty'])
                    return Enum(h, vr['ident']['sym'], [], fields)
                if x.var == 'Null':
                    return Enum(h, vr['ident']['sym'], [])
            raise DeErr('unknown variant')
        raise DeErr('expected string or map for enum')
    raise Inconclusive('Deserialize for type %s' % h)


# ---- printing / parsing ------------------------------------------------------------------------

ESCAPE_SYMBOLIC = True


def escape_json_string(s):
    if not ESCAPE_SYMBOLIC and s.py() is None:
        # the escaped form of a symbolic string as one opaque chunk (the harness that switches this on only
        # parses the text back; serde_json's escaping itself is outside the claim)
        return Str((34, Opaque('json-escaped', s), 34))
    out = [34]
    for c in s.cs:
        if isinstance(c, Opaque):
            out.append(c)
        elif isinstance(c, int):
            if c == 34:
                out += [92, 34]
            elif c == 92:
                out += [92, 92]
            elif c == 10:
                out += [92, ord('n')]
            elif c == 13:
                out += [92, ord('r')]
            elif c == 9:
                out += [92, ord('t')]
            elif c == 8:
                out += [92, ord('b')]
            elif c == 12:
                out += [92, ord('f')]
            elif c < 32:
                out += [ord(x) for x in '\\u%04x' % c]
            else:
                out.append(c)
        else:
            if V.cwidth(c) == 1 and decide(c == 34):
                out += [92, 34]
            elif V.cwidth(c) == 1 and decide(c == 92):
                out += [92, 92]
            elif V.cwidth(c) == 1 and decide(c < 32):
                raise Inconclusive('JSON printing of symbolic control character')
            else:
                out.append(c)
    out.append(34)
    return Str(tuple(out))


def number_text(interp, n):
    if isinstance(n, Float):
        if n.v is not None:
            if n.v == int(n.v) and abs(n.v) < 1e16:
                return Str('%d.0' % int(n.v))
            return Str(repr(n.v))
        return Str((Opaque('f64-json', n.text),))
    return B.F.display(interp, n)


def to_text(interp, j, pretty, indent=0):
    j = deref(j)
    k = j.var
    if k == 'Null':
        return Str('null')
    if k == 'Bool':
        return Str('true') if decide(j.vals[0]) else Str('false')
    if k == 'Number':
        return number_text(interp, j.vals[0])
    if k == 'String':
        return escape_json_string(j.vals[0])
    nl = '\n' + '  ' * (indent + 1) if pretty else ''
    end = '\n' + '  ' * indent if pretty else ''
    if k == 'Array':
        xs = j.vals[0].v
        if not xs:
            return Str('[]')
        out = Str('[')
        for i, x in enumerate(xs):
            out = out.concat(Str((',' if i else '') + nl)).concat(to_text(interp, x, pretty, indent + 1))
        return out.concat(Str(end + ']'))
    if k == 'Object':
        m = j.vals[0]
        if not m.items:
            return Str('{}')
        if m.ordered and not SORT_SYMBOLIC_KEYS and any(deref(kk).py() is None for kk, _ in m.items):
            # member order of the printed text is not observed by the harness that switched this off
            # (the text is only parsed back): skip the n! case split of sorting symbolic keys
            items = m.items
        else:
            items = B.sorted_pairs(interp, m.items) if m.ordered else m.items
        out = Str('{')
        for i, (kk, x) in enumerate(items):
            out = out.concat(Str((',' if i else '') + nl)).concat(escape_json_string(kk))
            out = out.concat(Str(': ' if pretty else ':')).concat(to_text(interp, x, pretty, indent + 1))
        return out.concat(Str(end + '}'))
    raise Inconclusive('to_text of %r' % (j,))


def parse_text(interp, s):
    """serde_json::from_str::<Value>; concrete text only (symbolic documents are built as values by
    the harness and handed over through a marker, see JsonDoc)"""
    if len(s.cs) == 1 and isinstance(s.cs[0], Opaque) and s.cs[0].kind == 'json-doc':
        d = s.cs[0].payload
        if d is None:
            return Err(Struct('serde_json::Error', {'msg': Str('syntax error')}))
        return Ok(V.deep_clone(d))
    py = s.py()
    if py is None:
        # text that serde_json itself printed earlier in this path: parse(print(v)) == v
        for cs, val in reversed(getattr(interp, 'json_printed', [])):
            if len(cs) == len(s.cs) and all(a is b or (isinstance(a, int) and isinstance(b, int) and a == b) for a, b in zip(cs, s.cs)):
                return Ok(V.deep_clone(val))
        raise Inconclusive('serde_json::from_str on symbolic text')
    import json as pj
    try:
        d = pj.loads(py)
    except Exception:
        return Err(Struct('serde_json::Error', {'msg': Str('syntax error')}))
    return Ok(py_to_value(d))


def py_to_value(d):
    if d is None:
        return jnull()
    if isinstance(d, bool):
        return jbool(d)
    if isinstance(d, int):
        return jnum(d)
    if isinstance(d, float):
        return jnum(Float(d, repr(d)))
    if isinstance(d, str):
        return jstr(d)
    if isinstance(d, list):
        return jarr([py_to_value(x) for x in d])
    if isinstance(d, dict):
        return jobj([(k, py_to_value(x)) for k, x in d.items()])
    raise Inconclusive('json value %r' % (d,))


def json_doc_text(value):
    """a file content that *is* the given JSON value (serde_json text<->value round trip is an axiom)"""
    return Str((Opaque('json-doc', value),))


# ---- json! macro -------------------------------------------------------------------------------

def json_macro(interp, name, argnodes, env, ctx):
    if name == '__json_null':
        return jnull()
    if name == '__json_value':
        return to_value(interp, interp.eval(argnodes[0], env, ctx))
    if name == '__json_array':
        return jarr([interp.eval(a, env, ctx) for a in argnodes])
    if name == '__json_object':
        pairs = []
        for a in argnodes:
            kv = interp.eval(a, env, ctx)
            k = deref(kv[0])
            if not isinstance(k, Str):
                k = B.F.display(interp, k)
            pairs.append((k, kv[1]))
        return jobj(pairs)
    raise Inconclusive(name)


# ---- Value methods -----------------------------------------------------------------------------

def value_method(interp, j, name, a, pl, hint):
    k = j.var
    if name == 'as_str':
        return Some(j.vals[0]) if k == 'String' else mk_none()
    if name == 'as_bool':
        return Some(j.vals[0]) if k == 'Bool' else mk_none()
    if name in ('as_u64', 'as_i64', 'as_f64'):
        if k != 'Number':
            return mk_none()
        n = j.vals[0]
        if name == 'as_f64':
            return Some(n if isinstance(n, Float) else B.cast(interp, n, 'f64'))
        if isinstance(n, Float):
            return mk_none()
        if name == 'as_u64':
            if decide(n < 0):
                return mk_none()
            return Some(UInt(n) if not is_sym(n) else n)
        return Some(n)
    if name in ('as_object', 'as_object_mut'):
        return Some(j.vals[0]) if k == 'Object' else mk_none()
    if name in ('as_array', 'as_array_mut'):
        return Some(j.vals[0]) if k == 'Array' else mk_none()
    if name == 'as_null':
        return Some(()) if k == 'Null' else mk_none()
    if name in ('is_null', 'is_string', 'is_object', 'is_array', 'is_boolean', 'is_number'):
        return k == {'is_null': 'Null', 'is_string': 'String', 'is_object': 'Object', 'is_array': 'Array',
                     'is_boolean': 'Bool', 'is_number': 'Number'}[name]
    if name in ('get', 'get_mut'):
        key = deref(a[0])
        if isinstance(key, Str):
            if k != 'Object':
                return mk_none()
            idx = j.vals[0].find(key)
            return Some(j.vals[0].items[idx][1]) if idx >= 0 else mk_none()
        if k != 'Array':
            return mk_none()
        xs = j.vals[0].v
        return Some(xs[key]) if 0 <= key < len(xs) else mk_none()
    if name == 'index':
        key = deref(a[0])
        if isinstance(key, Str):
            if k == 'Object':
                idx = j.vals[0].find(key)
                if idx >= 0:
                    return j.vals[0].items[idx][1]
            return jnull()
        if k == 'Array' and 0 <= key < len(j.vals[0].v):
            return j.vals[0].v[key]
        return jnull()
    if name == 'to_string':
        return to_text(interp, j, False)
    if name == 'take':
        old = V.deep_clone(j)
        if pl is not None:
            pl.set(jnull())
        return old
    if name == 'pointer':
        raise Inconclusive('Value::pointer')
    return NotImplemented


def _json_paths(interp, segs, args, hint, generics):
    name = segs[-1]
    ty = segs[-2] if len(segs) >= 2 else None
    if ty == 'serde_json':
        if name == 'to_value':
            return Ok(to_value(interp, args[0]))
        if name in ('to_string', 'to_string_pretty'):
            jv = to_value(interp, args[0], direct=True)
            txt = to_text(interp, jv, name.endswith('pretty'))
            if txt.py() is None:
                if not hasattr(interp, 'json_printed'):
                    interp.json_printed = []
                interp.json_printed.append((txt.cs, jv))
            return Ok(txt)
        if name in ('from_value', 'from_str'):
            target = None
            if generics and generics[-1]:
                target = generics[-1][0]
            elif hint is not None:
                hh, ha = type_head(hint)
                target = ha[0] if hh == 'Result' and ha else hint
            if target is None:
                raise Inconclusive('serde_json::%s without target type' % name)
            if name == 'from_str':
                r = parse_text(interp, deref(args[0]))
                if r.var == 'Err':
                    return r
                j = r.vals[0]
            else:
                j = args[0]
            try:
                return Ok(from_value(interp, j, target))
            except DeErr as ex:
                return Err(Struct('serde_json::Error', {'msg': Str(str(ex))}))
    if ty == 'Value':
        if name == 'String':
            return jstr(deref(args[0]))
        if name == 'Bool':
            return jbool(deref(args[0]))
        if name == 'Array':
            return Enum('Value', 'Array', [deref(args[0])])
        if name == 'Object':
            return Enum('Value', 'Object', [deref(args[0])])
        if name == 'Number':
            return jnum(deref(args[0]))
        if name == 'from':
            return to_value(interp, args[0])
    if ty == 'Map' and name == 'new':
        return HMap([], True)
    if ty == 'Number' and name == 'from':
        return deref(args[0])
    return NotImplemented


B.EXT_PATH_MODELS.append(_json_paths)
