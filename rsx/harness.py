"""rsx.harness -- common driver for property checks: scenario fan-out, violation bookkeeping,
native replay, known findings, in-memory mutants (vacuity guard), evidence files."""
import glob
import hashlib
import os as os  # noqa
import json
import multiprocessing as mp
import os
import random
import subprocess
import sys
import time
import traceback

import z3

from . import engine as E
from . import values as V
from . import interp as IP
from . import sym
from .engine import Inconclusive, RustPanic, PathAbort

ROOT = os.path.dirname(os.path.dirname(os.path.abspath(__file__)))
REPO = os.environ.get('VERIF_REPO', '/repo')
CACHE = os.path.join(ROOT, '.cache')
NATIVE_BIN = os.path.join(CACHE, 'native', 'debug', 'verif-native')


def registry_dir():
    ds = sorted(glob.glob(os.path.expanduser('~/.cargo/registry/src/*/')))
    return ds[0] if ds else None


def repo_sources():
    return sorted(glob.glob(os.path.join(REPO, 'src', '**', '*.rs'), recursive=True))


def load_program(extra=()):
    """dump the *current* repository sources (plus serde-rename-rule, which the repo calls)"""
    P = IP.Program()
    P.load(repo_sources(), os.path.join(REPO, 'src'), 'crate')
    reg = registry_dir()
    lock = open(os.path.join(REPO, 'Cargo.lock')).read()
    ver = _locked_version(lock, 'serde-rename-rule')
    p = os.path.join(reg, 'serde-rename-rule-%s' % ver, 'src', 'lib.rs')
    P.load([p], None, 'serde_rename_rule')
    for crate, rel in extra:
        v = _locked_version(lock, crate)
        P.load([os.path.join(reg, '%s-%s' % (crate, v), rel)], None, crate.replace('-', '_'))
    return P


def _locked_version(lock, crate):
    import re
    m = re.search(r'name = "%s"\nversion = "([^"]+)"' % re.escape(crate), lock)
    if not m:
        raise Inconclusive('crate %s not in Cargo.lock' % crate)
    return m.group(1)


# ------------------------------------------------------------------------------------------------
# native RPC
# ------------------------------------------------------------------------------------------------

class Native:
    _inst = None

    def __init__(self):
        self.p = subprocess.Popen([NATIVE_BIN], stdin=subprocess.PIPE, stdout=subprocess.PIPE, stderr=subprocess.DEVNULL)

    @classmethod
    def get(cls):
        if cls._inst is None or cls._inst.p.poll() is not None:
            cls._inst = Native()
        return cls._inst

    def call(self, op, **kw):
        kw['op'] = op
        self.p.stdin.write((json.dumps(kw) + '\n').encode())
        self.p.stdin.flush()
        line = self.p.stdout.readline()
        if not line:
            self.p = None
            Native._inst = None
            return {'panic': 'native process died (abort / stack overflow)'}
        return json.loads(line)


def build_native():
    """(re)build the native harness and the CLI against /repo's current working tree"""
    env = dict(os.environ)
    env['CARGO_NET_OFFLINE'] = 'true'
    env['CARGO_TARGET_DIR'] = os.path.join(CACHE, 'native')
    r = subprocess.run(['cargo', 'build', '--quiet'], cwd=os.path.join(ROOT, 'native'), env=env,
                       stdout=subprocess.PIPE, stderr=subprocess.STDOUT)
    if r.returncode != 0:
        raise Inconclusive('native build failed:\n' + r.stdout.decode()[-3000:])
    # the real CLI binary, from the current working tree (used for end-to-end replay)
    r = subprocess.run(['cargo', 'build', '--quiet', '--bin', 'cargo-tauri-typegen'], cwd=REPO, env=env,
                       stdout=subprocess.PIPE, stderr=subprocess.STDOUT)
    if r.returncode != 0:
        raise Inconclusive('CLI build failed:\n' + r.stdout.decode()[-3000:])


def build_astdump():
    env = dict(os.environ)
    env['CARGO_NET_OFFLINE'] = 'true'
    env['CARGO_TARGET_DIR'] = os.path.join(CACHE, 'astdump')
    r = subprocess.run(['cargo', 'build', '--quiet'], cwd=os.path.join(ROOT, 'tools', 'astdump'), env=env,
                       stdout=subprocess.PIPE, stderr=subprocess.STDOUT)
    if r.returncode != 0:
        raise Inconclusive('astdump build failed:\n' + r.stdout.decode()[-3000:])


# ------------------------------------------------------------------------------------------------
# check framework
# ------------------------------------------------------------------------------------------------

class Finding:
    def __init__(self, key, obligation, witness, detail):
        self.key = key
        self.obligation = obligation
        self.witness = witness
        self.detail = detail
        self.count = 1

    def as_dict(self):
        return dict(key=self.key, obligation=self.obligation, witness=self.witness, detail=self.detail, count=self.count)


class ScenarioCtx:
    """handed to Check.run_scenario inside a worker"""

    def __init__(self, check, prog, tier, seed):
        self.check = check
        self.prog = prog
        self.tier = tier
        self.seed = seed
        self.findings = {}
        self.samples = []
        self.stats = E.Stats()
        self.covers = {}
        self.validated = 0
        self.mismatches = []
        self.obligations = 0
        self.cross = dict(checked=0, agree=0, disagree=0, unknown=0, error=0)
        self.rng = random.Random(seed)

    def engine(self, **kw):
        e = E.Engine(**kw)
        V.set_engine(e)
        return e

    def violation(self, eng, key, obligation, cond, witness_fn, detail=''):
        """record a violation if `cond` (z3 Bool / bool: the *violating* condition) is feasible on
        the current path.  witness_fn(model) -> JSON-able concrete input."""
        self.obligations += 1
        if isinstance(cond, bool):
            if not cond:
                return False
            m = eng.get_model()
        else:
            m = eng.model_for(cond)
            self.crosscheck(eng, cond, m is not None)
            if m is None:
                return False
        if key in self.findings:
            self.findings[key].count += 1
            return True
        w = witness_fn(m)
        self.findings[key] = Finding(key, obligation, w, detail if isinstance(detail, str) else detail(m))
        return True

    def crosscheck(self, eng, cond, verdict_sat):
        """re-decide a final obligation (path condition /\\ violating condition) with cvc5 and the system z3 from its
        SMT-LIB2 export; thorough tier (or VERIF_CROSS=1), a bounded number per scenario.  A disagreement or an
        `(error` line makes the run inconclusive."""
        if not (self.tier == 'thorough' or os.environ.get('VERIF_CROSS')):
            return
        lim = int(os.environ.get('VERIF_CROSS_LIMIT', '25'))
        # take the first few and then every 50th, so that late obligations are covered too
        self.cross_seen = getattr(self, 'cross_seen', 0) + 1
        if self.cross['checked'] >= lim or not (self.cross_seen <= lim // 2 or self.cross_seen % 50 == 0):
            return
        text = eng.smt2(cond)
        want = 'sat' if verdict_sat else 'unsat'
        self.cross['checked'] += 1
        for name, cmd in (('cvc5', ['cvc5', '--lang', 'smt2', '--tlimit', '20000']), ('z3-4.8', ['/usr/bin/z3', '-in', '-T:20'])):
            try:
                pr = subprocess.run(cmd, input=text.encode(), stdout=subprocess.PIPE, stderr=subprocess.STDOUT, timeout=40)
                out = pr.stdout.decode('utf-8', 'replace')
            except subprocess.TimeoutExpired:
                out = 'timeout'
            first = out.strip().split('\n')[0].strip() if out.strip() else ''
            if '(error' in out:
                self.cross['error'] += 1
                self.mismatches.append(dict(kind='crosscheck-error', solver=name, output=out[:200]))
            elif first in ('sat', 'unsat'):
                if first == want:
                    self.cross['agree'] += 1
                else:
                    self.cross['disagree'] += 1
                    self.mismatches.append(dict(kind='crosscheck-disagree', solver=name, z3=want, other=first))
            else:
                self.cross['unknown'] += 1

    def sample(self, x, limit=6):
        if len(self.samples) < limit:
            self.samples.append(x)

    def finish_engine(self, eng):
        self.stats.add(eng.stats.as_dict())
        for k, n in eng.covers.items():
            self.covers[k] = self.covers.get(k, 0) + n


_G = {}


def _worker(job):
    check, prog, tier, seed, mutant = _G['check'], _G['prog'], _G['tier'], _G['seed'], _G.get('mutant')
    name, params = job
    ctx = ScenarioCtx(check, prog, tier, seed)
    t0 = time.time()
    out = dict(name=name, err=None)
    try:
        check.run_scenario(ctx, name, params)
    except Inconclusive as ex:
        out['err'] = 'inconclusive: %s' % ex
    except Exception as ex:
        out['err'] = 'internal error: %s\n%s' % (ex, traceback.format_exc())
    out.update(findings={k: f.as_dict() for k, f in ctx.findings.items()}, samples=ctx.samples,
               stats=ctx.stats.as_dict(), covers=ctx.covers, validated=ctx.validated, mismatches=ctx.mismatches,
               obligations=ctx.obligations, cross=ctx.cross, wall=time.time() - t0,
               used={q: (fd.file, fd.span[0] if fd.span else 0, prog.fn_hash(fd)) for q, fd in prog.used.items()})
    prog.used.clear()
    return out


class Check:
    """base class of a property check"""
    id = 'C00'
    title = ''
    extra_crates = ()
    required_covers = ()

    def scenarios(self, tier):
        raise NotImplementedError

    def run_scenario(self, ctx, name, params):
        raise NotImplementedError

    def replay(self, finding):
        """re-run the witness against the native build; True iff the violation reproduces"""
        raise NotImplementedError

    def mutants(self):
        """list of (name, fn(prog)) in-memory edits of the dumped AST under which the check must fail"""
        return []

    def bounds(self, tier):
        return {}

    def outside(self):
        return []

    def assumptions(self):
        return []


def load_known():
    p = os.path.join(ROOT, 'known_findings.json')
    if not os.path.exists(p):
        return {'known': [], 'fixed': []}
    return json.load(open(p))


def run_jobs(check, prog, tier, seed, jobs, nproc, mutant=None):
    _G.update(check=check, prog=prog, tier=tier, seed=seed, mutant=mutant)
    if nproc <= 1 or len(jobs) <= 1:
        return [_worker(j) for j in jobs]
    ctxm = mp.get_context('fork')
    with ctxm.Pool(min(nproc, len(jobs))) as pool:
        return pool.map(_worker, jobs, chunksize=1)


def main(check, argv=None):
    argv = argv if argv is not None else sys.argv[1:]
    tier = os.environ.get('VERIF_TIER', 'quick')
    replay_file = None
    only = None
    i = 0
    while i < len(argv):
        a = argv[i]
        if a == '--tier':
            tier = argv[i + 1]
            i += 1
        elif a == '--replay':
            replay_file = argv[i + 1]
            i += 1
        elif a == '--scenario':
            only = argv[i + 1]
            i += 1
        i += 1
    seed = int(os.environ.get('VERIF_SEED', '0'))
    nproc = int(os.environ.get('VERIF_JOBS', str(os.cpu_count() or 4)))
    t0 = time.time()
    try:
        build_astdump()
        build_native()
        if replay_file:
            f = json.load(open(replay_file))
            ok = check.replay(f)
            print('replay %s: %s' % (replay_file, 'REPRODUCED' if ok else 'not reproduced'))
            return 1 if ok else 0
        prog = load_program(check.extra_crates)
        check.prepare(prog, tier) if hasattr(check, 'prepare') else None
        jobs = list(check.scenarios(tier))
        if only:
            jobs = [j for j in jobs if only in j[0]]
        random.Random(seed).shuffle(jobs)
        results = run_jobs(check, prog, tier, seed, jobs, nproc)
        errs = [(r['name'], r['err']) for r in results if r['err']]
        for n, e in errs[:10]:
            print('INCONCLUSIVE scenario=%s %s' % (n, e))
        # an inconclusive scenario gives no verdict for what it did not finish, but a violation that was
        # found (anywhere) and reproduces natively stands on its own: findings are processed first
        # merge findings
        merged = {}
        for r in results:
            for k, f in r['findings'].items():
                if k in merged:
                    merged[k]['count'] += f['count']
                else:
                    merged[k] = dict(f)
                    merged[k]['scenario'] = r['name']
        known = load_known()
        known_keys = {k['key']: k for k in known.get('known', []) if k['property'] == check.id}
        violations = []
        known_hit = []
        rc = 0
        os.makedirs(os.path.join(ROOT, 'replays', check.id), exist_ok=True)
        for k in sorted(merged):
            f = merged[k]
            f['property'] = check.id
            rp = os.path.join('replays', check.id, _safe(k) + '.json')
            reproduced = check.replay(f)
            f['reproduced'] = bool(reproduced)
            if k in known_keys and reproduced:
                json.dump(f, open(os.path.join(ROOT, rp), 'w'), indent=1, default=str)
                print('KNOWN-FINDING: property=%s %s %s' % (check.id, k, known_keys[k].get('what', '')))
                known_hit.append(k)
                continue
            if not reproduced:
                print('NOT-REPRODUCED property=%s key=%s (model/encoding disagreement; no verdict)' % (check.id, k))
                json.dump(f, open(os.path.join(ROOT, rp), 'w'), indent=1, default=str)
                rc = max(rc, 2)
                continue
            json.dump(f, open(os.path.join(ROOT, rp), 'w'), indent=1, default=str)
            print('VIOLATION property=%s replay=%s' % (check.id, rp))
            print('  key=%s obligation=%s detail=%s' % (k, f['obligation'], str(f['detail'])[:300]))
            violations.append(k)
            rc = max(rc, 1) if rc != 2 else 2
        if violations:
            rc = 1
        elif errs:
            rc = 2
        # model/native mismatches make the run inconclusive
        mism = [m for r in results for m in r['mismatches']]
        if mism:
            for m in mism[:5]:
                print('MODEL-MISMATCH %s' % json.dumps(m, default=str)[:500])
            if rc == 0:
                rc = 2
        # cover labels (vacuity)
        covers = {}
        for r in results:
            for k, n in r['covers'].items():
                covers[k] = covers.get(k, 0) + n
        missing = [c for c in check.required_covers if covers.get(c, 0) == 0]
        if missing and not only:
            print('VACUITY: cover labels never reached: %s' % missing)
            if rc == 0:
                rc = 2
        # in-memory mutants
        mut_report = None
        if not errs and not violations:
            mut_report = run_mutants(check, tier, seed, nproc, set(merged), only)
            if mut_report and mut_report['survived'] and rc == 0 and not only:
                print('VACUITY: mutants survived: %s' % mut_report['survived'])
                rc = 2
        write_evidence(check, tier, seed, results, violations, known_hit, time.time() - t0, mut_report, covers=covers,
                       inconclusive=errs or None)
        st = E.Stats()
        for r in results:
            st.add(r['stats'])
        if os.environ.get('VERIF_TIMING'):
            for r in sorted(results, key=lambda r: -r['wall'])[:12]:
                print('  slow: %-40s %.1fs paths=%d' % (r['name'], r['wall'], r['stats']['paths']))
        print('%s %s: scenarios=%d paths=%d decisions=%d queries=%d solver=%.1fs wall=%.1fs violations=%d known=%d rc=%d' % (
            check.id, tier, len(results), st.paths, st.decisions, st.queries, st.solver_s, time.time() - t0,
            len(violations), len(known_hit), rc))
        return rc
    except Inconclusive as ex:
        print('INCONCLUSIVE %s' % ex)
        return 2


def _safe(k):
    s = ''.join(c if c.isalnum() or c in '-_.' else '_' for c in k)
    if len(s) > 80:
        s = s[:60] + '_' + hashlib.sha1(k.encode()).hexdigest()[:10]
    return s


def run_mutants(check, tier, seed, nproc, baseline_keys, only=None):
    muts = check.mutants()
    if not muts or os.environ.get('VERIF_NO_MUTANTS') or only:
        return None
    if tier == 'quick':
        muts = muts[:max(1, getattr(check, 'quick_mutants', 1))]
    killed, survived = [], []
    for name, fn in muts:
        prog = load_program(check.extra_crates)
        fn(prog)
        jobs = list(check.mutant_scenarios(tier, name)) if hasattr(check, 'mutant_scenarios') else list(check.scenarios(tier))
        res = run_jobs(check, prog, tier, seed, jobs, nproc, mutant=name)
        keys = set()
        err = False
        for r in res:
            keys.update(r['findings'].keys())
            if r['err']:
                err = True
        new = keys - baseline_keys
        if new:
            killed.append(name)
        elif err:
            killed.append(name + ' (inconclusive under mutant)')
        else:
            survived.append(name)
    return dict(killed=killed, survived=survived, total=len(muts))


def write_evidence(check, tier, seed, results, violations, known_hit, wall, mut_report, covers=None, inconclusive=None):
    st = E.Stats()
    used = {}
    samples = []
    validated = 0
    obligations = 0
    cross = {}
    for r in results:
        st.add(r['stats'])
        used.update(r.get('used', {}))
        for s in r['samples']:
            if len(samples) < 12:
                samples.append(s)
        validated += r['validated']
        obligations += r['obligations']
        for k, v in (r.get('cross') or {}).items():
            cross[k] = cross.get(k, 0) + v
    ev = {
        'property_id': check.id,
        'tier': tier if tier in ('quick', 'thorough') else 'quick',
        'seed': seed,
        'level': 'model_checking',
        'coverage': {
            'states': max(st.paths, 0),
            'transitions': max(st.decisions, 0),
            'traces_validated_against_impl': validated,
            'samples': samples or ['(no path completed)'],
            'explanation': 'bounded symbolic execution of the dumped repository source (rsx) decided by z3; '
                           'states = feasible paths explored, transitions = branch decisions put to the solver',
            'scenarios': len(results),
            'obligations': obligations,
            'solver_crosscheck': dict(cross, solvers=['cvc5 1.0.3', 'z3 4.8.12'], note='final obligations (path condition and violating condition) '
                                      're-decided from their SMT-LIB2 export; thorough tier or VERIF_CROSS=1') if cross.get('checked') else 'not run in this tier',
            'solver_queries': st.queries,
            'solver_s': round(st.solver_s, 2),
            'forks': st.forks,
            'functions_encoded': sorted('%s @%s:%s #%s' % (q, os.path.relpath(v[0], REPO) if v[0] and v[0].startswith(REPO) else v[0], v[1], v[2])
                                        for q, v in used.items()),
            'bounds': check.bounds(tier),
            'outside_bounds': check.outside(),
            'covers': covers or {},
            'mutants': mut_report,
            'known_findings_hit': known_hit,
            'violation_keys': violations,
            'exhaustive': not inconclusive,
        },
        'assumptions': check.assumptions(),
        'wall_s': round(wall, 2),
        'violations': len(violations),
    }
    if inconclusive:
        ev['coverage']['inconclusive'] = [list(x) for x in inconclusive[:20]]
    if ev['coverage']['states'] < 1:
        ev['coverage']['states'] = 1
    if ev['coverage']['transitions'] < 1:
        ev['coverage']['transitions'] = 1
    os.makedirs(os.path.join(ROOT, 'evidence'), exist_ok=True)
    json.dump(ev, open(os.path.join(ROOT, 'evidence', check.id + '.json'), 'w'), indent=1, default=str)
