"""rsx.engine -- path exploration and solver interface (KLEE-style, stateless re-execution).

A *path* is one run of a harness body.  Whenever control flow depends on a symbolic Boolean the
interpreter calls Engine.decide(cond); the engine asks z3 which sides are feasible under the current
path condition, follows one and queues the other as a *decision prefix*.  Queued prefixes are
re-executed from the harness entry (no state copying).  Engine.choose(n) is the n-ary analogue used
for nondeterministic choices (iteration orders of unordered containers, fault points, skeleton kinds).
"""
import time
import z3


class RustPanic(Exception):
    """The interpreted Rust code panicked (index out of range, unwrap on None, overflow, ...)."""

    def __init__(self, msg, where=None):
        Exception.__init__(self, msg)
        self.msg = msg
        self.where = where


class Inconclusive(Exception):
    """No verdict: unsupported construct, budget exhausted, solver said unknown."""


class PathAbort(Exception):
    """Current path is infeasible/assumed away; silently dropped."""


class Violation(Exception):
    """Raised by harness checks to end a path early after recording a violation."""


def is_sym(x):
    return isinstance(x, z3.ExprRef)


_TRUE = z3.BoolVal(True)
_FALSE = z3.BoolVal(False)


def z_not(a):
    if isinstance(a, bool):
        return not a
    return z3.Not(a)


def z_and(*xs):
    out = []
    for x in xs:
        if isinstance(x, bool):
            if not x:
                return False
        else:
            out.append(x)
    if not out:
        return True
    if len(out) == 1:
        return out[0]
    return z3.And(*out)


def z_or(*xs):
    out = []
    for x in xs:
        if isinstance(x, bool):
            if x:
                return True
        else:
            out.append(x)
    if not out:
        return False
    if len(out) == 1:
        return out[0]
    return z3.Or(*out)


def z_eq(a, b):
    """equality on ints / z3 ints"""
    if not is_sym(a) and not is_sym(b):
        return a == b
    r = a == b
    if isinstance(r, bool):
        return r
    return r


def z_ite(c, a, b):
    if isinstance(c, bool):
        return a if c else b
    if not is_sym(a):
        a = z3.IntVal(a) if not isinstance(a, bool) else z3.BoolVal(a)
    if not is_sym(b):
        b = z3.IntVal(b) if not isinstance(b, bool) else z3.BoolVal(b)
    return z3.If(c, a, b)


class Stats:
    def __init__(self):
        self.paths = 0
        self.decisions = 0
        self.forks = 0
        self.queries = 0
        self.solver_s = 0.0
        self.aborted = 0
        self.max_depth = 0

    def as_dict(self):
        return dict(paths=self.paths, decisions=self.decisions, forks=self.forks, queries=self.queries,
                    solver_s=round(self.solver_s, 3), aborted=self.aborted, max_depth=self.max_depth)

    def add(self, o):
        for k in ('paths', 'decisions', 'forks', 'queries', 'aborted'):
            setattr(self, k, getattr(self, k) + o.get(k, 0))
        self.solver_s += o.get('solver_s', 0.0)
        self.max_depth = max(self.max_depth, o.get('max_depth', 0))


class Engine:
    def __init__(self, max_paths=200000, max_seconds=None, step_budget=2_000_000, timeout_ms=20000):
        self.solver = z3.Solver()
        self.solver.set('timeout', timeout_ms)
        self.stats = Stats()
        self.max_paths = max_paths
        self.max_seconds = max_seconds
        self.step_budget = step_budget
        self.steps = 0
        self.prefix = []
        self.trace = []
        self.pos = 0
        self.model = None
        self.worklist = []
        self.fresh_id = 0
        self.char_width = {}      # z3 ast id -> utf8 width (for symbolic chars in UTF-8 mode)
        self.sym_names = {}       # name -> z3 const (inputs of this path, in creation order)
        self.path_notes = []      # free-form notes harnesses attach to the current path
        self.covers = {}          # label -> count of paths reaching it
        self.in_path = False
        self.decided = {}
        self.order_mode = 'all'       # 'all' | 'insertion' | 'reverse' | 'scoped'
        self.order_all_in = set()
        self.order_fallback = 'insertion'
        self.order_dirs = None        # None: directory listings follow order_mode; else a fixed mode for them

    # -- symbolic inputs ---------------------------------------------------------------------
    def fresh_int(self, name, lo=None, hi=None):
        v = z3.Int(name)
        self.sym_names[name] = v
        if lo is not None:
            self.solver.add(v >= lo)
        if hi is not None:
            self.solver.add(v <= hi)
        self.model = None
        return v

    def fresh_bool(self, name):
        v = z3.Bool(name)
        self.sym_names[name] = v
        return v

    def assume(self, cond):
        """add an assumption; drops the path if it is infeasible"""
        if isinstance(cond, bool):
            if not cond:
                raise PathAbort()
            return
        self.solver.add(cond)
        self.model = None
        if self._check() != z3.sat:
            raise PathAbort()

    def add_fact(self, cond):
        """add a constraint known to be consistent (e.g. ranges of fresh variables)"""
        if isinstance(cond, bool):
            return
        self.solver.add(cond)
        self.model = None

    # -- solver ------------------------------------------------------------------------------
    def _check(self, *assumptions):
        t = time.time()
        r = self.solver.check(*assumptions)
        self.stats.solver_s += time.time() - t
        self.stats.queries += 1
        if r == z3.unknown:
            raise Inconclusive('solver returned unknown: %s' % self.solver.reason_unknown())
        if r == z3.sat and not assumptions:
            self.model = self.solver.model()
        return r

    def get_model(self):
        if self.model is None:
            if self._check() != z3.sat:
                raise PathAbort()
        return self.model

    def feasible(self, cond):
        """is pc /\\ cond satisfiable?  Does not change the path condition."""
        if isinstance(cond, bool):
            return cond
        t = time.time()
        r = self.solver.check(cond)
        self.stats.solver_s += time.time() - t
        self.stats.queries += 1
        if r == z3.unknown:
            raise Inconclusive('solver returned unknown')
        return r == z3.sat

    def model_for(self, cond):
        """model of pc /\\ cond or None"""
        if isinstance(cond, bool):
            if not cond:
                return None
            return self.get_model()
        t = time.time()
        self.solver.push()
        try:
            self.solver.add(cond)
            r = self.solver.check()
            self.stats.queries += 1
            if r == z3.unknown:
                raise Inconclusive('solver returned unknown')
            return self.solver.model() if r == z3.sat else None
        finally:
            self.solver.pop()
            self.stats.solver_s += time.time() - t

    # -- decisions ---------------------------------------------------------------------------
    def decide(self, cond):
        if isinstance(cond, bool):
            return cond
        if z3.is_true(cond):
            return True
        if z3.is_false(cond):
            return False
        # a condition already decided on this path keeps its value (the path condition only grows)
        cid = cond.get_id()
        hit = self.decided.get(cid)
        if hit is not None:
            return hit[0]
        if z3.is_not(cond):
            hit = self.decided.get(cond.arg(0).get_id())
            if hit is not None:
                return not hit[0]
        r = self._decide(cond)
        self.decided[cid] = (r, cond)     # keep the term alive: z3 reuses ids of collected ASTs
        return r

    def _decide(self, cond):
        self.stats.decisions += 1
        i = self.pos
        self.pos += 1
        if i < len(self.prefix):
            d = self.prefix[i]
            self.solver.add(cond if d else z3.Not(cond))
            self.trace.append(d)
            self.model = None
            return d
        m = self.model
        if m is None:
            # obtain a model of the path condition first
            if self._check() != z3.sat:
                raise PathAbort()
            m = self.model
        v = m.eval(cond, model_completion=True)
        side = z3.is_true(v)
        if not side and not z3.is_false(v):
            # could not evaluate; fall back to explicit check
            side = self.feasible(cond)
            if side:
                self.model = None
        other = z3.Not(cond) if side else cond
        if self.feasible(other):
            self.stats.forks += 1
            self.worklist.append(self.trace + [not side])
            self.solver.add(cond if side else z3.Not(cond))
            if self.model is not m:
                self.model = None
        # else: forced, pc already implies it
        self.trace.append(side)
        return side

    def choose(self, n, label=None):
        """nondeterministic choice among range(n); all alternatives are explored"""
        if n <= 0:
            raise Inconclusive('choose(0)')
        if n == 1:
            return 0
        i = self.pos
        self.pos += 1
        if i < len(self.prefix):
            d = self.prefix[i]
            self.trace.append(d)
            return d
        for k in range(n - 1, 0, -1):
            self.worklist.append(self.trace + [k])
        self.stats.forks += n - 1
        self.trace.append(0)
        return 0

    def tick(self, n=1):
        self.steps += n
        if self.steps > self.step_budget:
            raise Inconclusive('step budget exhausted (%d)' % self.step_budget)

    def cover(self, label):
        self.covers[label] = self.covers.get(label, 0) + 1

    def note(self, x):
        self.path_notes.append(x)

    # -- exploration -------------------------------------------------------------------------
    def explore(self, body, on_path_end=None):
        """Run body(engine) on every feasible path.  body may raise RustPanic (propagated to
        on_path_end as outcome), PathAbort (dropped).  Inconclusive propagates to the caller."""
        self.worklist = [[]]
        t0 = time.time()
        while self.worklist:
            if self.stats.paths >= self.max_paths:
                raise Inconclusive('path budget exhausted (%d)' % self.max_paths)
            if self.max_seconds is not None and time.time() - t0 > self.max_seconds:
                raise Inconclusive('time budget exhausted (%.0fs)' % self.max_seconds)
            self.prefix = self.worklist.pop()
            self.trace = []
            self.pos = 0
            self.model = None
            self.steps = 0
            self.sym_names = {}
            self.path_notes = []
            self.char_width = {}
            self.decided = {}
            self.solver.push()
            outcome = None
            try:
                self.in_path = True
                try:
                    result = body(self)
                    outcome = ('ok', result)
                except RustPanic as p:
                    outcome = ('panic', p)
                except Violation as v:
                    outcome = ('violation', v)
                except PathAbort:
                    self.stats.aborted += 1
                    outcome = None
                if outcome is not None:
                    self.stats.paths += 1
                    self.stats.max_depth = max(self.stats.max_depth, len(self.trace))
                    if on_path_end is not None:
                        on_path_end(self, outcome)
            finally:
                self.in_path = False
                self.solver.pop()
        return self.stats

    # -- concretisation ----------------------------------------------------------------------
    def concretize(self, model, x):
        """evaluate a python/z3 scalar under model"""
        if is_sym(x):
            v = model.eval(x, model_completion=True)
            if z3.is_int_value(v):
                return v.as_long()
            if z3.is_true(v):
                return True
            if z3.is_false(v):
                return False
            return v
        return x

    def smt2(self, extra=None):
        """current path condition (plus extra) as SMT-LIB2 text for cross-checking"""
        s = z3.Solver()
        for a in self.solver.assertions():
            s.add(a)
        if extra is not None and not isinstance(extra, bool):
            s.add(extra)
        return '(set-logic ALL)\n' + s.to_smt2()
