"""rsx.pipeline -- build a (partly symbolic) Tauri project, run the repository's generation path over
it in the interpreter, and run the same project concretely through the native CLI (replay).

A project is a set of Rust source *templates* with holes:
  HOLE_<name>      in identifier position  -> symbolic identifier
  "HOLE_<name>"    a string literal         -> symbolic literal content
  HOLE_<name>      inside an attribute's token stream may also be replaced by a token list
The templates are parsed by syn (astdump, `file_data`: exactly what syn::parse_file returns) and the
holes are filled in the resulting data tree; for the native run the same holes are filled textually."""
import json
import os
import re
import shutil
import subprocess
import tempfile

from . import values as V
from . import interp as IP
from . import harness as H
from .values import Str, Ch, Struct, Enum, Vec, HMap, Opaque, Some, Ok, Err, mk_none, deref
from .engine import Inconclusive, RustPanic
from .models import fs as FS
from .models import json as J
from .models import syn as SYN

CLI = os.path.join(H.CACHE, 'native', 'debug', 'cargo-tauri-typegen')
TS_LINE = re.compile(r'Generated at: .*')

RUST_KEYWORDS = ['as', 'break', 'const', 'continue', 'crate', 'else', 'enum', 'extern', 'false', 'fn', 'for', 'if', 'impl',
                 'in', 'let', 'loop', 'match', 'mod', 'move', 'mut', 'pub', 'ref', 'return', 'self', 'Self', 'static',
                 'struct', 'super', 'trait', 'true', 'type', 'unsafe', 'use', 'where', 'while', 'async', 'await', 'dyn',
                 'abstract', 'become', 'box', 'do', 'final', 'macro', 'override', 'priv', 'typeof', 'unsized', 'virtual',
                 'yield', 'try', 'gen', '_']


def not_rust_keyword(s):
    """condition: Str is not a Rust keyword (so that it can be written as a plain identifier)"""
    return V.z_not(V.z_or(*[V.str_eq(s, Str(k)) for k in RUST_KEYWORDS if len(k) == len(s.cs)]))


class Project:
    def __init__(self, files, holes=None, config=None, unparsable=(), token_holes=None, extra_files=None):
        self.files = dict(files)            # rel path -> template text
        self.holes = dict(holes or {})      # name -> Str
        self.config = dict(config or {})    # GenerateConfig field -> value (python or run-time value)
        self.unparsable = set(unparsable)   # rel paths whose content does not parse
        self.token_holes = dict(token_holes or {})  # name -> list of token Structs
        self.extra_files = dict(extra_files or {})  # non-.rs files: rel -> text

    # -- symbolic side ---------------------------------------------------------------------------
    def ast(self, rel):
        j = IP.AstServer.get().parse('file_data', self.files[rel])
        v = IP.syn_value(j)
        if self.holes or self.token_holes:
            self._fill(v)
        return v

    def _fill(self, v):
        if isinstance(v, Struct):
            if v.ty == 'Ident':
                s = v.f['sym']
                name = s.py() if isinstance(s, Str) else None
                if name is not None and name.startswith('HOLE_') and name[5:] in self.holes:
                    v.f['sym'] = self.holes[name[5:]]
                elif name is not None and name.startswith('r#HOLE_') and name[7:] in self.holes:
                    # raw identifier: proc_macro2 keeps the r# prefix in the identifier's text
                    v.f['sym'] = Str('r#').concat(self.holes[name[7:]])
                return
            if v.ty == '#lit':
                val = v.f.get('value')
                name = val.py() if isinstance(val, Str) else None
                if name is not None and name.startswith('HOLE_') and name[5:] in self.holes:
                    hv = self.holes[name[5:]]
                    v.f['value'] = hv
                    v.f['src'] = SYN.escape_for_source(hv)
                return
            if v.ty == 'TokenStream' and self.token_holes:
                items = v.f['items'].v
                out = []
                for t in items:
                    t = deref(t)
                    if isinstance(t, Struct) and t.ty == 'Ident':
                        nm = t.f['sym'].py() if isinstance(t.f['sym'], Str) else None
                        if nm and nm.startswith('HOLE_') and nm[5:] in self.token_holes:
                            out.extend(self.token_holes[nm[5:]])
                            continue
                    out.append(t)
                v.f['items'].v = out
            for x in v.f.values():
                self._fill(x)
        elif isinstance(v, Enum):
            for x in v.vals:
                self._fill(x)
            if v.fields:
                for x in v.fields.values():
                    self._fill(x)
        elif isinstance(v, Vec):
            for x in v.v:
                self._fill(x)
        elif isinstance(v, tuple):
            for x in v:
                self._fill(x)

    def world(self, root='/p', out_dir=None):
        w = FS.World()
        w.add_dir(root)
        dirs = set()
        for rel in list(self.files) + list(self.extra_files):
            parts = rel.split('/')
            for k in range(1, len(parts)):
                d = root + '/' + '/'.join(parts[:k])
                if d not in dirs:
                    dirs.add(d)
                    w.add_dir(d)
        for rel in self.files:
            if rel in self.unparsable and not self.holes:
                w.add_file(root + '/' + rel, Str(self.files[rel]))      # text that syn rejects: kept concrete
            else:
                w.add_file(root + '/' + rel, Str((Opaque('src', rel),)))
        for rel, txt in self.extra_files.items():
            w.add_file(root + '/' + rel, txt)
        if out_dir:
            w.add_dir(out_dir)
        return w

    def parse_hook(self):
        def parse(content):
            cs = content.cs
            if len(cs) == 1 and isinstance(cs[0], Opaque) and cs[0].kind == 'src':
                rel = cs[0].payload
                if rel in self.unparsable:
                    return Err(Struct('syn::Error', {'msg': Str('parse error'), 'text': Str(self.files[rel])}))
                try:
                    return Ok(self.ast(rel))
                except ValueError:
                    # syn itself rejects this text
                    return Err(Struct('syn::Error', {'msg': Str('parse error')}))
            py = content.py()
            if py is None:
                raise Inconclusive('syn::parse_file on symbolic text')
            if any(self.files[r] == py for r in self.unparsable):
                return Err(Struct('syn::Error', {'msg': Str('parse error'), 'text': content}))
            try:
                return Ok(IP.syn_value(IP.AstServer.get().parse('file_data', py)))
            except ValueError:
                return Err(Struct('syn::Error', {'msg': Str('parse error'), 'text': content}))
        return parse

    def make_config(self, interp, root='/p', out='/out'):
        cfg = interp.call_path('GenerateConfig::default', [])
        cfg.f['project_path'] = Str(root)
        cfg.f['output_path'] = Str(out)
        for k, v in self.config.items():
            cfg.f[k] = to_rt(v)
        return cfg

    # -- concrete side ---------------------------------------------------------------------------
    def concrete_files(self, model):
        vals = {n: concretize_str(model, s) for n, s in self.holes.items()}
        tvals = {n: ' '.join(token_text(model, t) for t in toks) for n, toks in self.token_holes.items()}
        out = {}
        for rel, tpl in self.files.items():
            out[rel] = fill_text(tpl, vals, tvals)
        return out, vals

    def concrete_config(self, model):
        c = {}
        for k, v in self.config.items():
            c[k] = to_py(model, v)
        return c


def fill_text(tpl, vals, tvals=None):
    def lit(m):
        n = m.group(1)
        if n not in vals:
            return m.group(0)
        return '"' + vals[n].replace('\\', '\\\\').replace('"', '\\"').replace('\n', '\\n') + '"'
    s = re.sub(r'"HOLE_([A-Za-z0-9_]+?)"', lit, tpl)

    def ident(m):
        n = m.group(1)
        if tvals and n in tvals:
            return tvals[n]
        if n in vals:
            return vals[n]
        return m.group(0)
    return re.sub(r'HOLE_([A-Za-z0-9]+(?:_[A-Za-z0-9]+)*)', ident, s)


def token_text(model, t):
    t = deref(t)
    if t.ty == 'Ident':
        return concretize_str(model, deref(t.f['sym']))
    if t.ty == 'Punct':
        return concretize_str(model, deref(t.f['char']))
    if t.ty == 'Literal':
        return concretize_str(model, deref(deref(t.f['lit']).f['src']))
    raise Inconclusive('token_text %s' % t.ty)


def concretize_str(model, s):
    out = []
    for c in s.cs:
        if isinstance(c, int):
            out.append(chr(c))
        elif isinstance(c, Opaque):
            out.append('<%s>' % c.kind)
        else:
            v = model.eval(c, model_completion=True) if model is not None else None
            out.append(chr(v.as_long()))
    return ''.join(out)


def to_rt(v):
    """python config value -> run-time value"""
    if isinstance(v, str):
        return Str(v)
    if isinstance(v, bool) or v is None:
        return Some(v) if isinstance(v, bool) else mk_none()
    if isinstance(v, dict):
        return Some(HMap([[to_rt_plain(k), to_rt_plain(x)] for k, x in v.items()]))
    return v


def to_rt_plain(v):
    return Str(v) if isinstance(v, str) else v


def to_py(model, v):
    v = deref(v)
    if isinstance(v, (str, bool, int)) or v is None:
        return v
    if isinstance(v, dict):
        return {to_py(model, k): to_py(model, x) for k, x in v.items()}
    if isinstance(v, Str):
        return concretize_str(model, v)
    if isinstance(v, Enum) and v.ty == 'Option':
        return None if v.var == 'None' else to_py(model, v.vals[0])
    if isinstance(v, HMap):
        return {to_py(model, k): to_py(model, x) for k, x in v.items}
    if isinstance(v, Vec):
        return [to_py(model, x) for x in v.v]
    raise Inconclusive('to_py %r' % (v,))


# ------------------------------------------------------------------------------------------------
# running
# ------------------------------------------------------------------------------------------------

class ModelRun:
    def __init__(self):
        self.result = None
        self.outputs = {}
        self.world = None
        self.panic = None


def run_model(interp, project, entry='lib', root='/p', out='/out', world=None, cli_args=None):
    """execute the repository's generation path over the project; returns ModelRun"""
    V.CALL_STACK.clear()
    w = world if world is not None else project.world(root)
    interp.fs = w
    interp.hooks['syn::parse_file'] = project.parse_hook()
    r = ModelRun()
    r.world = w
    if entry == 'lib':
        cfg = project.make_config(interp, root, out)
        r.result = deref(interp.call_path('generate_from_config', [cfg]))
    elif entry == 'cli':
        a = dict(project_path=Some(FS.mkpath(root)), output_path=Some(FS.mkpath(out)),
                 validation_library=mk_none(), verbose=False, visualize_deps=False, config_file=mk_none(), force=False)
        a.update(cli_args or {})
        r.result = deref(interp.call_path('run_generate', [a['project_path'], a['output_path'], a['validation_library'],
                                                           a['verbose'], a['visualize_deps'], a['config_file'], a['force']]))
    else:
        raise ValueError(entry)
    pre = len(out) + 1
    for e in w.entries:
        if e[1] == 'file':
            p = e[0].py()
            if p is not None and p.startswith(out + '/'):
                r.outputs[p[pre:]] = e[2]
    return r


def run_native(files, config, extra=None, entry='cli', force=True, keep=False, pre_out=None):
    """run the real binary on a concrete project; returns (rc, {name: text}, stderr, stdout)"""
    d = tempfile.mkdtemp(prefix='vrun', dir=os.path.join(H.CACHE, 'tmp') if os.path.isdir(os.path.join(H.CACHE, 'tmp')) else None)
    try:
        for rel, src in files.items():
            p = os.path.join(d, 'p', rel)
            os.makedirs(os.path.dirname(p), exist_ok=True)
            with open(p, 'w', encoding='utf-8') as f:
                f.write(src)
        for rel, src in (extra or {}).items():
            p = os.path.join(d, 'p', rel)
            os.makedirs(os.path.dirname(p), exist_ok=True)
            with open(p, 'w', encoding='utf-8') as f:
                f.write(src)
        os.makedirs(os.path.join(d, 'p'), exist_ok=True)
        if pre_out:
            for rel, src in pre_out.items():
                p = os.path.join(d, 'out', rel)
                os.makedirs(os.path.dirname(p), exist_ok=True)
                with open(p, 'w', encoding='utf-8') as f:
                    f.write(src)
        cfg = {'project_path': os.path.join(d, 'p'), 'output_path': os.path.join(d, 'out')}
        for k, v in config.items():
            if v is not None:
                cfg[k] = v
        with open(os.path.join(d, 'cfg.json'), 'w') as f:
            json.dump(cfg, f)
        cmd = [CLI, 'tauri-typegen', 'generate', '-c', os.path.join(d, 'cfg.json')]
        if force:
            cmd.append('--force')
        pr = subprocess.run(cmd, cwd=d, stdout=subprocess.PIPE, stderr=subprocess.PIPE, timeout=120)
        outs = {}
        od = os.path.join(d, 'out')
        if os.path.isdir(od):
            for f in sorted(os.listdir(od)):
                fp = os.path.join(od, f)
                if os.path.isfile(fp):
                    try:
                        outs[f] = TS_LINE.sub('Generated at: <ts>', open(fp, encoding='utf-8').read())
                    except UnicodeDecodeError:
                        outs[f] = '<binary>'
        return pr.returncode, outs, pr.stderr.decode('utf-8', 'replace'), pr.stdout.decode('utf-8', 'replace')
    finally:
        if not keep:
            shutil.rmtree(d, ignore_errors=True)


def text_of(s):
    """Str -> python text with the timestamp normalised (for comparison with native output)"""
    out = []
    for c in s.cs:
        if isinstance(c, int):
            out.append(chr(c))
        elif isinstance(c, Opaque) and c.kind == 'timestamp':
            out.append('<ts>')
        else:
            return None
    return ''.join(out)
