"""rsx.iters -- lazy iterators, including nondeterministic iteration of unordered containers."""
from . import values as V
from .engine import Inconclusive


class Iter:
    """Rust iterator value.  `src` is a python iterator.  For iterators over HashMap/HashSet the
    element order is a nondeterministic choice made lazily at the first `next`; consumers that are
    insensitive to order call canonical() first and avoid the fork."""

    def __init__(self, src, unordered_items=None, double_ended=None):
        self.src = src
        self.peeked = []
        self.unordered_items = unordered_items   # list of remaining items when order is still open
        self.fixed = False
        self.mapped = []                          # deferred transformations while order is open
        self.rev_items = double_ended             # list for .rev() / next_back on exact iterators
        self.base = None
        self.is_dir_listing = False

    def canonical(self):
        """consumer does not care about order: iterate unordered source in insertion order"""
        if self.unordered_items is not None and not self.fixed:
            items = self.unordered_items
            self.unordered_items = None
            self.src = iter(items)
        if self.base is not None:
            self.base.canonical()
        return self

    def _next_raw(self):
        if self.unordered_items is not None:
            self.fixed = True
            rem = self.unordered_items
            if not rem:
                raise StopIteration
            mode = V.ENG.order_mode if hasattr(V.ENG, 'order_mode') else 'all'
            dm = getattr(V.ENG, 'order_dirs', None)
            if self.is_dir_listing and dm is not None:
                # directory listings keep the order the harness fixed for them (an unchanged directory enumerates the
                # same way in every process; hash containers do not)
                mode = dm
            elif mode == 'scoped':
                # all orders for iterations performed directly by the named functions, a fixed order elsewhere
                scope = V.ENG.order_all_in
                mode = 'all' if (V.CALL_STACK and V.CALL_STACK[-1] in scope) else V.ENG.order_fallback
            if mode == 'insertion':
                k = 0
            elif mode == 'reverse':
                k = len(rem) - 1
            else:
                k = V.ENG.choose(len(rem))
            return rem.pop(k)
        return next(self.src)

    def __iter__(self):
        return self

    def __next__(self):
        if self.peeked:
            return self.peeked.pop(0)
        return self._next_raw()

    def next_opt(self):
        try:
            return V.Some(next(self))
        except StopIteration:
            return V.mk_none()

    def peek(self):
        if not self.peeked:
            try:
                self.peeked.append(self._next_raw())
            except StopIteration:
                return V.mk_none()
        return V.Some(self.peeked[0])

    def to_list(self):
        return list(self)


def unordered(items, dir_listing=False):
    """iterator over a snapshot of an unordered container"""
    it = Iter(None, unordered_items=list(items))
    it.is_dir_listing = dir_listing
    return it


def from_list(lst):
    lst = list(lst)
    return Iter(iter(lst), double_ended=lst)


def gen(g, base=None):
    """iterator derived from base by generator g; stays order-open if base is"""
    it = Iter(g)
    it.base = base
    return it
