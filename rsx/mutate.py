"""rsx.mutate -- small in-memory edits of the dumped AST (vacuity guard: a check must fail under them).
/repo is never touched.  A mutator returns False when the code no longer has the expected shape;
such a mutant is reported as not applicable and does not count."""


def find_fn(prog, path):
    segs = path.split('::')
    if len(segs) >= 2:
        fd = prog.methods.get((segs[-2], segs[-1])) or prog.trait_defaults.get((segs[-2], segs[-1]))
        if fd is not None:
            return fd
    c = prog.free_fns.get(segs[-1])
    return c[0] if c else None


def walk(node, f):
    """pre-order walk over dict/list AST; f(node) may return True to stop descending"""
    if isinstance(node, dict):
        if f(node):
            return
        for v in node.values():
            walk(v, f)
    elif isinstance(node, list):
        for v in node:
            walk(v, f)


def stmts_of(fd):
    return fd.body['stmts']


def move_last_stmt_to(fd, idx):
    st = stmts_of(fd)
    if len(st) < 2:
        return False
    s = st.pop()
    st.insert(idx, s)
    return True


def replace_str_lit(fd, old, new, count=1):
    n = [0]

    def f(node):
        if node.get('_') == 'Lit::Str' and node['token'].get('value') == old and n[0] < count:
            node['token'] = dict(node['token'], value=new, src='"%s"' % new)
            n[0] += 1
    walk(fd.body, f)
    return n[0] > 0


def replace_int_lit(fd, old, new, count=1):
    n = [0]

    def f(node):
        if node.get('_') == 'Lit::Int' and node['token'].get('digits') == str(old) and n[0] < count:
            node['token'] = dict(node['token'], digits=str(new), src=str(new))
            n[0] += 1
    walk(fd.body, f)
    return n[0] > 0


def swap_binop(fd, old, new, nth=0):
    seen = [0]
    done = [False]

    def f(node):
        if node.get('_') == 'Expr::Binary' and node['op']['_'] == 'BinOp::' + old and not done[0]:
            if seen[0] == nth:
                node['op'] = {'_': 'BinOp::' + new}
                done[0] = True
            seen[0] += 1
    walk(fd.body, f)
    return done[0]


def drop_method_call_stmt(fd, method, nth=0):
    """remove the nth statement (anywhere in the body) that is a call of `.method(...)`"""
    seen = [0]
    done = [False]

    def f(node):
        if done[0]:
            return True
        if node.get('_') == 'Block':
            for i, s in enumerate(node['stmts']):
                if s['_'] == 'Stmt::Expr' and s['0']['_'] == 'Expr::MethodCall' and s['0']['method']['sym'] == method:
                    if seen[0] == nth:
                        del node['stmts'][i]
                        done[0] = True
                        return True
                    seen[0] += 1
    walk({'b': fd.body}, f)
    return done[0]


def replace_bool_lit(fd, old, new, nth=0):
    seen = [0]
    done = [False]

    def f(node):
        if node.get('_') == 'Lit::Bool' and node.get('value') is old and not done[0]:
            if seen[0] == nth:
                node['value'] = new
                done[0] = True
            seen[0] += 1
    walk(fd.body, f)
    return done[0]


def drop_try(fd, nth=0):
    """`expr?` -> `expr` (the error is ignored) for the nth `?` of the body"""
    seen = [0]
    done = [False]

    def f(node):
        if node.get('_') == 'Expr::Try' and not done[0]:
            if seen[0] == nth:
                inner = node['expr']
                node.clear()
                node.update(inner)
                done[0] = True
                return True
            seen[0] += 1
    walk(fd.body, f)
    return done[0]


def move_stmts(fd, is_first, count, is_target):
    """move `count` consecutive top-level statements starting at the first one satisfying is_first
    to just before the first statement satisfying is_target"""
    st = stmts_of(fd)
    i = next((k for k, s in enumerate(st) if is_first(s)), None)
    j = next((k for k, s in enumerate(st) if is_target(s)), None)
    if i is None or j is None or i == j:
        return False
    chunk = st[i:i + count]
    del st[i:i + count]
    if j > i:
        j -= count
    st[j:j] = chunk
    return True


def local_named(name):
    def f(s):
        if s.get('_') != 'Stmt::Local':
            return False
        p = s
        found = [False]

        def g(n):
            if n.get('_') == 'Pat::Ident' and n['ident']['sym'] == name:
                found[0] = True
        walk(p.get('pat', p), g)
        return found[0]
    return f


def rename_field_access(fd, old, new, count=99):
    """`x.old` -> `x.new` for field accesses in the body"""
    n = [0]

    def f(node):
        if node.get('_') == 'Expr::Field' and node['member'].get('_') == 'Member::Named' and node['member']['0']['sym'] == old and n[0] < count:
            node['member'] = {'_': 'Member::Named', '0': dict(node['member']['0'], sym=new)}
            n[0] += 1
    walk(fd.body, f)
    return n[0] > 0
