"""rsx.readers.ts -- reader for the TypeScript subset the templates can emit (oracle, independent of
the code under test).  It consumes Str text whose characters may be symbolic; every lexical or
syntactic decision on a symbolic character goes through Engine.decide, so a reachable reject state is
a counterexample (DESIGN 3.4).  On concrete text (native replay) it is an ordinary parser."""
import z3
from .. import values as V
from ..values import Str, Opaque
from ..engine import is_sym, z_and, z_or, z_not, Inconclusive


class Reject(Exception):
    def __init__(self, what, pos, ctx='', label=''):
        Exception.__init__(self, what)
        self.what = what
        self.pos = pos
        self.ctx = ctx
        self.label = label      # syntactic role being read when the text was rejected (stable part of a key)


RESERVED = {
    'break', 'case', 'catch', 'class', 'const', 'continue', 'debugger', 'default', 'delete', 'do', 'else', 'enum',
    'export', 'extends', 'false', 'finally', 'for', 'function', 'if', 'import', 'in', 'instanceof', 'new', 'null',
    'return', 'super', 'switch', 'this', 'throw', 'true', 'try', 'typeof', 'var', 'void', 'while', 'with',
    # strict-mode reserved (ES modules are strict)
    'implements', 'interface', 'let', 'package', 'private', 'protected', 'public', 'static', 'yield', 'await',
}
# names that cannot be declared as a type alias / interface name
TYPE_NAME_RESERVED = RESERVED | {'any', 'boolean', 'never', 'number', 'object', 'string', 'symbol', 'undefined', 'unknown', 'bigint'}

PUNCT3 = ('...', '===', '!==')
PUNCT2 = ('=>', '?.', '&&', '||', '==', '!=', '<=', '>=', '??', '++', '--', '+=', '-=')
PUNCT1 = '{}()[]<>;:,.?=|&!+-*/%~^@#'


def decide(c):
    return V.ENG.decide(c)


def _in(c, lo, hi):
    if is_sym(c):
        return z3.And(c >= lo, c <= hi)
    return lo <= c <= hi


def is_ident_start(c):
    if isinstance(c, Opaque):
        return False
    if not is_sym(c):
        return (65 <= c <= 90) or (97 <= c <= 122) or c == 95 or c == 36 or (c >= 128 and V.char_class(c, 'alpha'))
    if V.cwidth(c) == 1:
        return z3.Or(z3.And(c >= 65, c <= 90), z3.And(c >= 97, c <= 122), c == 95, c == 36)
    return V.char_class(c, 'alpha')


def is_ident_part(c):
    if isinstance(c, Opaque):
        return False
    if not is_sym(c):
        return is_ident_start(c) or (48 <= c <= 57)
    if V.cwidth(c) == 1:
        return z3.Or(z3.And(c >= 65, c <= 90), z3.And(c >= 97, c <= 122), c == 95, c == 36, z3.And(c >= 48, c <= 57))
    return V.char_class(c, 'alpha')


def is_space(c):
    if isinstance(c, Opaque):
        return False
    if not is_sym(c):
        return c in (32, 9, 10, 13, 11, 12, 0xA0, 0x2028, 0x2029, 0xFEFF)
    if V.cwidth(c) == 1:
        return z3.Or(c == 32, z3.And(c >= 9, c <= 13))
    return z_or(*[c == r for r in (0xA0, 0x2028) if V.utf8_width(r) == V.cwidth(c)])


def is_line_terminator(c):
    if isinstance(c, Opaque):
        return False
    if not is_sym(c):
        return c in (10, 13, 0x2028, 0x2029)
    if V.cwidth(c) == 1:
        return z3.Or(c == 10, c == 13)
    return z_or(*[c == r for r in (0x2028,) if V.utf8_width(r) == V.cwidth(c)])


def is_identifier_text(s):
    """condition: Str is a syntactically legal identifier (reserved words not considered)"""
    if not s.cs:
        return False
    return z_and(is_ident_start(s.cs[0]), *[is_ident_part(c) for c in s.cs[1:]])


def equals_any(s, words):
    return z_or(*[V.str_eq(s, Str(w)) for w in words if len(w) == len(s.cs)])


class Tok:
    __slots__ = ('kind', 'val', 'pos', 'quote', 'raw')

    def __init__(self, kind, val, pos, quote=None, raw=None):
        self.kind = kind   # ident | string | number | punct | eof | opaque
        self.val = val     # Str for ident/string/number, python str for punct
        self.pos = pos
        self.quote = quote
        self.raw = raw

    def __repr__(self):
        return 'Tok(%s,%r)' % (self.kind, self.val)

    def is_p(self, p):
        return self.kind == 'punct' and self.val == p

    def is_kw(self, w):
        """identifier token spelling exactly w (decides on symbolic chars)"""
        return self.kind == 'ident' and decide(V.str_eq(self.val, Str(w)))


class Lexer:
    def __init__(self, text, name=''):
        self.cs = text.cs
        self.n = len(text.cs)
        self.i = 0
        self.name = name
        self.buf = []

    def context(self, pos, width=24):
        out = []
        for c in self.cs[max(0, pos - width):pos]:
            out.append(chr(c) if isinstance(c, int) else '·')
        return ''.join(out)

    def static_context(self, pos, width=32):
        """preceding concrete characters only (stable part of a role key)"""
        out = []
        k = pos - 1
        while k >= 0 and len(out) < width:
            c = self.cs[k]
            if isinstance(c, int):
                out.append(chr(c))
            k -= 1
        return ''.join(reversed(out))

    labels = ('module',)

    def reject(self, what, pos=None, label=None):
        pos = self.i if pos is None else pos
        raise Reject(what, pos, self.context(pos), label or self.labels[-1])

    def skip_ws(self):
        cs, n = self.cs, self.n
        while self.i < n:
            c = cs[self.i]
            if isinstance(c, int):
                if c in (32, 10, 9, 13):
                    self.i += 1
                    continue
                if c == 47 and self.i + 1 < n:          # comments
                    d = cs[self.i + 1]
                    if isinstance(d, int) and d == 42:
                        self.i += 2
                        while True:
                            if self.i + 1 >= n:
                                self.reject('unterminated comment')
                            a, b = cs[self.i], cs[self.i + 1]
                            if decide(V.char_eq(a, 42)) and decide(V.char_eq(b, 47)):
                                self.i += 2
                                break
                            self.i += 1
                        continue
                    if isinstance(d, int) and d == 47:
                        self.i += 2
                        while self.i < n and not decide(is_line_terminator(cs[self.i])):
                            self.i += 1
                        continue
                    if not isinstance(d, int) and (decide(V.char_eq(d, 42)) or decide(V.char_eq(d, 47))):
                        self.reject('symbolic character opens a comment')
                if c < 128:
                    return
            if isinstance(c, Opaque):
                return
            if decide(is_space(c)):
                self.i += 1
                continue
            return

    def next(self):
        if self.buf:
            return self.buf.pop(0)
        return self._lex()

    def peek(self, k=0):
        while len(self.buf) <= k:
            self.buf.append(self._lex())
        return self.buf[k]

    def _lex(self):
        self.skip_ws()
        cs, n = self.cs, self.n
        if self.i >= n:
            return Tok('eof', None, self.i)
        start = self.i
        c = cs[start]
        if isinstance(c, Opaque):
            self.i += 1
            return Tok('opaque', c, start)
        if decide(is_ident_start(c)):
            j = start + 1
            while j < n and not isinstance(cs[j], Opaque) and decide(is_ident_part(cs[j])):
                j += 1
            self.i = j
            return Tok('ident', Str(cs[start:j]), start)
        if decide(_in(c, 48, 57)):
            j = start + 1
            while j < n and not isinstance(cs[j], Opaque) and decide(z_or(_in(cs[j], 48, 57), V.char_eq(cs[j], 46),
                                                                           V.char_eq(cs[j], 101), V.char_eq(cs[j], 69), V.char_eq(cs[j], 95))):
                if decide(z_or(V.char_eq(cs[j], 101), V.char_eq(cs[j], 69))) and j + 1 < n and \
                        not isinstance(cs[j + 1], Opaque) and decide(z_or(V.char_eq(cs[j + 1], 43), V.char_eq(cs[j + 1], 45))):
                    j += 1
                j += 1
            if j < n and not isinstance(cs[j], Opaque) and decide(is_ident_start(cs[j])):
                self.reject('identifier directly after numeric literal', j)
            self.i = j
            return Tok('number', Str(cs[start:j]), start)
        for q in (39, 34, 96):
            if decide(V.char_eq(c, q)):
                return self._string(start, q)
        # punctuation
        for plist, ln in ((PUNCT3, 3), (PUNCT2, 2)):
            if start + ln <= n:
                for p in plist:
                    if all(not isinstance(cs[start + k], Opaque) for k in range(ln)) and \
                            decide(z_and(*[V.char_eq(cs[start + k], ord(p[k])) for k in range(ln)])):
                        self.i = start + ln
                        return Tok('punct', p, start)
        for p in PUNCT1:
            if decide(V.char_eq(c, ord(p))):
                self.i = start + 1
                return Tok('punct', p, start)
        self.reject('illegal character')

    def _string(self, start, q):
        cs, n = self.cs, self.n
        j = start + 1
        val = []
        while True:
            if j >= n:
                self.reject('unterminated string literal', start, 'string-literal')
            c = cs[j]
            if isinstance(c, Opaque):
                val.append(c)
                j += 1
                continue
            if decide(V.char_eq(c, q)):
                break
            if decide(V.char_eq(c, 92)):
                if j + 1 >= n:
                    self.reject('unterminated string literal', start, 'string-literal')
                e = cs[j + 1]
                if isinstance(e, Opaque):
                    self.reject('escape of opaque text', j, 'string-literal')
                simple = {110: 10, 114: 13, 116: 9, 98: 8, 102: 12, 118: 11, 48: 0}
                done = False
                for k, r in simple.items():
                    if decide(V.char_eq(e, k)):
                        val.append(r)
                        done = True
                        break
                if not done:
                    if decide(z_or(V.char_eq(e, ord('x')), V.char_eq(e, ord('u')))):
                        # \xHH / \uHHHH: need hex digits; a symbolic following char is a reject state
                        need = 2 if decide(V.char_eq(e, ord('x'))) else 4
                        hexs = cs[j + 2:j + 2 + need]
                        if len(hexs) < need or not all(isinstance(h, int) and chr(h) in '0123456789abcdefABCDEF' for h in hexs):
                            self.reject('malformed escape sequence', j, 'string-literal')
                        val.append(int(''.join(chr(h) for h in hexs), 16))
                        j += need
                    elif decide(_in(e, 49, 57)):
                        self.reject('octal/decimal escape in strict mode', j, 'string-literal')
                    elif q != 96 and decide(is_line_terminator(e)):
                        pass   # line continuation
                    else:
                        val.append(e)
                j += 2
                continue
            if q != 96 and decide(z_or(V.char_eq(c, 10), V.char_eq(c, 13))):
                self.reject('line terminator in string literal', j, 'string-literal')
            if q == 96 and decide(V.char_eq(c, 36)) and j + 1 < n and decide(V.char_eq(cs[j + 1], 123)):
                self.reject('template substitution', j, 'string-literal')
            val.append(c)
            j += 1
        self.i = j + 1
        return Tok('string', Str(tuple(val)), start, chr(q), Str(cs[start:j + 1]))


# ------------------------------------------------------------------------------------------------
# AST
# ------------------------------------------------------------------------------------------------

class N:
    """generic AST node"""

    def __init__(self, kind, **kw):
        self.kind = kind
        self.__dict__.update(kw)

    def __repr__(self):
        d = {k: v for k, v in self.__dict__.items() if k not in ('kind', 'pos')}
        return '%s(%s)' % (self.kind, ', '.join('%s=%r' % kv for kv in d.items()))


class Parser:
    def __init__(self, text, name=''):
        self.lx = Lexer(text, name)
        self.name = name
        self.labels = ['module']
        self.lx.labels = self.labels

    def push(self, label):
        self.labels.append(label)

    def pop(self):
        self.labels.pop()

    # -- helpers --
    def reject(self, what, tok=None):
        pos = tok.pos if tok is not None else self.lx.i
        raise Reject(what, pos, self.lx.context(pos), self.labels[-1])

    def expect_p(self, p):
        t = self.lx.next()
        if not t.is_p(p):
            self.reject("expected '%s'" % p, t)
        return t

    def accept_p(self, p):
        if self.lx.peek().is_p(p):
            return self.lx.next()
        return None

    def expect_kw(self, w):
        t = self.lx.next()
        if not t.is_kw(w):
            self.reject("expected '%s'" % w, t)
        return t

    def accept_kw(self, w):
        t = self.lx.peek()
        if t.kind == 'ident' and t.is_kw(w):
            return self.lx.next()
        return None

    def ident(self, what='identifier', reserved=RESERVED):
        t = self.lx.next()
        if t.kind != 'ident':
            self.reject('expected %s' % what, t)
        if reserved and decide(equals_any(t.val, reserved)):
            self.reject('reserved word used as %s' % what, t)
        return t.val

    def string(self):
        t = self.lx.next()
        if t.kind != 'string':
            self.reject('expected string literal', t)
        return t

    # -- module --
    def module(self):
        items = []
        while True:
            t = self.lx.peek()
            if t.kind == 'eof':
                break
            items.append(self.item())
        return N('Module', items=items, name=self.name)

    def item(self):
        t = self.lx.peek()
        if t.kind == 'opaque':
            self.lx.next()
            return N('Opaque', val=t.val)
        if t.kind != 'ident':
            self.reject('expected module item', t)
        if t.is_kw('import'):
            return self.import_()
        if t.is_kw('export'):
            return self.export()
        self.reject('expected import or export', t)

    def import_(self):
        self.expect_kw('import')
        names = []
        star = None
        type_only = False
        if self.lx.peek().kind == 'ident' and self.lx.peek().is_kw('type') and not self.lx.peek(1).is_p(','):
            nxt = self.lx.peek(1)
            if nxt.is_p('{') or nxt.is_p('*') or nxt.kind == 'ident':
                self.lx.next()
                type_only = True
        if self.accept_p('*'):
            self.expect_kw('as')
            star = self.ident('namespace name')
        elif self.accept_p('{'):
            while not self.accept_p('}'):
                self.accept_kw('type') if (self.lx.peek().kind == 'ident' and self.lx.peek(1).kind == 'ident') else None
                n = self.ident('import name', None)
                alias = n
                if self.accept_kw('as'):
                    alias = self.ident('import alias')
                names.append(alias)
                if not self.accept_p(','):
                    self.expect_p('}')
                    break
        else:
            names.append(self.ident('default import'))
        self.expect_kw('from')
        src = self.string()
        self.accept_p(';')
        return N('Import', names=names, star=star, source=src.val, type_only=type_only)

    def export(self):
        self.expect_kw('export')
        t = self.lx.peek()
        if t.is_p('*'):
            self.lx.next()
            self.expect_kw('from')
            src = self.string()
            self.accept_p(';')
            return N('ExportStar', source=src.val, pos=t.pos)
        if t.kind != 'ident':
            self.reject('expected declaration after export', t)
        if t.is_kw('interface'):
            self.lx.next()
            self.push('decl-name')
            name = self.ident('interface name', TYPE_NAME_RESERVED)
            tparams = self.type_params()
            nt = self.lx.peek()
            if not (nt.is_p('{') or (nt.kind == 'ident' and nt.is_kw('extends'))):
                self.reject("expected '{' after interface name", nt)
            self.pop()
            ext = []
            if self.accept_kw('extends'):
                ext.append(self.type_())
                while self.accept_p(','):
                    ext.append(self.type_())
            members = self.object_type_body()
            return N('Interface', name=name, extends=ext, members=members, pos=t.pos, tparams=tparams)
        if t.is_kw('type'):
            self.lx.next()
            self.push('decl-name')
            name = self.ident('type alias name', TYPE_NAME_RESERVED)
            tparams = self.type_params()
            self.expect_p('=')
            self.pop()
            ty = self.type_()
            if not self.accept_p(';'):
                nt = self.lx.peek()
                if nt.kind != 'eof' and not (nt.kind == 'ident' and (nt.is_kw('export') or nt.is_kw('import'))):
                    self.reject("expected ';' after type alias", nt)
            return N('TypeAlias', name=name, type=ty, pos=t.pos, tparams=tparams)
        if t.is_kw('const'):
            self.lx.next()
            self.push('decl-name')
            name = self.ident('const name')
            nt = self.lx.peek()
            if not (nt.is_p(':') or nt.is_p('=')):
                self.reject("expected '=' after const name", nt)
            self.pop()
            ann = None
            if self.accept_p(':'):
                ann = self.type_()
            self.expect_p('=')
            init = self.expr()
            if not self.accept_p(';'):
                nt = self.lx.peek()
                if nt.kind != 'eof' and not (nt.kind == 'ident' and (nt.is_kw('export') or nt.is_kw('import'))):
                    self.reject("expected ';' after const", nt)
            return N('Const', name=name, type=ann, init=init, pos=t.pos)
        is_async = False
        if t.is_kw('async'):
            self.lx.next()
            is_async = True
            t = self.lx.peek()
        if t.kind == 'ident' and t.is_kw('function'):
            self.lx.next()
            self.push('decl-name')
            name = self.ident('function name')
            tparams = self.type_params()
            nt = self.lx.peek()
            if not nt.is_p('('):
                self.reject("expected '(' after function name", nt)
            self.pop()
            params = self.params()
            ret = None
            if self.accept_p(':'):
                self.push('type')
                ret = self.type_()
                nt = self.lx.peek()
                if not nt.is_p('{'):
                    self.reject("expected '{' after return type", nt)
                self.pop()
            body = self.block()
            return N('Function', name=name, params=params, ret=ret, body=body, is_async=is_async, pos=t.pos, tparams=tparams)
        self.reject('unsupported export declaration', t)

    def type_params(self):
        out = []
        if self.accept_p('<'):
            while True:
                out.append(self.ident('type parameter', TYPE_NAME_RESERVED))
                if self.accept_kw('extends'):
                    self.type_()
                if self.accept_p('='):
                    self.type_()
                if self.accept_p(','):
                    continue
                self.expect_p('>')
                break
        return out

    # -- types --
    def type_(self):
        self.push('type')
        try:
            self.accept_p('|')
            first = self.type_intersection()
            alts = [first]
            while self.accept_p('|'):
                alts.append(self.type_intersection())
            if len(alts) == 1:
                return first
            return N('Union', alts=alts)
        finally:
            self.pop()

    def type_intersection(self):
        first = self.type_postfix()
        parts = [first]
        while self.accept_p('&'):
            parts.append(self.type_postfix())
        if len(parts) == 1:
            return first
        return N('Intersection', parts=parts)

    def type_postfix(self):
        t = self.type_primary()
        while True:
            nt = self.lx.peek()
            if nt.is_p('[') and self.lx.peek(1).is_p(']'):
                self.lx.next()
                self.lx.next()
                t = N('Array', elem=t)
            elif nt.is_p('['):
                self.lx.next()
                idx = self.type_()
                self.expect_p(']')
                t = N('Indexed', obj=t, index=idx)
            else:
                return t

    def type_primary(self):
        t = self.lx.peek()
        if t.kind == 'string':
            self.lx.next()
            return N('LitType', value=t.val, quote=t.quote)
        if t.kind == 'number':
            self.lx.next()
            return N('NumLitType', value=t.val)
        if t.is_p('['):
            self.lx.next()
            elems = []
            if not self.accept_p(']'):
                while True:
                    elems.append(self.type_())
                    if self.accept_p(','):
                        if self.accept_p(']'):
                            break
                        continue
                    self.expect_p(']')
                    break
            return N('Tuple', elems=elems)
        if t.is_p('{'):
            return N('ObjectType', members=self.object_type_body())
        if t.is_p('('):
            # parenthesised type or function type
            if self._looks_like_fn_type():
                params = self.params()
                self.expect_p('=>')
                ret = self.type_()
                return N('FnType', params=params, ret=ret)
            self.lx.next()
            inner = self.type_()
            self.expect_p(')')
            return N('Paren', inner=inner)
        if t.kind == 'ident':
            if t.is_kw('typeof'):
                self.lx.next()
                parts = [self.ident('typeof operand', None)]
                while self.accept_p('.'):
                    parts.append(self.ident('member', None))
                return N('TypeOf', parts=parts)
            if t.is_kw('keyof'):
                self.lx.next()
                return N('KeyOf', inner=self.type_postfix())
            self.lx.next()
            parts = [t.val]
            while self.lx.peek().is_p('.'):
                self.lx.next()
                nt = self.lx.next()
                if nt.kind != 'ident':
                    self.reject('expected name after "."', nt)
                parts.append(nt.val)
            args = []
            if self.lx.peek().is_p('<'):
                self.lx.next()
                while True:
                    args.append(self.type_())
                    if self.accept_p(','):
                        continue
                    self.expect_p('>')
                    break
            if len(parts) == 1 and decide(equals_any(parts[0], RESERVED - {'void', 'null', 'this'})):
                self.reject('reserved word used as type name', t)
            return N('Ref', parts=parts, args=args, pos=t.pos)
        self.reject('expected type', t)

    def _looks_like_fn_type(self):
        # '(' ')' '=>'   or '(' ident (':'|'?'|',') ...
        a, b = self.lx.peek(1), self.lx.peek(2)
        if a.is_p(')'):
            return self.lx.peek(2).is_p('=>')
        if a.is_p('...'):
            return True
        if a.kind == 'ident' and (b.is_p(':') or b.is_p(',') or b.is_p('?')):
            return True
        if a.kind == 'ident' and b.is_p(')') and self.lx.peek(3).is_p('=>'):
            return True
        return False

    def object_type_body(self):
        self.expect_p('{')
        members = []
        while True:
            t = self.lx.peek()
            if t.is_p('}'):
                self.lx.next()
                break
            self.push('property-key')
            if t.is_p('['):
                self.lx.next()
                kname = self.ident('index signature parameter')
                self.expect_p(':')
                kt = self.type_()
                self.expect_p(']')
                self.expect_p(':')
                vt = self.type_()
                members.append(N('IndexSig', key_name=kname, key_type=kt, type=vt))
            else:
                if t.kind == 'ident':
                    self.lx.next()
                    key = N('Key', text=t.val, quoted=False, pos=t.pos)
                elif t.kind == 'string':
                    self.lx.next()
                    key = N('Key', text=t.val, quoted=True, pos=t.pos)
                elif t.kind == 'number':
                    self.lx.next()
                    key = N('Key', text=t.val, quoted=False, pos=t.pos, numeric=True)
                else:
                    self.reject('expected property name', t)
                opt = bool(self.accept_p('?'))
                if self.lx.peek().is_p('('):
                    params = self.params()
                    self.expect_p(':')
                    ty = N('FnType', params=params, ret=self.type_())
                else:
                    nt = self.lx.peek()
                    if not nt.is_p(':'):
                        self.reject("expected ':' after property name", nt)
                    self.lx.next()
                    self.pop()
                    self.push('type')
                    ty = self.type_()
                members.append(N('Prop', key=key, optional=opt, type=ty))
            if self.accept_p(';') or self.accept_p(','):
                self.pop()
                continue
            nt = self.lx.peek()
            if nt.is_p('}'):
                self.pop()
                continue
            self.reject("expected ';' or '}' in object type", nt)
        return members

    def params(self):
        self.push('params')
        try:
            return self._params()
        finally:
            self.pop()

    def _params(self):
        self.expect_p('(')
        out = []
        if self.accept_p(')'):
            return out
        while True:
            rest = bool(self.accept_p('...'))
            name = self.ident('parameter name')
            opt = bool(self.accept_p('?'))
            ty = None
            if self.accept_p(':'):
                ty = self.type_()
            default = None
            if self.accept_p('='):
                default = self.expr_noseq()
            out.append(N('Param', name=name, optional=opt, type=ty, rest=rest, default=default))
            if self.accept_p(','):
                if self.accept_p(')'):
                    break
                continue
            self.expect_p(')')
            break
        return out

    # -- statements (function bodies) --
    def block(self):
        self.expect_p('{')
        stmts = []
        while not self.accept_p('}'):
            if self.lx.peek().kind == 'eof':
                self.reject("expected '}'", self.lx.peek())
            stmts.append(self.stmt())
        return stmts

    def stmt(self):
        self.push('statement')
        try:
            return self._stmt()
        finally:
            self.pop()

    def _stmt(self):
        t = self.lx.peek()
        if t.is_p('{'):
            return N('Block', body=self.block())
        if t.is_p(';'):
            self.lx.next()
            return N('Empty')
        if t.kind == 'ident':
            if t.is_kw('return'):
                self.lx.next()
                e = None
                if not self.lx.peek().is_p(';') and not self.lx.peek().is_p('}'):
                    e = self.expr()
                self.accept_p(';')
                return N('Return', expr=e)
            if t.is_kw('throw'):
                self.lx.next()
                e = self.expr()
                self.accept_p(';')
                return N('Throw', expr=e)
            if t.is_kw('const') or t.is_kw('let') or t.is_kw('var'):
                self.lx.next()
                name = self.ident('variable name')
                ann = None
                if self.accept_p(':'):
                    ann = self.type_()
                init = None
                if self.accept_p('='):
                    init = self.expr()
                self.accept_p(';')
                return N('VarDecl', name=name, type=ann, init=init)
            if t.is_kw('if'):
                self.lx.next()
                self.expect_p('(')
                c = self.expr()
                self.expect_p(')')
                th = self.stmt()
                el = None
                if self.accept_kw('else'):
                    el = self.stmt()
                return N('If', cond=c, then=th, els=el)
            if t.is_kw('try'):
                self.lx.next()
                b = self.block()
                cparam, cb, fb = None, None, None
                if self.accept_kw('catch'):
                    if self.accept_p('('):
                        cparam = self.ident('catch parameter')
                        if self.accept_p(':'):
                            self.type_()
                        self.expect_p(')')
                    cb = self.block()
                if self.accept_kw('finally'):
                    fb = self.block()
                if cb is None and fb is None:
                    self.reject('try without catch/finally', t)
                return N('Try', body=b, param=cparam, catch=cb, final=fb)
        e = self.expr()
        self.accept_p(';')
        return N('ExprStmt', expr=e)

    # -- expressions --
    def expr(self):
        e = self.expr_noseq()
        while self.accept_p(','):
            e = N('Seq', left=e, right=self.expr_noseq())
        return e

    def expr_noseq(self):
        self.push('expr')
        try:
            return self._expr_noseq()
        finally:
            self.pop()

    def _expr_noseq(self):
        # arrow functions
        t = self.lx.peek()
        if t.is_p('(') and self._looks_like_arrow():
            params = self.params()
            if self.accept_p(':'):
                self.type_()
            self.expect_p('=>')
            body = self.block() if self.lx.peek().is_p('{') else self.expr_noseq()
            return N('Arrow', params=params, body=body)
        if t.kind == 'ident' and self.lx.peek(1).is_p('=>') and not decide(equals_any(t.val, RESERVED)):
            self.lx.next()
            self.lx.next()
            body = self.block() if self.lx.peek().is_p('{') else self.expr_noseq()
            return N('Arrow', params=[N('Param', name=t.val, optional=False, type=None, rest=False, default=None)], body=body)
        if t.kind == 'ident' and t.is_kw('async') and self.lx.peek(1).is_p('('):
            self.lx.next()
            return self.expr_noseq()
        left = self.binary(0)
        if self.accept_p('?'):
            a = self.expr_noseq()
            self.expect_p(':')
            b = self.expr_noseq()
            return N('Cond', test=left, then=a, els=b)
        if self.lx.peek().is_p('=') or self.lx.peek().is_p('+=') or self.lx.peek().is_p('-='):
            op = self.lx.next().val
            return N('Assign', op=op, left=left, right=self.expr_noseq())
        return left

    def _looks_like_arrow(self):
        # scan balanced parens then '=>' or ':' type '=>'
        depth = 0
        k = 0
        while True:
            t = self.lx.peek(k)
            if t.kind == 'eof':
                return False
            if t.is_p('('):
                depth += 1
            elif t.is_p(')'):
                depth -= 1
                if depth == 0:
                    nt = self.lx.peek(k + 1)
                    return nt.is_p('=>') or (nt.is_p(':') and self._arrow_after_type(k + 2))
            k += 1
            if k > 400:
                return False

    def _arrow_after_type(self, k):
        for j in range(k, k + 40):
            t = self.lx.peek(j)
            if t.is_p('=>'):
                return True
            if t.is_p(';') or t.is_p('{') or t.kind == 'eof':
                return False
        return False

    BINOPS = [('??',), ('||',), ('&&',), ('|',), ('^',), ('&',), ('===', '!==', '==', '!='), ('<', '>', '<=', '>='),
              ('+', '-'), ('*', '/', '%')]

    def binary(self, level):
        if level >= len(self.BINOPS):
            return self.unary()
        left = self.binary(level + 1)
        while True:
            t = self.lx.peek()
            if t.kind == 'punct' and t.val in self.BINOPS[level]:
                self.lx.next()
                right = self.binary(level + 1)
                left = N('Binary', op=t.val, left=left, right=right)
            elif level == 7 and t.kind == 'ident' and (t.is_kw('instanceof') or t.is_kw('in')):
                self.lx.next()
                right = self.binary(level + 1)
                left = N('Binary', op='instanceof', left=left, right=right)
            else:
                return left

    def unary(self):
        t = self.lx.peek()
        if t.kind == 'punct' and t.val in ('!', '-', '+', '~', '...'):
            self.lx.next()
            return N('Unary', op=t.val, arg=self.unary())
        if t.kind == 'ident':
            for w in ('await', 'typeof', 'void', 'delete', 'new'):
                if t.is_kw(w):
                    self.lx.next()
                    return N('Unary', op=w, arg=self.unary())
        return self.postfix()

    def postfix(self):
        e = self.primary()
        while True:
            t = self.lx.peek()
            if t.is_p('.') or t.is_p('?.'):
                self.lx.next()
                if t.is_p('?.') and self.lx.peek().is_p('('):
                    args = self.args()
                    e = N('Call', callee=e, args=args, targs=[], optional=True)
                    continue
                nt = self.lx.next()
                if nt.kind != 'ident':
                    self.reject('expected property name after "."', nt)
                e = N('Member', obj=e, prop=nt.val, optional=t.is_p('?.'))
            elif t.is_p('('):
                args = self.args()
                e = N('Call', callee=e, args=args, targs=[], optional=False)
            elif t.is_p('['):
                self.lx.next()
                idx = self.expr()
                self.expect_p(']')
                e = N('Index', obj=e, index=idx)
            elif t.is_p('<') and self._looks_like_targs():
                self.lx.next()
                targs = []
                while True:
                    targs.append(self.type_())
                    if self.accept_p(','):
                        continue
                    self.expect_p('>')
                    break
                args = self.args()
                e = N('Call', callee=e, args=args, targs=targs, optional=False)
            elif t.is_p('!') and not self.lx.peek(1).is_p('='):
                self.lx.next()
                e = N('NonNull', arg=e)
            elif t.kind == 'ident' and t.is_kw('as'):
                self.lx.next()
                e = N('As', arg=e, type=self.type_())
            else:
                return e

    def _looks_like_targs(self):
        """`f<T>(...)`: after '<' a type, then '>' '(' -- scan for matching '>' followed by '('"""
        depth = 0
        for k in range(0, 200):
            t = self.lx.peek(k)
            if t.kind == 'eof' or t.is_p(';') or t.is_p('{') and depth == 0:
                return False
            if t.is_p('<'):
                depth += 1
            elif t.is_p('>'):
                depth -= 1
                if depth == 0:
                    return self.lx.peek(k + 1).is_p('(')
            elif t.is_p(')') and depth <= 1 and k > 0 and not self._inside_paren(k):
                return False
        return False

    def _inside_paren(self, k):
        d = 0
        for j in range(0, k + 1):
            t = self.lx.peek(j)
            if t.is_p('('):
                d += 1
            elif t.is_p(')'):
                d -= 1
        return d >= 0

    def args(self):
        self.expect_p('(')
        out = []
        if self.accept_p(')'):
            return out
        while True:
            out.append(self.expr_noseq())
            if self.accept_p(','):
                if self.accept_p(')'):
                    break
                continue
            self.expect_p(')')
            break
        return out

    def primary(self):
        t = self.lx.next()
        if t.kind == 'string':
            return N('Str', value=t.val, quote=t.quote, pos=t.pos)
        if t.kind == 'number':
            return N('Num', text=t.val, pos=t.pos)
        if t.kind == 'opaque':
            return N('OpaqueExpr', val=t.val)
        if t.kind == 'ident':
            if decide(equals_any(t.val, RESERVED - {'this', 'null', 'true', 'false', 'super', 'function'})):
                self.reject('reserved word in expression position', t)
            if t.is_kw('function'):
                if self.lx.peek().kind == 'ident':
                    self.ident('function name')
                params = self.params()
                if self.accept_p(':'):
                    self.type_()
                return N('FnExpr', params=params, body=self.block())
            return N('Id', name=t.val, pos=t.pos)
        if t.is_p('('):
            e = self.expr()
            self.expect_p(')')
            return N('ParenExpr', inner=e)
        if t.is_p('['):
            elems = []
            if not self.accept_p(']'):
                while True:
                    elems.append(self.expr_noseq())
                    if self.accept_p(','):
                        if self.accept_p(']'):
                            break
                        continue
                    self.expect_p(']')
                    break
            return N('ArrayLit', elems=elems)
        if t.is_p('{'):
            props = []
            while True:
                nt = self.lx.peek()
                if nt.is_p('}'):
                    self.lx.next()
                    break
                if nt.is_p('...'):
                    self.lx.next()
                    props.append(N('Spread', arg=self.expr_noseq()))
                else:
                    self.push('object-key')
                    kt = self.lx.next()
                    if kt.kind == 'ident':
                        key = N('Key', text=kt.val, quoted=False, pos=kt.pos)
                    elif kt.kind == 'string':
                        key = N('Key', text=kt.val, quoted=True, pos=kt.pos)
                    elif kt.kind == 'number':
                        key = N('Key', text=kt.val, quoted=False, pos=kt.pos, numeric=True)
                    else:
                        self.reject('expected property name in object literal', kt)
                    if self.accept_p(':'):
                        self.pop()
                        val = self.expr_noseq()
                        props.append(N('PropInit', key=key, value=val, shorthand=False))
                        self.push('object-value')
                    else:
                        if kt.kind != 'ident':
                            self.reject("expected ':' after property name", self.lx.peek())
                        if decide(equals_any(kt.val, RESERVED)):
                            self.reject('reserved word as shorthand property', kt)
                        sep = self.lx.peek()
                        if not (sep.is_p(',') or sep.is_p('}')):
                            self.reject("expected ':' , ',' or '}' after property name", sep)
                        props.append(N('PropInit', key=key, value=N('Id', name=kt.val, pos=kt.pos), shorthand=True))
                if self.accept_p(','):
                    if self.labels[-1] in ('object-key', 'object-value'):
                        self.pop()
                    continue
                nt = self.lx.peek()
                if nt.is_p('}'):
                    if self.labels[-1] in ('object-key', 'object-value'):
                        self.pop()
                    continue
                self.reject("expected ',' or '}' in object literal", nt)
            return N('ObjectLit', props=props)
        self.reject('expected expression', t)


def parse_module(text, name=''):
    return Parser(text, name).module()


def parse_type(text):
    p = Parser(text, 'type')
    t = p.type_()
    if p.lx.peek().kind != 'eof':
        p.reject('trailing characters after type', p.lx.peek())
    return t
